"""C06 -- reported standard errors and confidence intervals are coherent."""
import math
from fractions import Fraction

import numpy as np
import pandas as pd
from scipy.stats import norm

from common import coq_eval, frac, close, qlit, qlist, TOL_ARITH, TOL_FIT
import datagen
import est_common as ec

PROP_FILE = 'theories/Properties/C06.v'
MODEL_FILES = ['theories/Base/Rows.v', 'theories/Model/Estimators.v', 'theories/Model/Variance.v', 'theories/Spec/Measures.v']
GEN_GROUPS = ['calc', 'ic', 'aipw', 'pool', 'wprod', 'xfvar', 'drci', 'xftmle', 'stmle']
RULE = ('alpha grid {0.05, 0.049999, 0.5, 1e-6, 0.999, 0.01, 0.2} x: count calculators on random tables; AIPTW / TMLE / '
        'StochasticTMLE / IPTW on random mixed frames; calculate_joint_estimate on random vectors and the four cross-fit '
        'classes with sklearn learners; per fit: limits = est -/+ norm.ppf(1-alpha/2)*SE on the documented scale, nestedness '
        'and alpha-independence of the point estimate across alphas on the same data, SE^2 = the Coq-evaluated variance '
        'estimator; non-trivial = distinct (site, data, alpha)')
TRUSTED = ['scipy.stats.norm.ppf is the standard normal quantile: positive above 1/2 and strictly increasing (sampled on a grid each run)',
           'statsmodels GEE robust covariance for independence working correlation equals the closed-form sandwich (validated per case)',
           'sklearn LogisticRegression/LinearRegression as cross-fit learners; probe hook in TMLE.fit']

ALPHAS = [0.05, 0.049999, 0.5, 1e-6, 0.999, 0.01, 0.2]
NAN_SEEN = [0]
IMPORTS = ec.IMPORTS + ['Zepid.Model.Variance', 'Zepid.Spec.Measures']


def z(alpha):
    return float(norm.ppf(1 - alpha / 2))


def wald_ok(est, lo, hi, se, alpha, log, zval=None, tol=1e-9):
    zz = z(alpha) if zval is None else zval
    if log:
        e_lo, e_hi = math.exp(math.log(est) - zz * se), math.exp(math.log(est) + zz * se)
    else:
        e_lo, e_hi = est - zz * se, est + zz * se
    return abs(lo - e_lo) <= tol * max(1, abs(e_lo)) and abs(hi - e_hi) <= tol * max(1, abs(e_hi))


def check_family(fails, key, what, per_alpha, log, payload, size, known_z=None):
    """per_alpha: {alpha: (est, lo, hi, se)} from the same data. checks formula, containment, nestedness, alpha-independence"""
    al = sorted(per_alpha)
    if any(v != v for a in al for v in per_alpha[a]):
        # an estimator that returns NaN (e.g. a learner extrapolating outside the unit range) reports no interval at all:
        # nothing to be coherent about; counted, not judged here
        NAN_SEEN[0] += 1
        return
    for a in al:
        est, lo, hi, se = per_alpha[a]
        zval = known_z(a) if known_z else None
        if not wald_ok(est, lo, hi, se, a, log):
            if zval is not None and wald_ok(est, lo, hi, se, a, log, zval=zval):
                fails.append((size, key + '.z196', '%s: at alpha=%g the limits use z=1.96 instead of the normal quantile %.9f (limits %r, %r)'
                              % (what, a, z(a), lo, hi), payload))
            else:
                fails.append((size, key + '.limits', '%s: limits %r/%r are not estimate -/+ z(1-alpha/2)*SE (est %r, SE %r, alpha %g, %s scale)'
                              % (what, lo, hi, est, se, a, 'log' if log else 'linear'), payload))
        if not (lo <= est + 1e-12 * max(1, abs(est)) and est <= hi + 1e-12 * max(1, abs(est))):
            fails.append((size, key + '.contains', '%s: interval [%r, %r] does not contain the estimate %r' % (what, lo, hi, est), payload))
    e0, _, _, s0 = per_alpha[al[0]]
    for a in al[1:]:
        if abs(per_alpha[a][0] - e0) > 1e-9 * max(1, abs(e0)) or abs(per_alpha[a][3] - s0) > 1e-9 * max(1, abs(s0)):
            fails.append((size, key + '.alpha-dependent', '%s: estimate/SE change with alpha (%r vs %r)' % (what, per_alpha[a][0], e0), payload))
    for a1, a2 in zip(al, al[1:]):       # a1 < a2: interval(a2) inside interval(a1)
        _, l1, h1, _ = per_alpha[a1]
        _, l2, h2, _ = per_alpha[a2]
        if l2 < l1 - 1e-12 * max(1, abs(l1)) or h2 > h1 + 1e-12 * max(1, abs(h1)):
            k = key + ('.z196' if known_z and (known_z(a1) or known_z(a2)) else '.nested')
            fails.append((size, k, '%s: interval at alpha=%g [%r, %r] is not inside the interval at alpha=%g [%r, %r]'
                          % (what, a2, l2, h2, a1, l1, h1), payload))


# ------------------------------------------------------------------------------------------------ A. quantile oracle
def quantile_part(ctx, fails):
    grid = [i / 400.0 for i in range(1, 400)]
    vals = [float(norm.ppf(p)) for p in grid]
    ctx.oracle_checks += len(grid)
    if any(v <= 0 for p, v in zip(grid, vals) if p > 0.5) or any(b <= a for a, b in zip(vals, vals[1:])):
        ctx.broken_ties.append('oracle: scipy.stats.norm.ppf is not positive above 1/2 / strictly increasing on the grid')


# ------------------------------------------------------------------------------------------------ B. calculators
def calc_part(ctx, fails):
    import zepid.calc as zc
    n = 25 if ctx.quick else 300
    work, exprs = [], []
    for i in range(n):
        t = tuple(ctx.rng.randint(1, 300) for _ in range(4))
        if i % 4 == 3:          # large counts
            t = tuple(ctx.rng.randint(20000, 90000) for _ in range(4))
        rt = (ctx.rng.randint(1, 300), ctx.rng.randint(1, 300), ctx.rng.randint(8, 8000) / 8.0, ctx.rng.randint(8, 8000) / 8.0)
        # the counts as they arrive from a typed column / array: python int, numpy int64, int32, int16
        st = ['python', 'int32', 'int64', 'int16' if max(t) < 32000 else 'int32'][i % 4]
        ctx.count('calc: count arguments passed as ' + st)
        targ = t if st == 'python' else tuple(getattr(np, st)(x) for x in t)
        fam = {}
        for f, log, args in (('risk_ratio', True, targ), ('risk_difference', False, targ), ('odds_ratio', True, targ),
                             ('incidence_rate_ratio', True, rt), ('incidence_rate_difference', False, rt)):
            fam[f] = (log, {})
            for a in ALPHAS:
                r = getattr(zc, f)(*args, alpha=a)
                fam[f][1][a] = (float(r.point_estimate), float(r.lower_bound), float(r.upper_bound), float(r.standard_error))
        for a in ALPHAS:       # NNT: limits are the reciprocals of the RD limits AT THE SAME alpha, SE is the RD's SE
            r = zc.number_needed_to_treat(*t, alpha=a)
            rdv = fam['risk_difference'][1][a]
            for got, want in ((float(r.lower_bound), rdv[1]), (float(r.upper_bound), rdv[2])):
                exp = (1 / want) if want != 0 else float('inf')
                if not (got == exp or abs(got - exp) <= 1e-9 * max(1, abs(exp))):
                    fails.append((0, 'calc.number_needed_to_treat.limits', 'number_needed_to_treat%r at alpha=%g: limit %r is not the reciprocal '
                                  'of the risk-difference limit %r at that alpha' % (t, a, got, want), {'part': 'calc', 'table': t, 'alpha': a}))
            if abs(float(r.standard_error) - rdv[3]) > 1e-12:
                fails.append((0, 'calc.number_needed_to_treat.se', 'NNT SE differs from the RD SE for %r' % (t,), {'part': 'calc', 'table': t}))
        rc = {}
        for a in ALPHAS:
            r = zc.risk_ci(t[0], t[0] + t[1], alpha=a)
            rc[a] = (float(r.point_estimate), float(r.lower_bound), float(r.upper_bound), float(r.standard_error))
        fam['risk_ci'] = (False, rc)
        # the other documented interval of risk_ci: SE^2 = a*b / (n^2 (n - 1)), limits = risk -/+ z * SE
        rh = {}
        for a in ALPHAS:
            r = zc.risk_ci(t[0], t[0] + t[1], alpha=a, confint='hypergeometric')
            rh[a] = (float(r.point_estimate), float(r.lower_bound), float(r.upper_bound), float(r.standard_error))
        fam['risk_ci[hypergeometric]'] = (False, rh)
        nn_ = t[0] + t[1]
        if nn_ > 1:
            ctx.disagreements_checked += 1
            want = Fraction(t[0] * t[1], nn_ * nn_ * (nn_ - 1))
            if not close(rh[0.05][3] ** 2, want, TOL_ARITH):
                fails.append((0, 'calc.risk_ci.hypergeometric.se', "risk_ci(%d, %d, confint='hypergeometric') SE^2 %r is not a*b/(n^2 (n-1)) = %s"
                              % (t[0], nn_, rh[0.05][3] ** 2, want), {'part': 'calc', 'table': t}))
        work.append((t, rt, fam))
        exprs.append('(Qflat (measures4 %s), Qflat (measures_rate %s))' % (' '.join(qlit(x) for x in t), ' '.join(qlit(x) for x in rt)))
    res, errs = coq_eval(ctx, 'c06calc', IMPORTS, exprs, shard=150)
    if errs:
        ctx.broken_ties.append('coq evaluation failed: ' + errs[0][1][-300:])
    for (t, rt, fam), r in zip(work, res):
        ctx.evaluations += 1
        ctx.programs += 6
        ctx.nontriv(['calc', t, rt])
        ctx.count('site:calculators')
        payload = {'part': 'calc', 'table': t, 'rate_args': rt}
        for f, (log, per) in fam.items():
            check_family(fails, 'calc.%s' % f, '%s%r' % (f, t if 'rate' not in f else rt), per, log, payload, 0)
        if r is None:
            continue
        m4, mr = [frac(x) for x in r[0]], [frac(x) for x in r[1]]
        for f, idx, src in (('risk_ratio', 1, m4), ('risk_difference', 3, m4), ('odds_ratio', 5, m4),
                            ('incidence_rate_ratio', 1, mr), ('incidence_rate_difference', 3, mr)):
            se = fam[f][1][0.05][3]
            ctx.disagreements_checked += 1
            if not close(se * se, src[idx], TOL_ARITH):
                fails.append((0, 'calc.%s.se' % f, '%s SE^2 %r is not the documented variance %s' % (f, se * se, src[idx]), payload))
        if not close(fam['risk_ci'][1][0.05][3] ** 2, m4[9], TOL_ARITH):
            fails.append((0, 'calc.risk_ci.se', 'risk_ci SE^2 differs from p(1-p)/n', payload))
    ctx.sample({'site': 'calculators', 'table': work[0][0], 'alpha_grid': ALPHAS, 'rr_at_0.05': work[0][2]['risk_ratio'][1][0.05]}, cap=8)


# ------------------------------------------------------------------------------------------------ D/E. AIPTW, TMLE
def dr_part(ctx, fails):
    """coherence across alpha on realistic frames (no Coq needed: the generic Wald theorems apply to any est/SE)"""
    from zepid.causal.doublyrobust import AIPTW, TMLE
    n = 4 if ctx.quick else 40
    for i in range(n):
        otype = ['binary', 'normal'][i % 2]
        miss = ctx.rng.choice([None, None, 'mar'])
        df, meta = datagen.mixed_frame(ctx.rng, n=ctx.rng.randint(60, 120), outcome=otype, missing=miss)
        payload = {'part': 'dr', 'data': {c: [None if (isinstance(v, float) and v != v) else v for v in df[c].tolist()] for c in df.columns},
                   'meta': meta}
        binary = otype == 'binary'
        for cls in (AIPTW, TMLE):
            name = cls.__name__
            per_rd, per_rr, per_or = {}, {}, {}
            use_mm = bool(miss) and ctx.rng.random() < 0.5
            try:
                for a in ALPHAS:
                    o = cls(df, 'A', 'Y', alpha=a)
                    o.exposure_model(meta['rhs'], print_results=False)
                    if use_mm:
                        o.missing_model('A + ' + meta['rhs'], print_results=False)
                    o.outcome_model('A + ' + meta['rhs'], print_results=False)
                    o.fit()
                    if binary:
                        per_rd[a] = (float(o.risk_difference), float(o.risk_difference_ci[0]), float(o.risk_difference_ci[1]), float(o.risk_difference_se))
                        per_rr[a] = (float(o.risk_ratio), float(o.risk_ratio_ci[0]), float(o.risk_ratio_ci[1]), float(o.risk_ratio_se))
                        if name == 'TMLE':
                            per_or[a] = (float(o.odds_ratio), float(o.odds_ratio_ci[0]), float(o.odds_ratio_ci[1]), float(o.odds_ratio_se))
                    else:
                        per_rd[a] = (float(o.average_treatment_effect), float(o.average_treatment_effect_ci[0]),
                                     float(o.average_treatment_effect_ci[1]), float(o.average_treatment_effect_se))
            except Exception as e:   # noqa
                fails.append((len(df), '%s.fit.raises' % name, '%s raised %s: %s' % (name, type(e).__name__, str(e)[:100]), payload))
                continue
            ctx.evaluations += 1
            ctx.programs += 1
            ctx.count('site:' + name)
            ctx.nontriv([name, otype, miss, df['Y'].fillna(-9).tolist()[:8]])
            kz = (lambda a: 1.96 if a == 0.05 else None) if name == 'TMLE' else None
            check_family(fails, name + '.rd', '%s RD/ATE' % name, per_rd, False, payload, len(df), known_z=kz)
            if per_rr:
                check_family(fails, name + '.rr', '%s RR' % name, per_rr, True, payload, len(df), known_z=kz)
            if per_or:
                check_family(fails, name + '.or', '%s OR' % name, per_or, True, payload, len(df), known_z=kz)
    ctx.sample({'site': 'AIPTW/TMLE coherence', 'alpha_grid': ALPHAS}, cap=8)


def small_cat(ctx, otype):
    return datagen.cat_frame(ctx.rng, n_cov=1, arities=[2], cell=(2, 4), outcome=otype)


def dr_se_part(ctx, fails):
    """SE^2 against the Coq-evaluated influence-curve variance on small categorical frames (exact rationals stay small):
    nuisance models saturated, or arbitrary dyadic tables injected through custom_model"""
    from zepid.causal.doublyrobust import AIPTW, TMLE
    n = 6 if ctx.quick else 60
    exprs, refs = [], []
    for i in range(n):
        otype = 'binary' if i % 3 else 'normal'
        df, meta = small_cat(ctx, otype)
        binary = otype == 'binary'
        garbage = binary and ctx.rng.random() < 0.5
        if i % 2 == 0:
            # some outcomes missing (the influence-curve variance is over ALL n rows, not over the rows with an outcome)
            df = df.copy()
            for idx in ctx.rng.sample(list(df.index), max(1, len(df) // 6)):
                cell = df[(df['S'] == df.loc[idx, 'S']) & (df['A'] == df.loc[idx, 'A']) & df['Y'].notna()]
                if len(cell) > 2 and (not binary or (garbage or cell['Y'].drop(idx).nunique() == 2)):
                    df.loc[idx, 'Y'] = np.nan
        if i % 3 != 1:
            # rows the estimators document to drop (a NaN in a column that is not the outcome, here one no model uses):
            # n in "standard deviation over root n" is the number of rows analysed, not the number handed in
            df = df.copy()
            df['Z'] = 1.0
            extra = df.loc[ctx.rng.sample(list(df.index), max(1, len(df) // 4))].copy()
            extra['Z'] = np.nan
            df = pd.concat([df, extra], ignore_index=True)
            df = df.loc[ctx.rng.sample(list(df.index), len(df))].reset_index(drop=True)
            ctx.count('dr_se: frames with rows dropped for a missing non-outcome value')
        df, dr = datagen.dress(df, ctx.rng, i)
        ctx.count('dr_se row labels:' + dr['index'])
        ctx.count('dr_se exposure dtype:' + dr['adtype'])
        payload = {'part': 'dr_se', 'frame': datagen.pack_frame(df), 'meta': meta}
        gt = [ctx.rng.choice([0.25, 0.375, 0.5, 0.625, 0.75]) for _ in range(meta['n_strata'])]
        q1t = [ctx.rng.choice([0.25, 0.5, 0.625, 0.75]) for _ in range(meta['n_strata'])]
        q0t = [ctx.rng.choice([0.125, 0.25, 0.5, 0.75]) for _ in range(meta['n_strata'])]
        for cls in (AIPTW, TMLE):
            name = cls.__name__
            try:
                o = cls(df, 'A', 'Y', alpha=0.2) if (name == 'AIPTW' or binary) else cls(df, 'A', 'Y', alpha=0.2, continuous_bound=1e-10)
                if garbage:
                    o.exposure_model('S', custom_model=ec.Garbage(gt), print_results=False)
                    o.outcome_model('S + A', custom_model=ec.Garbage(q1t, q0t, col=0, acol=1), print_results=False)
                else:
                    o.exposure_model(meta['sat_L'], print_results=False)
                    o.outcome_model(meta['sat_AL'], print_results=False)
                o.fit()
            except Exception as e:   # noqa
                fails.append((len(df), '%s.fit.raises' % name, '%s raised %s: %s' % (name, type(e).__name__, str(e)[:100]), payload))
                continue
            ctx.evaluations += 1
            ctx.programs += 1
            ctx.count('site:%s.se(%s)' % (name, 'table' if garbage else 'saturated'))
            ctx.nontriv([name, 'se', otype, garbage, df['Y'].tolist(), df['A'].tolist()])
            nn = len(o.df)
            S = np.asarray(o.df['S'])
            A = np.asarray(o.df['A']).astype(int)
            yden = 1 if binary else 100
            if name == 'AIPTW':
                Y = [ec.frac_y(y, 2) for y in np.asarray(o.df['Y'], dtype=float)]
                rows = ec.coq_rows(S, A, Y, g1=ec.snap_vec(o.df['_g1_'], nn)[0], q1=ec.snap_vec(o.df['_pY1_'], nn, yden)[0],
                                   q0=ec.snap_vec(o.df['_pY0_'], nn, yden)[0])
                exprs.append('let l := %s in Qflat [aipw_var_rd l; %s]' % (rows, 'aipw_var_lnrr l' if binary else '0'))
                se_rd = float(o.risk_difference_se if binary else o.average_treatment_effect_se)
                refs.append((name, se_rd, float(o.risk_ratio_se) if binary else None, None, payload, nn))
            else:
                pr = o._verif_probe_
                lo, hi = (0.0, 1.0) if binary else (float(o._continuous_min), float(o._continuous_max))
                y = np.asarray(o.df['Y'], dtype=float) * (hi - lo) + lo
                Y = [None if v != v else ec.frac_y(v, 2) for v in np.round(y, 6)]
                q1 = ec.snap_vec(pr['Qstar1'] * (hi - lo) + lo, nn * 64, yden)[0]
                q0 = ec.snap_vec(pr['Qstar0'] * (hi - lo) + lo, nn * 64, yden)[0]
                rows = ec.coq_rows(S, A, Y, g1=ec.snap_vec(o.g1W, nn * 16)[0], q1=q1, q0=q0)
                exprs.append('let l := %s in Qflat [tmle_var_rd l; %s; %s]' % (rows, 'tmle_var_lnrr l' if binary else '0', 'tmle_var_lnor l' if binary else '0'))
                se_rd = float(o.risk_difference_se if binary else o.average_treatment_effect_se)
                refs.append((name, se_rd, float(o.risk_ratio_se) if binary else None, float(o.odds_ratio_se) if binary else None, payload, nn))
    res, errs = coq_eval(ctx, 'c06dr', IMPORTS, exprs, shard=4, timeout=300)
    if errs:
        ctx.broken_ties.append('coq evaluation failed: ' + errs[0][1][-300:])
    for (name, se_rd, se_rr, se_or, payload, size), r in zip(refs, res):
        if r is None:
            continue
        q = [frac(x) for x in r]
        ctx.disagreements_checked += 1
        if not close(se_rd ** 2, q[0], 1e-5):
            fails.append((size, name + '.rd.se', '%s SE(RD/ATE)^2 = %r but influence-curve variance / n is %.12g' % (name, se_rd ** 2, float(q[0])), payload))
        if se_rr is not None and not close(se_rr ** 2, q[1], 1e-5):
            fails.append((size, name + '.rr.se', '%s SE(ln RR)^2 = %r but influence-curve variance / n is %.12g' % (name, se_rr ** 2, float(q[1])), payload))
        if se_or is not None and not close(se_or ** 2, q[2], 1e-5):
            fails.append((size, name + '.or.se', '%s SE(ln OR)^2 = %r but influence-curve variance / n is %.12g' % (name, se_or ** 2, float(q[2])), payload))
    ctx.sample({'site': 'AIPTW/TMLE SE^2 vs Coq influence-curve variance', 'fits': len(refs)}, cap=8)


# ------------------------------------------------------------------------------------------------ F. StochasticTMLE
def stmle_part(ctx, fails):
    from zepid.causal.doublyrobust import StochasticTMLE
    n = 3 if ctx.quick else 25
    for i in range(n):
        otype = ['binary', 'normal'][i % 2]
        df, meta = datagen.mixed_frame(ctx.rng, n=ctx.rng.randint(60, 120), outcome=otype)
        payload = {'part': 'stmle', 'data': df.to_dict('list'), 'meta': meta}
        per = {}
        p = ctx.rng.choice([1.0, 0.0, 0.4])
        cond = None
        if i % 2 == 1 or ctx.rng.random() < 0.3:
            # conditional plan (list p): the same seeded call must give the same point estimate whatever alpha is
            cond = ["df['W0'] > 0", "df['W0'] <= 0"]
            p = [ctx.rng.choice([0.2, 0.5]), ctx.rng.choice([0.7, 0.9])]
        seed = ctx.rng.choice([0, 7, 20211])
        ctx.count('stmle plan:' + ('conditional' if cond else 'scalar'))
        vcalls = []
        orig_mv = StochasticTMLE.est_marginal_variance

        def spy_mv(haw, y_obs, y_pred, y_pred_targeted, psi):
            r_ = orig_mv(haw=haw, y_obs=y_obs, y_pred=y_pred, y_pred_targeted=y_pred_targeted, psi=psi)
            vcalls.append((np.asarray(haw, dtype=float), np.asarray(y_obs, dtype=float), np.asarray(y_pred, dtype=float),
                           np.asarray(y_pred_targeted, dtype=float), float(psi), float(r_)))
            return r_
        StochasticTMLE.est_marginal_variance = staticmethod(spy_mv)
        try:
            for a in ALPHAS:
                st = StochasticTMLE(df, 'A', 'Y', alpha=a)
                st.exposure_model(meta['rhs'])
                st.outcome_model('A + ' + meta['rhs'])
                np.random.random(ctx.rng.randint(1, 9))      # whatever else the session did to numpy's global generator
                st.fit(p=p, conditional=cond, samples=5, seed=seed)
                per[a] = (float(st.marginal_outcome), float(st.marginal_ci[0]), float(st.marginal_ci[1]), float(st.marginal_se))
        except Exception as e:   # noqa
            fails.append((len(df), 'StochasticTMLE.fit.raises', 'StochasticTMLE raised %s: %s' % (type(e).__name__, str(e)[:100]), payload))
            continue
        finally:
            StochasticTMLE.est_marginal_variance = staticmethod(orig_mv)
        # SE^2 = mean of the squared influence values over n (Model.Variance.stmle_var), and the conditional SE likewise,
        # recomputed from the arrays the estimator handed to its own variance function in the last fit
        if vcalls:
            haw_, y_, q_, qs_, psi_, v_ = vcalls[-1]
            ic_ = haw_ * (y_ - q_) + qs_ - psi_
            se_ref = math.sqrt(float(np.mean(ic_ ** 2)) / len(y_))
            sec_ref = math.sqrt(float(np.mean((haw_ * (y_ - q_)) ** 2)) / len(y_))
            ctx.disagreements_checked += 1
            ctx.count('StochasticTMLE SE recomputed from the influence values')
            if abs(psi_ - float(st.marginal_outcome)) > 1e-12 * max(1.0, abs(psi_)) or len(y_) != st.df.shape[0]:
                fails.append((len(df), 'StochasticTMLE.variance.arguments', 'the variance estimator was called with psi=%r on %d rows; the reported '
                              'marginal outcome is %r on %d rows' % (psi_, len(y_), float(st.marginal_outcome), st.df.shape[0]), payload))
            if not (abs(float(st.marginal_se) - se_ref) <= 1e-10 * max(1.0, se_ref)):
                fails.append((len(df), 'StochasticTMLE.marginal_se', 'marginal_se = %r; sqrt(mean squared influence value / n) = %r'
                              % (float(st.marginal_se), se_ref), payload))
            if not (abs(float(st.conditional_se) - sec_ref) <= 1e-10 * max(1.0, sec_ref)):
                fails.append((len(df), 'StochasticTMLE.conditional_se', 'conditional_se = %r; sqrt(mean squared conditional influence value / n) = %r'
                              % (float(st.conditional_se), sec_ref), payload))
            cz = z(ALPHAS[-1])
            if not (abs(float(st.conditional_ci[0]) - (float(st.marginal_outcome) - cz * float(st.conditional_se))) <= 1e-9
                    and abs(float(st.conditional_ci[1]) - (float(st.marginal_outcome) + cz * float(st.conditional_se))) <= 1e-9):
                fails.append((len(df), 'StochasticTMLE.conditional_ci', 'conditional_ci = %r is not marginal outcome -/+ z*conditional_se'
                              % (list(map(float, st.conditional_ci)),), payload))
        ctx.evaluations += 1
        ctx.programs += 1
        ctx.count('site:StochasticTMLE')
        ctx.nontriv(['stmle', otype, p, df['Y'].tolist()[:8]])
        check_family(fails, 'StochasticTMLE.marginal', 'StochasticTMLE marginal outcome (p=%r, conditional=%r, seed=%r)' % (p, cond, seed), per, False, payload, len(df))
        if st.marginal_se < 0 or st.marginal_se != st.marginal_se:
            fails.append((len(df), 'StochasticTMLE.se', 'marginal SE is %r' % st.marginal_se, payload))


# ------------------------------------------------------------------------------------------------ G. IPTW sandwich
def iptw_part(ctx, fails):
    from zepid.causal.ipw import IPTW
    n = 8 if ctx.quick else 80
    exprs, refs = [], []
    for i in range(n):
        otype = ['binary', 'normal'][i % 2]
        df, meta = small_cat(ctx, otype)
        df, dr = datagen.dress(df, ctx.rng, i)
        ctx.count('iptw row labels:' + dr['index'])
        payload = {'part': 'iptw', 'frame': datagen.pack_frame(df), 'meta': meta}
        stab = bool(i % 3 == 0)
        try:
            ip = IPTW(df, 'A', 'Y')
            ip.treatment_model(meta['sat_L'] if i % 4 else '1', stabilized=stab, print_results=False)
            ip.marginal_structural_model('A')
            ip.fit()
        except Exception as e:   # noqa
            fails.append((len(df), 'IPTW.fit.raises', 'IPTW raised %s: %s' % (type(e).__name__, str(e)[:100]), payload))
            continue
        ctx.evaluations += 1
        ctx.programs += 1
        ctx.count('site:IPTW')
        ctx.nontriv(['iptw', otype, stab, df['Y'].tolist()[:8]])
        tabs = [('rd', ip.risk_difference, 'RD', 'SE(RD)', False), ('rr', ip.risk_ratio, 'RR', 'SE(log(RR))', True),
                ('or', ip.odds_ratio, 'OR', 'SE(log(OR))', True)] if otype == 'binary' else \
               [('ate', ip.average_treatment_effect, 'ATE', 'SE(ATE)', False)]
        ses = {}
        for k, tab, ec_, sc, log in tabs:
            est, se, lo, hi = float(tab[ec_].iloc[1]), float(tab[sc].iloc[1]), float(tab['95%LCL'].iloc[1]), float(tab['95%UCL'].iloc[1])
            ses[k] = se
            if not wald_ok(est, lo, hi, se, 0.05, log):
                fails.append((len(df), 'IPTW.%s.limits' % k, 'IPTW %s limits %r/%r are not est -/+ z(0.975)*SE (est %r, SE %r)' % (k, lo, hi, est, se), payload))
        w = np.asarray(ip.iptw, dtype=float)
        S = [0] * len(ip.df)
        A = np.asarray(ip.df['A']).astype(int)
        Y = [ec.frac_y(y, 2) for y in np.asarray(ip.df['Y'], dtype=float)]
        rows = ec.coq_rows(S, A, Y, W=ec.snap_vec(w, len(w) * len(w))[0])
        if otype == 'binary':
            exprs.append('let l := %s in Qflat [sw_var_rd wt l; sw_var_lnrr wt l; sw_var_lnor wt l]' % rows)
        else:
            exprs.append('let l := %s in Qflat [sw_var_rd wt l]' % rows)
        refs.append((ses, payload, len(df)))
    res, errs = coq_eval(ctx, 'c06iptw', IMPORTS, exprs, shard=4, timeout=300)
    if errs:
        ctx.broken_ties.append('coq evaluation failed: ' + errs[0][1][-300:])
    for (ses, payload, size), r in zip(refs, res):
        if r is None:
            continue
        q = [frac(x) for x in r]
        ctx.disagreements_checked += 1
        ctx.oracle_checks += 1
        for k, v in zip(['rd' if 'rd' in ses else 'ate', 'rr', 'or'], q):
            if k in ses and not close(ses[k] ** 2, v, 1e-6):
                fails.append((size, 'IPTW.%s.se' % k, 'IPTW SE(%s)^2 = %r but the weight-robust sandwich closed form is %.12g' % (k, ses[k] ** 2, float(v)), payload))


# ------------------------------------------------------------------------------------------------ H. cross-fit pooling
def pool_part(ctx, fails):
    from zepid.causal.doublyrobust.crossfit import calculate_joint_estimate
    n = 40 if ctx.quick else 500
    work, exprs = [], []
    for i in range(n):
        k = ctx.rng.randint(1, 9)
        pts = [round(ctx.rng.uniform(-1, 1), 4) for _ in range(k)]
        vs = [round(ctx.rng.uniform(0, 0.2), 5) for _ in range(k)]
        if ctx.rng.random() < 0.2 and k > 1:
            pts[1] = pts[0]
        out = {}
        for m in ('median', 'mean'):
            e, v = calculate_joint_estimate(np.array(pts), np.array(vs), method=m)
            out[m] = (float(e), float(v))
        work.append((pts, vs, out))
        exprs.append('(let (c, v) := pool true %s %s in Qflat [c; v], let (c, v) := pool false %s %s in Qflat [c; v])'
                     % (qlist(pts), qlist(vs), qlist(pts), qlist(vs)))
    res, errs = coq_eval(ctx, 'c06pool', IMPORTS, exprs, shard=250)
    if errs:
        ctx.broken_ties.append('coq evaluation failed: ' + errs[0][1][-300:])
    for (pts, vs, out), r in zip(work, res):
        ctx.evaluations += 1
        if r is None:
            continue
        ctx.programs += 1
        ctx.nontriv(['pool', pts, vs])
        ctx.count('site:calculate_joint_estimate')
        for m, rr in (('median', r[0]), ('mean', r[1])):
            c, v = frac(rr[0]), frac(rr[1])
            ctx.disagreements_checked += 1
            if not close(out[m][0], c, 1e-12) or not close(out[m][1], v, 1e-12):
                fails.append((len(pts), 'crossfit.pool.%s' % m, 'calculate_joint_estimate(%r, %r, %s) = %r but the documented pooling gives (%s, %s)'
                              % (pts, vs, m, out[m], c, v), {'part': 'pool', 'pts': pts, 'vars': vs}))


def crossfit_part(ctx, fails):
    from sklearn.linear_model import LogisticRegression, LinearRegression
    import zepid.causal.doublyrobust as dr
    from zepid.causal.doublyrobust.crossfit import calculate_joint_estimate
    import zepid.causal.doublyrobust.crossfit as CFM
    n = 1 if ctx.quick else 6
    for i in range(n):
        for cname, ks in (('SingleCrossfitAIPTW', 2), ('DoubleCrossfitAIPTW', 3), ('SingleCrossfitTMLE', 2), ('DoubleCrossfitTMLE', 3)):
            otype = 'binary' if (i + ks) % 2 == 0 or ctx.quick else 'normal'
            if ctx.quick and cname == 'DoubleCrossfitTMLE':
                otype = 'normal'        # one continuous cross-fit run in the quick tier too
            nrows = ctx.rng.randint(90, 140)
            if nrows % ks == 0:
                nrows += 1          # parts of unequal size: the left-over rows go to the last part
            df, meta = datagen.mixed_frame(ctx.rng, n=nrows, outcome=otype)
            if otype == 'normal' and 'TMLE' in cname and (i % 2 == 0):
                # a measurement with a floor recorded as exactly 0 (the range of the outcome is data too: 0 is a valid minimum)
                df['Y'] = np.round(df['Y'] - df['Y'].min(), 6)
                ctx.count('crossfit TMLE: continuous outcome whose minimum is exactly 0')
            payload = {'part': 'crossfit', 'class': cname, 'data': df.to_dict('list'), 'meta': meta}
            method = ctx.rng.choice(['median', 'mean'])
            per_rd, per_rr = {}, {}
            calls = []
            orig_calc = CFM.aipw_calculator

            def spy_calc(*a_, **k_):
                r_ = orig_calc(*a_, **k_)
                names = ['y', 'a', 'py_a', 'py_n', 'pa1', 'pa0', 'difference', 'weights', 'splits']
                kw = dict(zip(names, a_))
                kw.update(k_)
                calls.append((kw, r_))
                return r_
            CFM.aipw_calculator = spy_calc
            tcalls = []
            orig_tcalc = CFM.tmle_calculator

            def spy_tcalc(*a_, **k_):
                r_ = orig_tcalc(*a_, **k_)
                names = ['y', 'ystar1', 'ystar0', 'ystara', 'h1w', 'h0w', 'haw', 'splits', 'measure', 'lower_bound', 'upper_bound']
                kw = {'measure': 'ate', 'lower_bound': None, 'upper_bound': None}
                kw.update(dict(zip(names, a_)))
                kw.update(k_)
                tcalls.append((kw, r_))
                return r_
            CFM.tmle_calculator = spy_tcalc
            try:
                for a in ALPHAS[:4]:
                    o = getattr(dr, cname)(df, 'A', 'Y', alpha=a)
                    o.exposure_model(meta['rhs'], LogisticRegression(penalty=None, solver='lbfgs', max_iter=500))
                    o.outcome_model('A + ' + meta['rhs'], LogisticRegression(penalty=None, max_iter=500) if otype == 'binary' else LinearRegression())
                    o.fit(n_splits=ks, n_partitions=3, method=method, random_state=11)
                    if otype == 'binary':
                        per_rd[a] = (float(o.risk_difference), float(o.risk_difference_ci[0]), float(o.risk_difference_ci[1]), float(o.risk_difference_se))
                        per_rr[a] = (float(o.risk_ratio), float(o.risk_ratio_ci[0]), float(o.risk_ratio_ci[1]), float(o.risk_ratio_se))
                    else:
                        per_rd[a] = (float(o.ace), float(o.ace_ci[0]), float(o.ace_ci[1]), float(o.ace_se))
            except Exception as e:   # noqa
                fails.append((len(df), '%s.fit.raises' % cname, '%s raised %s: %s' % (cname, type(e).__name__, str(e)[:120]), payload))
                continue
            finally:
                CFM.aipw_calculator = orig_calc
                CFM.tmle_calculator = orig_tcalc
            # cross-fit TMLE: per-partition estimate and variance recomputed from what tmle_calculator was handed -- the plug-in, and
            # the mean over the parts of the within-part variance (ddof=1) of the influence values of TMLE.fit (Model.Variance.xf_ic_*,
            # with the means of the part), over n
            seen_t = set()
            for kw, (est_, var_) in tcalls:
                ms_ = kw['measure']
                if ms_ in seen_t:
                    continue
                seen_t.add(ms_)
                y_, q1_, q0_, qa_, h1_, h0_, ha_ = (np.asarray(kw[k], dtype=float) for k in ('y', 'ystar1', 'ystar0', 'ystara', 'h1w', 'h0w', 'haw'))
                sp_ = np.asarray(kw['splits'])
                if ms_ == 'ate':
                    lo_, hi_ = float(kw['lower_bound']), float(kw['upper_bound'])
                    y_, q1_, q0_, qa_ = (v_ * (hi_ - lo_) + lo_ for v_ in (y_, q1_, q0_, qa_))
                if ms_ in ('ate', 'risk_difference'):
                    e_ref = float(np.mean(q1_ - q0_))
                elif ms_ == 'risk_ratio':
                    e_ref = float(np.mean(q1_) / np.mean(q0_))
                else:
                    e_ref = float((np.mean(q1_) / (1 - np.mean(q1_))) / (np.mean(q0_) / (1 - np.mean(q0_))))
                pv_ = []
                for s_ in sorted(set(sp_.tolist())):
                    m_ = sp_ == s_
                    m1_, m0_ = np.mean(q1_[m_]), np.mean(q0_[m_])
                    res_ = y_[m_] - qa_[m_]
                    if ms_ in ('ate', 'risk_difference'):
                        ic_ = ha_[m_] * res_ + (q1_[m_] - q0_[m_]) - e_ref
                    elif ms_ == 'risk_ratio':
                        ic_ = 1 / m1_ * (h1_[m_] * res_ + q1_[m_] - m1_) - 1 / m0_ * (-h0_[m_] * res_ + q0_[m_] - m0_)
                    else:
                        ic_ = 1 / (m1_ * (1 - m1_)) * (h1_[m_] * res_ + q1_[m_]) - 1 / (m0_ * (1 - m0_)) * (-h0_[m_] * res_ + q0_[m_])
                    pv_.append(np.var(ic_, ddof=1))
                v_ref = float(np.mean(pv_) / len(y_))
                if e_ref != e_ref or v_ref != v_ref or float(est_) != float(est_) or float(var_) != float(var_):
                    # a learner that predicts outside the unit range gives NaN targeted values: nothing reported to be coherent about
                    NAN_SEEN[0] += 1
                    ctx.count('crossfit TMLE partition with NaN targeted values (not judged)')
                    continue
                ctx.disagreements_checked += 1
                ctx.count('crossfit TMLE partition estimate and variance recomputed (%s)' % ms_)
                if not (abs(float(est_) - e_ref) <= 1e-10 * max(1.0, abs(e_ref))):
                    fails.append((len(df), 'crossfit.tmle_calculator.%s.estimate' % ms_, '%s: tmle_calculator(measure=%s) returned the estimate %r; the '
                                  'plug-in of the targeted predictions is %r' % (cname, ms_, float(est_), e_ref), payload))
                if not (abs(float(var_) - v_ref) <= 1e-9 * max(1.0, abs(v_ref))):
                    fails.append((len(df), 'crossfit.tmle_calculator.%s.influence-values' % ms_, '%s: tmle_calculator(measure=%s) returned the '
                                  'variance %r for a partition with part sizes %s; the mean over the parts of the within-part variance of the '
                                  'influence values over n is %r (ratio %.4f)'
                                  % (cname, ms_, float(var_), np.bincount(sp_.astype(int)).tolist(), v_ref, float(var_) / v_ref if v_ref else float('nan')),
                                  payload))
            # per-partition variance of the cross-fit AIPTW difference: mean over the parts of the within-part variance (ddof=1) of
            # the influence values (centred at the overall estimate), over n -- recomputed from what aipw_calculator was handed
            for kw, (est_, var_) in calls:
                if not kw.get('difference', True) or kw.get('splits') is None or kw.get('weights') is not None:
                    continue
                y_, a_, q1_, q0_, g1_, g0_ = (np.asarray(kw[k], dtype=float) for k in ('y', 'a', 'py_a', 'py_n', 'pa1', 'pa0'))
                sp_ = np.asarray(kw['splits'])
                y1_ = np.where(a_ == 1, (y_ - q1_ * (1 - g1_)) / g1_, q1_)
                y0_ = np.where(a_ == 0, (y_ - q0_ * (1 - g0_)) / g0_, q0_)
                ic_ = (y1_ - y0_) - est_
                ref_ = float(np.mean([np.var(ic_[sp_ == s_], ddof=1) for s_ in sorted(set(sp_.tolist()))]) / len(y_))
                ctx.disagreements_checked += 1
                ctx.count('crossfit AIPTW partition variance recomputed (part sizes %s)' % ('unequal' if len(set(np.bincount(sp_.astype(int))[np.bincount(sp_.astype(int)) > 0].tolist())) > 1 else 'equal'))
                if not (abs(float(var_) - ref_) <= 1e-10 * max(1.0, abs(ref_))):
                    fails.append((len(df), cname + '.partition-variance', '%s: aipw_calculator returned variance %r for a partition with part sizes %s; the '
                                  'mean over parts of the within-part influence-value variance over n is %r'
                                  % (cname, float(var_), np.bincount(sp_.astype(int)).tolist(), ref_), payload))
                    break
            ctx.evaluations += 1
            ctx.programs += 1
            ctx.count('site:' + cname)
            ctx.nontriv([cname, otype, method, df['Y'].tolist()[:8]])
            check_family(fails, cname + '.rd', '%s RD/ACE' % cname, per_rd, False, payload, len(df))
            if per_rr:
                check_family(fails, cname + '.rr', '%s RR' % cname, per_rr, True, payload, len(df))
            # reported estimate/SE are the stated pooling of the per-partition vectors
            vec = o.risk_difference_vector if otype == 'binary' else o.ace_vector
            var = o.risk_difference_var_vector if otype == 'binary' else o.ace_var_vector
            e, v = calculate_joint_estimate(np.array(vec), np.array(var), method=method)
            est = per_rd[ALPHAS[3]]
            if abs(est[0] - e) > 1e-12 or abs(est[3] - math.sqrt(v)) > 1e-12:
                fails.append((len(df), cname + '.pooling', '%s reports %r (SE %r) but pooling its partition vectors gives %r (SE %r)'
                              % (cname, est[0], est[3], e, math.sqrt(v)), payload))


def run(ctx):
    fails = []
    quantile_part(ctx, fails)
    calc_part(ctx, fails)
    dr_part(ctx, fails)
    dr_se_part(ctx, fails)
    stmle_part(ctx, fails)
    iptw_part(ctx, fails)
    pool_part(ctx, fails)
    crossfit_part(ctx, fails)
    ctx.extra['families_with_nan_estimate_skipped'] = NAN_SEEN[0]
    report(ctx, fails)


def report(ctx, fails):
    fails.sort(key=lambda f: f[0])
    seen = set()
    for size, key, what, payload in fails:
        if key in seen:
            continue
        seen.add(key)
        n = sum(1 for f in fails if f[1] == key)
        ctx.violation(key, what + ' [%d failing cases]' % n, payload)


def replay(ctx, payload):
    # replays re-run the whole (seeded) quick pass; the payload documents the failing data
    run(ctx)
