"""C03 -- TMLE targeting solves the efficient score equations and stays in range."""
import json
import math
import os
from fractions import Fraction

import numpy as np
import pandas as pd

from common import coq_eval, frac, close, qlit, COQ, TOL_FIT
import datagen
import est_common as ec

PROP_FILE = 'theories/Properties/C03.v'
MODEL_FILES = ['theories/Base/Rows.v', 'theories/Model/Estimators.v']
GEN_GROUPS = ['tmle']
RULE = ('random frames with continuous + categorical covariates, binary and continuous outcomes, with/without missing '
        'outcomes and a missing-outcome model, non-saturated parametric models, g-bound none / symmetric / asymmetric; '
        'per fit: both efficient-score sums, plug-in equality, range of every targeted prediction, consistency of Qstar with '
        'Qstar1/Qstar0; non-trivial = distinct (frame, options)')
TRUSTED = ['statsmodels GLM (the fluctuation model) converges to the root of its score equations -- this IS the first clause of '
           'the property and is checked on every fit, not assumed',
           'probe hook ZEPID_VERIF=1 in TMLE.fit (read-only copy of Qstar, Qstar1, Qstar0, H1W, H0W, delta, epsilon)']


def gen_case(rng, force_pair=False, force_strong=False):
    if force_strong:
        # a binary outcome with a strong continuous prognostic factor: a correctly specified, converged outcome model predicts
        # risks below 1e-4 and above 1 - 1e-4 for some rows (no truncation option, no missing data involved)
        df, meta = datagen.mixed_frame(rng, n=rng.randint(500, 800), outcome='binary', missing=None)
        rs = np.random.RandomState(rng.randrange(2 ** 31))
        w0 = np.asarray(df['W0'], dtype=float)
        z = (w0 - w0.mean()) / (w0.std() + 1e-9)
        df = df.copy()
        df['Y'] = rs.binomial(1, 1 / (1 + np.exp(-(rng.uniform(-0.5, 0.5) + 0.6 * np.asarray(df['A'], dtype=float) + rng.uniform(4.0, 5.0) * z)))).astype(float)
        meta['yscale'] = 'strong prognostic factor'
        return {'df': df, 'meta': meta, 'bound': False, 'bkind': 'none', 'miss_model': False, 'adtype': 'int64',
                'alpha': 0.05, 'qbound': False, 'qkind': 'none+strong', 'refit': False, 'mbound': False}
    otype = rng.choice(['binary', 'binary', 'normal'])
    missing = rng.choice([None, None, 'mar', 'mcar']) if not force_pair else 'mar'
    extreme = rng.random() < 0.15 and not force_pair
    if extreme:
        df, meta = datagen.mixed_frame(rng, n=rng.randint(300, 900), outcome=otype, missing=missing, extreme=True)
        meta['extreme'] = True
    else:
        df, meta = datagen.mixed_frame(rng, outcome=otype, missing=missing)
    b = (rng.choice(['none', 'none', 'sym', 'pair']) if not extreme else 'none') if not force_pair else 'pair'
    if b == 'none':
        bound = False
    elif b == 'sym':
        bound = round(rng.uniform(0.02, 0.3), 3)
    else:
        bound = [round(rng.uniform(0.02, 0.3), 3), round(rng.uniform(0.7, 0.98), 3)]
    if force_pair:
        # an asymmetric bound that bites on both sides (lo + hi != 1), together with a missing-outcome model
        bound = [round(rng.uniform(0.2, 0.38), 3), round(rng.uniform(0.52, 0.7), 3)]
    use_miss_model = (missing is not None and rng.random() < 0.7) or force_pair
    mbound = rng.choice([False, 0.001, [0.001, 0.9995], round(rng.uniform(0.05, 0.2), 3)]) if use_miss_model else False
    # truncation of the INITIAL outcome predictions: the documented `bound` of outcome_model, and continuous outcomes
    # skewed enough that a Gaussian fit predicts outside the observed range (clipped to [cb, 1-cb] by the code)
    qb = rng.choice(['none', 'none', 'sym', 'pair'])
    qbound = False if qb == 'none' else (round(rng.uniform(0.05, 0.25), 3) if qb == 'sym'
                                         else [round(rng.uniform(0.05, 0.25), 3), round(rng.uniform(0.7, 0.9), 3)])
    yscale = 'as drawn'
    if otype == 'normal' and rng.random() < 0.5:
        y = df['Y']
        df = df.copy()
        df['Y'] = np.round(np.exp((y - y.mean()) / (y.std() + 1e-9) * 1.3), 4)     # heavy right tail
        qb = qb + '+skewed'
    elif otype == 'normal':
        # location and unit of a continuous outcome are arbitrary: a proportion inside (0,1), negative values, large units
        y = df['Y']
        z = (y - y.min()) / (y.max() - y.min() + 1e-12)
        yscale = rng.choice(['as drawn', 'proportion', 'proportion', 'negative', 'large', 'tiny'])
        df = df.copy()
        if yscale == 'proportion':
            # a proportion with little noise around a strong treatment + covariate signal: counterfactual predictions at the
            # covariate extremes reach beyond the observed range unless they are bounded by the OBSERVED minimum and maximum
            w0 = np.asarray(df['W0'], dtype=float)
            zz = (w0 - w0.min()) / (w0.max() - w0.min() + 1e-12)
            noise = (z - z.mean()) * 0.02
            df['Y'] = np.round(np.clip(0.30 + 0.25 * np.asarray(df['A'], dtype=float) + 0.20 * zz + noise, 0.05, 0.95), 4)
            df.loc[df['Y'].isna() | np.isnan(np.asarray(y, dtype=float)), 'Y'] = np.nan
        elif yscale == 'negative':
            df['Y'] = np.round(-40.0 + 15.0 * z, 3)
        elif yscale == 'large':
            df['Y'] = np.round(2.5e5 + 9.0e5 * z, 0)
        elif yscale == 'tiny':
            df['Y'] = (3.0 + np.round(9.0 * z, 3)) * 1e-9        # a concentration in mol/L: the whole range is of order 1e-8
    meta['yscale'] = yscale
    # the storage type of a 0/1-coded exposure column is part of "every data set"
    adtype = str(rng.choice(['int64', 'int64', 'float64', 'uint8', 'int8', 'int32', 'float32']))
    if adtype != 'int64':
        df = df.copy()
        df['A'] = df['A'].astype(adtype)
    return {'df': df, 'meta': meta, 'bound': bound, 'bkind': b, 'miss_model': use_miss_model, 'adtype': adtype,
            'alpha': rng.choice([0.05, 0.1, 0.2]), 'qbound': qbound, 'qkind': qb, 'refit': rng.random() < 0.5, 'mbound': mbound}


def fit(case):
    from zepid.causal.doublyrobust import TMLE
    df, meta = case['df'], case['meta']
    tm = TMLE(df, 'A', 'Y', alpha=case['alpha'])
    tm.exposure_model(meta['rhs'], bound=case['bound'], print_results=False)
    if case['miss_model']:
        # the missing-outcome model takes a truncation bound of its own; on every other such case a bound nothing reaches
        mb = case.get('mbound', False)
        tm.missing_model('A + ' + meta['rhs'], bound=mb, print_results=False)
        if mb:
            ref = TMLE(df, 'A', 'Y', alpha=case['alpha'])
            ref.missing_model('A + ' + meta['rhs'], print_results=False)
            tm._verif_mref_ = (np.asarray(ref.m1W, dtype=float), np.asarray(ref.m0W, dtype=float), mb)
    tm.outcome_model('A + ' + meta['rhs'], bound=case.get('qbound', False), print_results=False)
    # the property is quantified over fits that converge: record whether the fluctuation GLM inside fit() did
    import statsmodels.api as sm
    orig, flags = sm.GLM.fit, []

    def spy_fit(self, *a, **k):
        r = orig(self, *a, **k)
        flags.append(bool(getattr(r, 'converged', True)))
        return r
    pk = ec.should_poke(df)
    if pk:
        ec.poke(tm)          # displays / diagnostics / plots between specification and fit()
    sm.GLM.fit = spy_fit
    try:
        tm.fit()
    finally:
        sm.GLM.fit = orig
    if pk:
        ec.poke(tm)
    tm._verif_converged_ = bool(flags and flags[-1])
    if case.get('refit'):
        # the targeting step must be repeatable: a second fit() on the same object solves the same equations
        first = float(tm.risk_difference if meta['outcome'] == 'binary' else tm.average_treatment_effect)
        g_before = np.array(tm.g1W, dtype=float)
        tm.fit()
        tm._verif_refit_ = (first, g_before)
    return tm


def check_case(ctx, fails, case, tr, small_exprs, small_refs):
    df, meta = case['df'], case['meta']
    n = len(df)
    binary = meta['outcome'] == 'binary'
    payload = {'data': {c: [None if (isinstance(v, float) and v != v) else v for v in df[c].tolist()] for c in df.columns}, 'meta': meta, 'bound': case['bound'], 'miss_model': case['miss_model'],
               'alpha': case['alpha'], 'bkind': case['bkind'], 'adtype': case.get('adtype', 'int64'), 'qbound': case.get('qbound', False), 'qkind': case.get('qkind', 'none'), 'refit': case.get('refit', False), 'mbound': case.get('mbound', False)}
    tag = 'TMLE'
    try:
        tm = fit(case)
    except Exception as e:   # noqa
        fails.append((n, 'TMLE.fit.raises', 'TMLE raised %s: %s (outcome %s, missing %s, bound %r)'
                      % (type(e).__name__, str(e)[:100], meta['outcome'], meta['missing'], case['bound']), payload))
        return
    pr = tm._verif_probe_
    ctx.programs += 1
    if hasattr(tm, '_verif_refit_'):
        ctx.count('refit:yes')
        first, g_before = tm._verif_refit_
        now = float(tm.risk_difference if binary else tm.average_treatment_effect)
        if abs(now - first) > 1e-9 * max(1, abs(first)):
            fails.append((n, 'TMLE.refit-changes-estimate', 'a second fit() on the same object moved the estimate from %r to %r' % (first, now), payload))
        if np.max(np.abs(np.asarray(tm.g1W, dtype=float) - g_before)) > 1e-12:
            fails.append((n, 'TMLE.fit-overwrites-g', 'fit() changed the stored treatment probabilities g1W (max change %g)'
                          % float(np.max(np.abs(np.asarray(tm.g1W, dtype=float) - g_before))), payload))
    y = np.asarray(tm.df['Y'], dtype=float)           # unit scale for continuous outcomes
    a = np.asarray(tm.df['A'], dtype=float)
    delta, Qs, Q1, Q0, H1, H0 = pr['delta'], pr['Qstar'], pr['Qstar1'], pr['Qstar0'], pr['H1W'], pr['H0W']
    obs = delta == 1
    g1t = np.asarray(tm.g1W_total, dtype=float)
    g0t = np.asarray(tm.g0W_total, dtype=float)
    # the denominators of the clever covariates are the fitted (truncated, as stored) treatment probabilities, times the fitted
    # probabilities of an observed outcome when a missing-outcome model was specified
    g1s, g0s = np.asarray(tm.g1W, dtype=float), np.asarray(tm.g0W, dtype=float)
    if case['miss_model'] and getattr(tm, 'm1W', None) is not None:
        e1, e0 = g1s * np.asarray(tm.m1W, dtype=float), g0s * np.asarray(tm.m0W, dtype=float)
    else:
        e1, e0 = g1s, g0s
    if hasattr(tm, '_verif_mref_'):
        r1, r0, mb = tm._verif_mref_
        lo_, hi_ = (mb, 1 - mb) if isinstance(mb, float) else (mb[0], mb[1])
        ctx.disagreements_checked += 1
        ctx.count('missing_model(bound=%s)' % ('float' if isinstance(mb, float) else 'pair'))
        for nm, got, raw in (('m1W', np.asarray(tm.m1W, dtype=float), r1), ('m0W', np.asarray(tm.m0W, dtype=float), r0)):
            if np.max(np.abs(got - np.clip(raw, lo_, hi_))) > 1e-12:
                fails.append((n, 'TMLE.missing_model.bound', 'missing_model(bound=%r): %s differs from the fitted probability of an observed outcome '
                              'truncated to the bound (max |difference| %g)' % (mb, nm, float(np.max(np.abs(got - np.clip(raw, lo_, hi_))))), payload))
    ctx.disagreements_checked += 1
    if np.max(np.abs(g1t - e1)) > 1e-12 or np.max(np.abs(g0t - e0)) > 1e-12:
        fails.append((n, 'TMLE.denominators', 'the denominators used by fit() differ from the stored g1W / g0W%s (max |difference| %g for A=1, %g for A=0; '
                      'g-bound %r)' % (' times m1W / m0W' if case['miss_model'] else '', float(np.max(np.abs(g1t - e1))), float(np.max(np.abs(g0t - e0))),
                                       case['bound']), payload))
    # (1) the two efficient-score equations, written from the property (A/g1, (1-A)/g0), on observed rows
    s1 = float(np.sum((a / g1t * (y - Qs))[obs]))
    s0 = float(np.sum(((1 - a) / g0t * (y - Qs))[obs]))
    scale = float(np.sum(np.abs(a / g1t)[obs]) + np.sum(np.abs((1 - a) / g0t)[obs]))
    if not getattr(tm, '_verif_converged_', True):
        ctx.count('fluctuation model did not converge (outside the quantifier; score clause not judged)')
    elif abs(s1) > 1e-6 * scale or abs(s0) > 1e-6 * scale:
        key = 'TMLE.score-equations' + ('.near-positivity-violation' if meta.get('extreme') else '')
        fails.append((n, key, 'efficient-score sums after targeting are %g and %g (scale %g), not zero%s' % (
            s1, s0, scale, ' [fitted Pr(A|W) down to %.1e, no bound; epsilon %r]' % (float(min(np.min(g1t), np.min(g0t))), [float(x) for x in pr['epsilon']])
            if meta.get('extreme') else ''), payload))
    # clever covariates are what the property says
    if np.max(np.abs(H1 - a / g1t)) > 1e-12 or np.max(np.abs(H0 + (1 - a) / g0t)) > 1e-12:
        fails.append((n, 'TMLE.clever-covariates', 'H1W/H0W differ from A/g1 and -(1-A)/g0', payload))
    if binary and (float(np.min(np.asarray(tm.QA1W))) < 1e-4 or float(np.max(np.asarray(tm.QA1W))) > 1 - 1e-4):
        ctx.count('binary outcome, initial predictions beyond [1e-4, 1 - 1e-4]')
    # (2) Qstar consistent with Qstar1/Qstar0 on the respective arms
    if np.max(np.abs(Qs - (a * Q1 + (1 - a) * Q0))) > 1e-10:
        fails.append((n, 'TMLE.update-inconsistent', 'Qstar differs from A*Qstar1 + (1-A)*Qstar0 by %g'
                      % float(np.max(np.abs(Qs - (a * Q1 + (1 - a) * Q0)))), payload))
    # (3) ranges
    if binary:
        allq = np.concatenate([Q1, Q0, Qs])
        if np.any(allq < 0) or np.any(allq > 1) or np.any(np.isnan(allq)):
            fails.append((n, 'TMLE.range.binary', 'a targeted prediction left [0,1]', payload))
        q1f, q0f = Q1, Q0
    else:
        lo, hi = float(tm._continuous_min), float(tm._continuous_max)
        q1f, q0f = Q1 * (hi - lo) + lo, Q0 * (hi - lo) + lo
        if np.any(q1f < lo - 1e-9) or np.any(q1f > hi + 1e-9) or np.any(q0f < lo - 1e-9) or np.any(q0f > hi + 1e-9):
            fails.append((n, 'TMLE.range.continuous', 'a back-transformed targeted prediction left the observed outcome range', payload))
    # initial predictions were clipped into [cb, 1-cb]
    qbd = case.get('qbound', False)
    lo_q, hi_q = (float(tm._cb), 1 - float(tm._cb)) if not qbd else ((qbd, 1 - qbd) if isinstance(qbd, float) else (qbd[0], qbd[1]))
    if np.any(np.asarray(tm.QA1W) < lo_q - 1e-15) or np.any(np.asarray(tm.QA1W) > hi_q + 1e-15) or \
            np.any(np.asarray(tm.QA0W) < lo_q - 1e-15) or np.any(np.asarray(tm.QA0W) > hi_q + 1e-15):
        fails.append((n, 'TMLE.initial-not-clipped', 'initial outcome predictions outside [cb, 1-cb]', payload))
    # (4) reported measures are the plug-in of the probe vectors
    if binary:
        m1, m0 = float(np.mean(Q1)), float(np.mean(Q0))
        exp = {'rd': m1 - m0, 'rr': m1 / m0, 'or': (m1 / (1 - m1)) / (m0 / (1 - m0))}
        got = {'rd': float(tm.risk_difference), 'rr': float(tm.risk_ratio), 'or': float(tm.odds_ratio)}
    else:
        exp = {'rd': float(np.mean(q1f - q0f))}
        got = {'rd': float(tm.average_treatment_effect)}
    for k in exp:
        if abs(exp[k] - got[k]) > 1e-10 * max(1, abs(exp[k])):
            fails.append((n, 'TMLE.plugin.%s' % k, 'reported %s %r is not the plug-in %r of the targeted predictions' % (k, got[k], exp[k]), payload))
    # (5) translator ties: float evaluation of the translated update lines reproduces the probe
    if tr:
        eps = pr['epsilon']
        bad = 0
        for i in range(0, n, max(1, n // 12)):
            v1 = tr['tmle_Qstar1'].pyeval([float(np.asarray(tm.QA1W)[i]), float(eps[0]), float(g1t[i])], None)[0]
            v0 = tr['tmle_Qstar0'].pyeval([float(np.asarray(tm.QA0W)[i]), float(eps[1]), float(g0t[i])], None)[0]
            h1 = tr['tmle_H1W'].pyeval([float(g1t[i])], None, a=bool(a[i]))[0]
            h0 = tr['tmle_H0W'].pyeval([float(g0t[i])], None, a=bool(a[i]))[0]
            ctx.disagreements_checked += 1
            if abs(v1 - Q1[i]) > 1e-10 or abs(v0 - Q0[i]) > 1e-10 or abs(h1 - H1[i]) > 1e-10 * max(1, abs(h1)) or abs(h0 - H0[i]) > 1e-10 * max(1, abs(h0)):
                bad += 1
        if bad:
            ctx.broken_ties.append('correspondence: float evaluation of the translated TMLE update lines differs from the probe on %d rows' % bad)
    # (3b) "the observed outcome range" is what the unit-interval map is anchored at: the smallest and largest recorded outcome
    if not binary:
        rawy = np.asarray(df['Y'], dtype=float)
        omin, omax = float(np.nanmin(rawy)), float(np.nanmax(rawy))
        if abs(float(tm._continuous_min) - omin) > 1e-12 * max(1.0, abs(omin)) or abs(float(tm._continuous_max) - omax) > 1e-12 * max(1.0, abs(omax)):
            fails.append((n, 'TMLE.range.anchors', 'continuous outcome observed in [%r, %r] but the estimator maps it to the unit interval with '
                          'minimum %r and maximum %r' % (omin, omax, float(tm._continuous_min), float(tm._continuous_max)), payload))
        # ... and the working outcome is the affine image of the recorded one: (Y - min) / (max - min), truncated to [cb, 1 - cb]
        if len(tm.df) == len(df) and omax > omin:
            cbv_ = float(tm._cb)
            want_ = np.clip((rawy - omin) / (omax - omin), cbv_, 1 - cbv_)
            okm = ~np.isnan(rawy)
            ctx.disagreements_checked += 1
            dev_ = float(np.max(np.abs(np.asarray(y, dtype=float)[okm] - want_[okm]))) if okm.any() else 0.0
            if dev_ > 1e-9:
                fails.append((n, 'TMLE.range.unit-map', 'the unit-interval image of the outcome differs from (Y - min)/(max - min) by up to %g (outcome '
                              'observed in [%r, %r])' % (dev_, omin, omax), payload))
    # (5b) the translated unit-interval map reproduces the outcome column the estimator works on
    if tr and not binary and 'tmle_unit_bounds' in tr:
        raw = np.asarray(df['Y'], dtype=float) if len(tm.df) == len(df) else None      # no row is dropped on entry in these frames
        if raw is not None:
            lo, hi, cbv = float(tm._continuous_min), float(tm._continuous_max), float(tm._cb)
            bad = 0
            for i in range(0, n, max(1, n // 15)):
                if raw[i] != raw[i]:
                    continue
                ctx.disagreements_checked += 1
                v = tr['tmle_unit_bounds'].pyeval([float(raw[i]), lo, hi, cbv], None)[0]
                if abs(v - float(y[i])) > 1e-12:
                    bad += 1
            if bad:
                ctx.broken_ties.append('correspondence: translated tmle_unit_bounds differs from the bounded outcome column on %d rows' % bad)
    # (6) exact Coq evaluation of the plug-in model and the score sums on small cases
    if n <= 70 and len(small_exprs) < (6 if ctx.quick else 40):
        S = [0] * n
        Y = [None if not o else Fraction(float(v)) for v, o in zip(y, obs)]
        rows = ec.coq_rows(S, a.astype(int), Y, g1=[Fraction(float(x)) for x in g1t], q1=[Fraction(float(x)) for x in Q1],
                           q0=[Fraction(float(x)) for x in Q0])
        # m1 = m0 = 1: g1 already holds the total denominator; pa0 = 1 - g1 only when no missing model/bounds, so scores use q-only checks
        small_exprs.append('let l := %s in Qflat [tmle_mean true l; tmle_mean false l; tmle_score1 l]' % rows)
        small_refs.append((float(np.mean(Q1)), float(np.mean(Q0)), s1, n, payload))
    ctx.nontriv([meta['outcome'], meta['missing'], repr(case['bound']), case['miss_model'], df['Y'].fillna(-1).tolist()[:10]])
    ctx.count('outcome:' + meta['outcome'])
    ctx.count('missing:' + str(meta['missing']))
    ctx.count('missing_model:' + str(case['miss_model']))
    ctx.count('bound:' + case['bkind'])
    ctx.count('q-bound:' + case.get('qkind', 'none'))
    ctx.count('exposure-dtype:' + case.get('adtype', 'int64'))
    ctx.count('continuous outcome scale:' + str(meta.get('yscale', 'as drawn')))
    ctx.count('positivity:' + ('near-violation, no bound' if meta.get('extreme') else 'ordinary'))
    ctx.sample({'n': n, 'outcome': meta['outcome'], 'missing': meta['missing'], 'bound': case['bound'], 'epsilon': [float(x) for x in pr['epsilon']],
                'score_sums': [s1, s0], 'estimate': got}, cap=4)


def run_cases(ctx, fails, cases):
    tr = None
    if ctx.gen.get('tmle', {}).get('ok'):
        import gen_targets
        tr = gen_targets.load('tmle')
    small_exprs, small_refs = [], []
    for case in cases:
        ctx.evaluations += 1
        check_case(ctx, fails, case, tr, small_exprs, small_refs)
    if small_exprs:
        res, errs = coq_eval(ctx, 'c03', ec.IMPORTS, small_exprs, shard=1)
        if errs:
            ctx.broken_ties.append('coq evaluation failed: ' + errs[0][1][-300:])
        for r, (m1, m0, s1, n, payload) in zip(res, small_refs):
            if r is None:
                continue
            q = [frac(x) for x in r]
            ctx.disagreements_checked += 1
            if not close(m1, q[0], 1e-12) or not close(m0, q[1], 1e-12):
                ctx.broken_ties.append('correspondence: Coq plug-in means %s/%s vs implementation %r/%r' % (q[0], q[1], m1, m0))
            if abs(float(q[2]) - s1) > 1e-7 * max(1.0, n):
                ctx.broken_ties.append('correspondence: Coq A=1 score sum %g vs harness %g' % (float(q[2]), s1))


def run(ctx):
    fails = []
    cases = [gen_case(ctx.rng) for _ in range(40 if ctx.quick else 500)]
    cases += [gen_case(ctx.rng, force_pair=True) for _ in range(3 if ctx.quick else 25)]
    cases += [gen_case(ctx.rng, force_strong=True) for _ in range(3 if ctx.quick else 25)]
    run_cases(ctx, fails, cases)
    report(ctx, fails)


def report(ctx, fails):
    fails.sort(key=lambda f: f[0])
    seen = set()
    for size, key, what, payload in fails:
        if key in seen:
            continue
        seen.add(key)
        n = sum(1 for f in fails if f[1] == key)
        ctx.violation(key, what + ' [%d failing cases]' % n, payload)


def replay(ctx, payload):
    fails = []
    df = pd.DataFrame(payload['data'])
    if payload.get('adtype', 'int64') != 'int64':
        df['A'] = df['A'].astype(payload['adtype'])
    run_cases(ctx, fails, [{'df': df, 'meta': payload['meta'], 'bound': payload['bound'], 'bkind': payload.get('bkind', '?'),
                            'miss_model': payload['miss_model'], 'alpha': payload['alpha'], 'qbound': payload.get('qbound', False), 'qkind': payload.get('qkind', 'none'), 'refit': payload.get('refit', False), 'mbound': payload.get('mbound', False),
                            'adtype': payload.get('adtype', 'int64')}])
    report(ctx, fails)
