"""C02 -- exact finite-sample double robustness of AIPTW, TMLE (and AIPSW, delegated to props/c16.aipsw_dr_part)."""
from fractions import Fraction

import numpy as np
import pandas as pd

from common import coq_eval, frac, close, qlit, TOL_FIT
import datagen
import est_common as ec

PROP_FILE = 'theories/Properties/C02.v'
MODEL_FILES = ['theories/Base/Rows.v', 'theories/Model/Estimators.v']
GEN_GROUPS = ['aipw', 'gener']
RULE = ('random categorical frames with positivity (binary and normal outcomes); one nuisance side saturated, the other drawn '
        'from: intercept-only, main-effects-only, dropped covariates, ordinal code as linear term, or an arbitrary table of '
        'values per stratum (and arm) injected through custom_model; both-wrong runs counted to witness that the estimate '
        'does move; plus TMLE on frames with missing outcomes (every cell keeps >= 2 observed) and a missing-outcome model: '
        'treatment AND missing models saturated with a wrong outcome model, and the reverse; '
        'non-trivial = distinct (frame, estimator, which side, misspecification)')
TRUSTED = ['statsmodels GLM: saturated fits return cell means/proportions (validated per case); the TMLE fluctuation GLM solves '
           'its two score equations (validated per case: |score| <= 1e-6 n)',
           'patsy design matrices; sklearn-style custom_model protocol (fit/predict/predict_proba) as zEpid calls it']


def mis_treat(rng, meta, nstrata):
    k = rng.choice(['formula', 'formula', 'garbage'])
    if k == 'formula':
        return ('formula', rng.choice(meta['sub_models']))
    return ('garbage', [round(rng.uniform(0.15, 0.85), 3) for _ in range(nstrata)])


def mis_out(rng, meta, nstrata, binary):
    k = rng.choice(['formula', 'formula', 'garbage'])
    if k == 'formula':
        rhs = rng.choice(meta['sub_models'])
        return ('formula', rng.choice(['A', 'A + ' + rhs if rhs != '1' else 'A', rhs]))
    if binary:
        return ('garbage', [round(rng.uniform(0.1, 0.9), 3) for _ in range(nstrata)], [round(rng.uniform(0.1, 0.9), 3) for _ in range(nstrata)])
    return ('garbage', [round(rng.uniform(0, 20), 2) for _ in range(nstrata)], [round(rng.uniform(0, 20), 2) for _ in range(nstrata)])


add_missing = datagen.add_missing


def fit_one(est, df, meta, tside, oside, mside=None):
    """tside/oside: ('sat',) | ('formula', rhs) | ('garbage', table[, table0]); mside (missing-outcome model, TMLE):
    None | ('sat',) | ('formula', rhs)"""
    from zepid.causal.doublyrobust import AIPTW, TMLE
    binary = meta['outcome'] == 'binary'
    dfc = df.copy()
    if est == 'AIPTW':
        o = AIPTW(dfc, 'A', 'Y')
    else:
        o = TMLE(dfc, 'A', 'Y') if binary else TMLE(dfc, 'A', 'Y', continuous_bound=1e-10)   # the option is for continuous outcomes only
    ec.scramble(dfc)          # the caller's own frame changes after construction: the estimator analyses what it was given
    if tside[0] == 'sat':
        o.exposure_model(meta['sat_L'], print_results=False)
    elif tside[0] == 'formula':
        o.exposure_model(tside[1], print_results=False)
    else:
        o.exposure_model('S', custom_model=ec.Garbage(tside[1]), print_results=False)
    if mside is not None and mside[0] == 'learner':
        # the user-supplied-learner branch with a classifier that offers predict_proba only (one column per class)
        o.missing_model('S + A', custom_model=ec.CellProba(), print_results=False)
    elif mside is not None:
        o.missing_model(meta['sat_AL'] if mside[0] == 'sat' else mside[1], print_results=False)
    if oside[0] == 'sat':
        o.outcome_model(meta['sat_AL'], print_results=False)
    elif oside[0] == 'formula':
        o.outcome_model(oside[1], print_results=False)
    else:
        o.outcome_model('S + A', custom_model=ec.Garbage(oside[1], oside[2], col=0, acol=1), print_results=False)
    pk = ec.should_poke(df)
    if pk:
        ec.poke(o)
    o.fit()
    if pk:
        ec.poke(o)
    out = {'poked': pk}
    if est == 'AIPTW':
        out['g'] = np.asarray(o.df['_g1_'], dtype=float)
        out['q1'] = np.asarray(o.df['_pY1_'], dtype=float)
        out['q0'] = np.asarray(o.df['_pY0_'], dtype=float)
        out['rd'] = float(o.risk_difference if binary else o.average_treatment_effect)
        out['rr'] = float(o.risk_ratio) if binary else None
    else:
        pr = o._verif_probe_
        out['g'] = np.asarray(o.g1W, dtype=float)
        if binary:
            out['q1'], out['q0'] = pr['Qstar1'], pr['Qstar0']
            out['rd'], out['rr'], out['or'] = float(o.risk_difference), float(o.risk_ratio), float(o.odds_ratio)
        else:
            lo, hi = float(o._continuous_min), float(o._continuous_max)
            out['q1'], out['q0'] = pr['Qstar1'] * (hi - lo) + lo, pr['Qstar0'] * (hi - lo) + lo
            out['rd'] = float(o.average_treatment_effect)
        out['eps'] = [float(x) for x in pr['epsilon']]
    out['S'], out['A'], out['Y'] = np.asarray(o.df['S']), np.asarray(o.df['A']), np.asarray(o.df['Y'], dtype=float)
    if est == 'TMLE' and not binary:
        out['Y'] = out['Y'] * (float(o._continuous_max) - float(o._continuous_min)) + float(o._continuous_min)
    return out


def rare_frame(rng):
    """rare binary outcome: some (stratum, arm) cells have a risk below 1/2000 (one or two events among thousands)"""
    rows = []
    for s_code in (0, 1):
        for a in (0, 1):
            m = rng.randint(2200, 3000)
            # treated arm of stratum 0 and untreated arm of stratum 1: a single event (risk < 1/2000); the others vary
            ev = 1 if (s_code, a) in ((0, 1), (1, 0)) else (rng.choice([1, 2]) if rng.random() < 0.4 else rng.randint(40, 300))
            rows += [[s_code, a, 1.0, s_code]] * ev + [[s_code, a, 0.0, s_code]] * (m - ev)
    rng.shuffle(rows)
    df = pd.DataFrame(rows, columns=['L0', 'A', 'Y', 'S'])
    meta = {'n_cov': 1, 'arities': [2], 'outcome': 'binary', 'n': len(df), 'n_strata': 2, 'sat_L': 'C(L0)', 'sat_AL': 'A * C(L0)',
            'sub_models': ['1'], 'rare': True}
    return df, meta


def gen_runs(ctx, n_frames):
    runs = []
    for _ in range(1 if ctx.quick else 4):
        df, meta = rare_frame(ctx.rng)
        for est in ('AIPTW', 'TMLE'):
            runs.append({'df': df, 'meta': meta, 'est': est, 'which': 'outcome-saturated', 't': ('formula', '1'), 'o': ('sat',)})
    for i in range(n_frames):
        otype = ['binary', 'normal'][i % 2]
        df, meta = datagen.cat_frame(ctx.rng, outcome=otype, cell=(2, 5))
        df, meta['dress'] = datagen.dress(df, ctx.rng, i)
        ns = meta['n_strata']
        for est in ('AIPTW', 'TMLE'):
            binary = otype == 'binary'
            cfgs = [('outcome-saturated', mis_treat(ctx.rng, meta, ns), ('sat',)),
                    ('treatment-saturated', ('sat',), mis_out(ctx.rng, meta, ns, binary)),
                    ('both-wrong', mis_treat(ctx.rng, meta, ns), mis_out(ctx.rng, meta, ns, binary))]
            for which, ts, os_ in cfgs:
                if est == 'TMLE' and not binary and os_[0] == 'garbage':
                    os_ = ('formula', 'A')      # TMLE's continuous path needs predictions on its unit scale
                runs.append({'df': df, 'meta': meta, 'est': est, 'which': which, 't': ts, 'o': os_})
    # missing outcomes with a missing-outcome model (TMLE): the weight side is the treatment AND the missing model
    for i in range(max(2, n_frames // 2)):
        otype = ['binary', 'normal'][i % 2]
        df, meta = datagen.cat_frame(ctx.rng, outcome=otype, cell=(4, 7))
        df = add_missing(ctx.rng, df, otype == 'binary')
        df, dr = datagen.dress(df, ctx.rng, i + 1)
        meta = dict(meta, missing=True, dress=dr)
        ns = meta['n_strata']
        mo = mis_out(ctx.rng, meta, ns, otype == 'binary')
        if mo[0] == 'garbage' and otype != 'binary':
            mo = ('formula', 'A')
        mwrong = ('formula', ctx.rng.choice(['1', 'A'] + meta['sub_models']))
        for which, ts, ms, os_ in (('weights-saturated+missing', ('sat',), ('sat',) if i % 2 else ('learner',), mo),
                                   ('outcome-saturated+missing', mis_treat(ctx.rng, meta, ns), mwrong, ('sat',))):
            runs.append({'df': df, 'meta': meta, 'est': 'TMLE', 'which': which, 't': ts, 'o': os_, 'm': ms})
    return runs


def run_runs(ctx, fails, runs):
    exprs, outs = [], []
    for rn in runs:
        try:
            out = fit_one(rn['est'], rn['df'], rn['meta'], rn['t'], rn['o'], rn.get('m'))
        except Exception as e:   # noqa
            out = {'error': '%s: %s' % (type(e).__name__, str(e)[:120])}
        outs.append(out)
        if 'error' in out:
            exprs.append('(@nil (list Z), @nil (list Z))')
            continue
        n = len(out['S'])
        Y = [ec.frac_y(y, 2) for y in out['Y']]
        yden = 1 if rn['meta']['outcome'] == 'binary' else 100
        g, _ = ec.snap_vec(out['g'], n)
        q1, _ = ec.snap_vec(out['q1'], n, yden)
        q0, _ = ec.snap_vec(out['q0'], n, yden)
        if rn['meta'].get('rare'):
            # thousands of rows: aggregate identical rows into one weighted row (theorem C09_aggregates: the specification
            # and the weighted means are the same on weighted and on replicated rows); nuisance values are functions of the
            # stratum here, so rows of one (stratum, arm, outcome) cell are identical
            cells = {}
            for i in range(n):
                k = (int(out['S'][i]), int(out['A'][i]), Y[i])
                c = cells.setdefault(k, [0, g[i], q1[i], q0[i]])
                c[0] += 1
            keys = sorted(cells, key=lambda k: (k[0], k[1], float(k[2])))
            W = [Fraction(cells[k][0]) for k in keys]
            raw = ec.coq_rows([k[0] for k in keys], [k[1] for k in keys], [k[2] for k in keys], W=W)
            ann = ec.coq_rows([k[0] for k in keys], [k[1] for k in keys], [k[2] for k in keys], W=W,
                              g1=[cells[k][1] for k in keys], q1=[cells[k][2] for k in keys], q0=[cells[k][3] for k in keys])
            if rn['est'] == 'AIPTW':
                exprs.append('(let l := %s in Qflat [std TAll true l; std TAll false l], let l := %s in Qflat [aipw_mean aipw_y1 l; aipw_mean aipw_y0 l])' % (raw, ann))
            else:
                exprs.append('(let l := %s in Qflat [std TAll true l; std TAll false l], @nil (list Z))' % raw)
            continue
        raw = ec.coq_rows(out['S'], out['A'], Y)
        if rn.get('m') is not None:
            # the model side would need the fitted missingness probabilities; the specification is what is compared here
            exprs.append('(let l := %s in Qflat [std TAll true l; std TAll false l], @nil (list Z))' % raw)
            continue
        ann = ec.coq_rows(out['S'], out['A'], Y, g1=g, q1=q1, q0=q0)
        if rn['est'] == 'AIPTW':
            m = 'Qflat [aipw_mean aipw_y1 l; aipw_mean aipw_y0 l]'
        else:
            m = 'Qflat [tmle_mean true l; tmle_mean false l; tmle_score1 l; tmle_score0 l]'
        exprs.append('(let l := %s in Qflat [std TAll true l; std TAll false l], let l := %s in %s)' % (raw, ann, m))
    res, errs = coq_eval(ctx, 'c02', ec.IMPORTS, exprs, shard=2)
    if errs:
        ctx.broken_ties.append('coq evaluation failed: ' + errs[0][1][-300:])
    moved = {'AIPTW': 0, 'TMLE': 0}
    for rn, out, r in zip(runs, outs, res):
        ctx.evaluations += 1
        est, which, meta = rn['est'], rn['which'], rn['meta']
        n = meta['n']
        payload = {'frame': datagen.pack_frame(rn['df']),
                   'meta': meta, 'est': est, 'which': which, 't': rn['t'], 'o': rn['o'], 'm': rn.get('m')}
        ctx.count('%s:%s' % (est, which))
        ctx.count('mis-treat:' + rn['t'][0])
        ctx.count('mis-out:' + rn['o'][0])
        ctx.count('row labels:' + meta.get('dress', {}).get('index', 'range'))
        ctx.count('exposure dtype:' + meta.get('dress', {}).get('adtype', 'int64'))
        if 'error' in out:
            fails.append((n, '%s.%s.raises' % (est, which), '%s raised %s (treatment side %r, outcome side %r)' % (est, out['error'], rn['t'][:2], rn['o'][:2]), payload))
            continue
        if r is None or not r[0]:
            continue
        ctx.programs += 1
        ctx.nontriv([est, which, repr(rn['t']), repr(rn['o']), rn['df']['Y'].tolist()])
        s1, s0 = frac(r[0][0]), frac(r[0][1])
        m = [frac(x) for x in r[1]] if r[1] else None
        ctx.sample({'est': est, 'which': which, 'treatment_side': rn['t'][:2], 'outcome_side': rn['o'][:2], 'n': n,
                    'impl_rd': out['rd'], 'std_rd': float(s1 - s0)}, cap=4)
        # correspondence: model fed the implementation's own nuisance values reproduces its estimate
        ctx.disagreements_checked += 1
        if m is not None and not close(out['rd'], m[0] - m[1], TOL_FIT):
            ctx.broken_ties.append('correspondence: %s model %s vs implementation %r (%s)' % (est, m[0] - m[1], out['rd'], which))
        if est == 'TMLE' and m is not None:
            ctx.oracle_checks += 1
            if abs(float(m[2])) > 1e-5 * n or abs(float(m[3])) > 1e-5 * n:
                ctx.broken_ties.append('oracle: TMLE fluctuation did not solve its score equations (%g, %g)' % (float(m[2]), float(m[3])))
        if which == 'both-wrong':
            if abs(out['rd'] - float(s1 - s0)) > 1e-6:
                moved[est] += 1
            continue
        if not close(out['rd'], s1 - s0, TOL_FIT):
            fails.append((n, '%s.%s.rd' % (est, which), '%s with %s (treatment side %r, outcome side %r): RD/ATE %r but the nonparametric '
                          'standardised estimate is %s (%.10g)' % (est, which, rn['t'][:2], rn['o'][:2], out['rd'], s1 - s0, float(s1 - s0)), payload))
        if out.get('rr') is not None and not close(out['rr'], s1 / s0, TOL_FIT):
            fails.append((n, '%s.%s.rr' % (est, which), '%s with %s: RR %r, standardised %s' % (est, which, out['rr'], s1 / s0), payload))
    return moved


def run(ctx):
    fails = []
    runs = gen_runs(ctx, 6 if ctx.quick else 60)
    moved = run_runs(ctx, fails, runs)
    ctx.extra['both_wrong_runs_that_moved'] = moved
    if moved['AIPTW'] == 0:
        ctx.notes.append('no both-wrong AIPTW run moved away from the standardised estimate in this sample (existence half is proved in Coq)')
    try:
        from props import c16
        if hasattr(c16, 'aipsw_dr_part'):
            c16.aipsw_dr_part(ctx, fails)
        else:
            ctx.notes.append('AIPSW double-robustness run not available (props/c16.aipsw_dr_part missing)')
    except ImportError:
        ctx.notes.append('AIPSW double-robustness run not available (props/c16 missing)')
    report(ctx, fails)


def report(ctx, fails):
    fails.sort(key=lambda f: f[0])
    seen = set()
    for size, key, what, payload in fails:
        if key in seen:
            continue
        seen.add(key)
        n = sum(1 for f in fails if f[1] == key)
        ctx.violation(key, what + ' [%d failing cases]' % n, payload)


def replay(ctx, payload):
    fails = []
    if payload and payload.get('part') == 'aipsw_dr':
        from props import c16
        c16.aipsw_dr_replay(ctx, fails, payload)
        report(ctx, fails)
        return
    df = datagen.unpack_frame(payload['frame']) if 'frame' in payload else pd.DataFrame(payload['data'])
    df['Y'] = df['Y'].astype(float)
    run_runs(ctx, fails, [{'df': df, 'meta': payload['meta'], 'est': payload['est'], 'which': payload['which'],
                           't': tuple(payload['t']), 'o': tuple(payload['o']),
                           'm': tuple(payload['m']) if payload.get('m') else None}])
    report(ctx, fails)
