"""C08 -- estimates are invariant / equivariant under relabelling of the data.

Metamorphic correspondence on the implementation: every class of the property is run on a data set D and on tau(D) for
tau in {row shuffle; index := shifted / shuffled / float / string / duplicated labels; affine map of the continuous
covariates; injective recoding of a categorical covariate used through C(...); A -> 1-A; Y -> cY+d (c of both signs)}
and every public estimate / SE / CI / per-row weight (per-row values after undoing the row permutation through a
row-id column no model sees) is compared with the transformation the theorems of Properties/C08.v predict.
Agreement with the model: on categorical frames the Coq models (Model.Estimators / Model.Variance) are evaluated on the
annotated rows of D and on the permuted / swap_row / scale_row images of those rows (Model.Invariance); the predicted
relations are confirmed exactly on those concrete rationals and each image is compared with the implementation's own
run on tau(D).

Violation keys: `<Class>.<transform>` (exception, NaN, point estimate or per-row value off);
`<Class>.<transform>.<attribute>_se` when every point estimate and per-row value agrees and only SE / CI components of
that attribute disagree."""
import math
import traceback
from fractions import Fraction

import numpy as np
import pandas as pd

from common import coq_eval, frac, close, qlit, TOL_FIT, TOL_ARITH
import datagen
import est_common as ec

PROP_FILE = 'theories/Properties/C08.v'
MODEL_FILES = ['theories/Base/Rows.v', 'theories/Model/Estimators.v', 'theories/Model/Variance.v', 'theories/Model/Invariance.v']
GEN_GROUPS = ['tmle']
RULE = ('per class 3-4 (quick) / 30-40 (thorough) random frames: mixed continuous+categorical covariates (n 60-160, binary '
        'and normal outcomes, optional missing outcomes with/without a missing model, random stabilisation / target / '
        'plan options) for IPTW, StochasticIPTW, TimeFixedGFormula, AIPTW, TMLE, GEstimationSNM; monotone-missing frames '
        'for IPMW (single / uniform / distinct patterns); combined sample+target frames for IPSW, GTransportFormula, AIPSW; '
        'wide survival frames (K=2) for IterativeCondGFormula under 3 plans; frames with 2-4 exposure levels, missing '
        'exposure/outcome/time for the six effect-measure classes. Each frame is run under: identity, row shuffle, five '
        'index kinds, affine covariate map (alpha of both signs), category recoding, A -> 1-A, Y -> cY+d for c>0 and c<0. '
        'Coq: categorical frames with saturated models, est_out on rows / permuted / swap_row / scale_row images. '
        'non-trivial = distinct (class, options, frame, transform) that ran to a comparison')
TRUSTED = ['oracle (assumed by the theorems, sampled on every run through the per-row fitted values): a statsmodels GLM / GEE refit on '
           'the transformed data returns the transformed fitted values -- invariant under row order, index labels, affine maps of '
           'a covariate entering linearly, injective recoding of a C(...) factor; Pr(A=1|L) -> 1-Pr under A -> 1-A; linear-model '
           'predictions -> c*pred+d under Y -> cY+d',
           'patsy builds the design the formula says; the row-id column _rid_ added by the harness is never in a formula',
           'the ZEPID_VERIF probe in TMLE.fit (targeted predictions, for the Coq comparison only)',
           'statsmodels GEE robust covariance = closed-form sandwich (C06) for the Coq comparison of IPTW standard errors']

IMPORTS = ec.IMPORTS + ['Zepid.Model.Variance', 'Zepid.Model.Invariance']
INDEX_KINDS = ['shift', 'shuffle', 'float', 'str', 'dup']
TRANSFORMS = ['shuffle', 'index', 'affine', 'recode', 'swap', 'scale']
CLASSES = ['IPTW', 'IPMW', 'StochasticIPTW', 'TimeFixedGFormula', 'AIPTW', 'TMLE', 'GEstimationSNM', 'IPSW',
           'GTransportFormula', 'AIPSW', 'IterativeCondGFormula', 'RiskRatio', 'RiskDifference', 'OddsRatio', 'NNT',
           'IncidenceRateRatio', 'IncidenceRateDifference']
MEASURES = CLASSES[11:]


# ====================================================================================================== values
def fnum(x):
    if x is None:
        return None
    try:
        return float(x)
    except Exception:   # noqa
        return None


def near(x, y, tol=TOL_FIT):
    """two floats; None/NaN only match None/NaN; infinities must be equal"""
    xn = x is None or (isinstance(x, float) and x != x)
    yn = y is None or (isinstance(y, float) and y != y)
    if xn or yn:
        return xn and yn
    if math.isinf(x) or math.isinf(y):
        return x == y
    return abs(x - y) <= tol * max(1.0, abs(x), abs(y))


def rows_by_rid(values, rids, n):
    """per-row values of the analysed rows -> list of length n indexed by the harness row id (None = row not analysed)"""
    out = [None] * n
    vals = np.asarray(values, dtype=float)
    for v, r in zip(vals, np.asarray(rids)):
        out[int(r)] = float(v)
    return out


def quad(est, se=None, lo=None, hi=None):
    return (fnum(est), fnum(se), fnum(lo), fnum(hi))


COMP = ['est', 'se', 'lo', 'hi']


def mismatches(name, exp, got, tol=TOL_FIT):
    """-> list of (attribute, component, expected, got)"""
    bad = []
    if isinstance(exp, tuple):
        if not isinstance(got, tuple) or len(got) != len(exp):
            return [(name, 'est', exp, got)]
        for c, e, g in zip(COMP, exp, got):
            if e == 'skip':
                continue
            if not near(e, g, tol):
                bad.append((name, c, e, g))
    elif isinstance(exp, list) and exp and isinstance(exp[0], str):
        if exp != got:
            bad.append((name, 'est', exp, got))
    elif isinstance(exp, list):
        if not isinstance(got, list) or len(got) != len(exp):
            return [(name, 'row', 'length %d' % len(exp), 'length %s' % (len(got) if isinstance(got, list) else got))]
        for i, (e, g) in enumerate(zip(exp, got)):
            if not near(e, g, tol):
                bad.append((name, 'row', 'row %d: %r' % (i, e), g))
                break
    else:
        if not near(fnum(exp), fnum(got), tol):
            bad.append((name, 'est', exp, got))
    return bad


# ====================================================================================================== prediction
def srt(a, b):
    if a is None or b is None:
        return a, b
    return (a, b) if a <= b else (b, a)


def inv_or_none(x):
    if x is None:
        return None
    if x == 0:
        return float('inf')
    return 1.0 / x


def predict(res, tr):
    """res: name -> (kind, value, opt).  Returns name -> expected value in the run on tau(D); attributes whose image the
    theorems do not determine are left out (and counted as such)."""
    t = tr['name']
    out = {}
    for k, (kind, v, opt) in res.items():
        if t in ('shuffle', 'index', 'affine', 'recode'):
            out[k] = v
            continue
        if t == 'swap':
            kk = opt.get('swapname', k)
            if kind == 'inv':
                out[kk] = v
            elif kind == 'diff':
                e, s, lo, hi = v
                out[kk] = (None if e is None else -e, s, None if hi is None else -hi, None if lo is None else -lo)
            elif kind == 'ratio':
                e, s, lo, hi = v
                out[kk] = (inv_or_none(e), s, inv_or_none(hi), inv_or_none(lo))
            elif kind == 'prob':
                out[k] = [None if x is None else 1.0 - x for x in v] if isinstance(v, list) else (None if v is None else 1.0 - v)
            elif kind in ('mean', 'outc', 'unit', 'meanci', 'minv'):
                if opt.get('swap'):
                    out[opt['swap']] = v
            elif kind == 'psi':
                out[k] = [-x for x in v]
            elif kind == 'nnt':
                e, s, lo, hi = v
                out[kk] = (None if e is None else -e, s, None if hi is None else -hi, None if lo is None else -lo)
        elif t == 'scale':
            c, d = tr['c'], tr['d']
            if kind in ('inv', 'prob', 'minv'):
                out[k] = v
            elif kind == 'diff':
                e, s, lo, hi = v
                l2, h2 = srt(None if lo is None else c * lo, None if hi is None else c * hi)
                out[k] = (None if e is None else c * e, None if s is None else abs(c) * s, l2, h2)
            elif kind == 'meanci':
                e, s, lo, hi = v
                l2, h2 = srt(None if lo is None else c * lo + d, None if hi is None else c * hi + d)
                out[k] = (None if e is None else c * e + d, None if s is None else abs(c) * s, l2, h2)
            elif kind == 'mean':
                out[k] = None if v is None else c * v + d
            elif kind == 'outc':
                out[k] = [None if x is None else c * x + d for x in v]
            elif kind == 'unit':
                out[k] = v if c > 0 else [None if x is None else 1.0 - x for x in v]
            elif kind == 'psi':
                out[k] = [c * x for x in v]
            elif kind == 'ratio' and opt.get('arms'):
                r1, r0 = opt['arms']
                out[k] = ((c * r1 + d) / (c * r0 + d), 'skip', 'skip', 'skip')
    return out


# ====================================================================================================== transforms
def apply_tr(df, tr, spec):
    """spec: cont (continuous covariate columns), cat (categorical column that is recoded), trt (treatment columns),
    out (outcome column)"""
    t = tr['name']
    d = df.copy()
    if t == 'shuffle':
        d = d.iloc[tr['perm']].reset_index(drop=True)
    elif t == 'index':
        n = len(d)
        k = tr['kind']
        if k == 'shift':
            d.index = range(1000, 1000 + n)
        elif k == 'shuffle':
            d.index = tr['labels']
        elif k == 'float':
            d.index = [i + 0.5 for i in range(n)]
        elif k == 'str':
            d.index = ['id%03d' % i for i in range(n)]
        elif k == 'dup':
            d.index = [i // 2 for i in range(n)]
    elif t == 'affine':
        for col, (a, b) in tr['maps'].items():
            d[col] = a * d[col] + b
    elif t == 'recode':
        col = spec['cat']
        mp = mapdict(tr)
        isfloat = d[col].dtype.kind == 'f'
        d[col] = d[col].map(lambda v: v if (isinstance(v, float) and v != v) else mp[v if isinstance(v, str) else int(v)])
        if isfloat:
            d[col] = d[col].astype(float)
    elif t == 'swap':
        for col in spec['trt']:
            d[col] = 1 - d[col]
    elif t == 'scale':
        d[spec['out']] = tr['c'] * d[spec['out']] + tr['d']
    return d


def mapdict(tr):
    return {k: v for k, v in tr['map']}


def draw_transforms(rng, df, spec, continuous, which=None):
    n = len(df)
    trs = []
    perm = list(range(n))
    rng.shuffle(perm)
    trs.append({'name': 'shuffle', 'perm': perm})
    for k in INDEX_KINDS:
        tr = {'name': 'index', 'kind': k}
        if k == 'shuffle':
            lab = list(range(n))
            rng.shuffle(lab)
            tr['labels'] = lab
        trs.append(tr)
    if spec.get('cont'):
        trs.append({'name': 'affine', 'maps': {c: (rng.choice([-3.0, -0.5, 0.25, 2.0, 10.0]), rng.choice([-7.0, 0.0, 2.5, 100.0]))
                                               for c in spec['cont']}})
    if spec.get('cat'):
        levels = sorted(set(v if isinstance(v, str) else int(v) for v in df[spec['cat']].dropna().unique()))
        codes = rng.sample(range(0, 12), len(levels))
        if codes == levels:
            codes = codes[::-1]
        if isinstance(levels[0], str):
            codes = ['z%d' % c for c in codes]
        trs.append({'name': 'recode', 'map': [list(x) for x in zip(levels, codes)]})
    if spec.get('trt'):
        trs.append({'name': 'swap'})
    if continuous and spec.get('out'):
        trs.append({'name': 'scale', 'c': rng.choice([0.5, 2.0, 10.0]), 'd': rng.choice([-3.0, 0.0, 7.25])})
        trs.append({'name': 'scale', 'c': rng.choice([-0.5, -1.0, -4.0]), 'd': rng.choice([-3.0, 0.0, 7.25])})
    if which:
        trs = [t for t in trs if t['name'] in which]
    return trs


def tr_label(tr):
    t = tr['name']
    if t == 'index':
        return 'index:=%s' % tr['kind']
    if t == 'affine':
        return 'covariates ' + ', '.join('%s -> %g*%s%+g' % (c, a, c, b) for c, (a, b) in tr['maps'].items())
    if t == 'recode':
        return 'recode %r' % (tr['map'],)
    if t == 'scale':
        return 'Y -> %g*Y%+g' % (tr['c'], tr['d'])
    if t == 'swap':
        return 'A -> 1-A'
    return 'row shuffle'


# ====================================================================================================== frames
def frame_payload(df):
    out = {}
    for c in df.columns:
        out[c] = [None if (isinstance(v, float) and v != v) else (v.item() if hasattr(v, 'item') else v) for v in df[c].tolist()]
    return out


def frame_of(payload):
    df = pd.DataFrame({c: [np.nan if v is None else v for v in vals] for c, vals in payload.items()})
    return df


def mixed(rng, outcome, missing, proportion=None):
    for _ in range(20):
        df, meta = datagen.mixed_frame(rng, n=rng.randint(60, 160), outcome=outcome, missing=missing,
                                       n_cont=rng.choice([1, 2]), n_cat=rng.choice([1, 2]))
        ok = df['A'].sum() >= 8 and (1 - df['A']).sum() >= 8
        for c in [x for x in df.columns if x.startswith('C')]:
            tab = pd.crosstab(df[c], df['A'])
            ok = ok and tab.values.min() >= 3
        if outcome == 'binary':
            obs = df.dropna()
            ok = ok and pd.crosstab(obs['A'], obs['Y']).values.min() >= 4
        if ok:
            break
    if outcome == 'normal' and (proportion if proportion is not None else rng.random() < 0.35):
        # the unit and origin of a continuous outcome are arbitrary: here a proportion strictly inside (0, 1)
        y = df['Y']
        df['Y'] = np.round(0.21 + 0.57 * (y - y.min()) / (y.max() - y.min()), 5)
    df['_rid_'] = np.arange(len(df))
    cont = [c for c in df.columns if c.startswith('W')]
    cats = [c for c in df.columns if c.startswith('C')]
    rhs = ' + '.join(cont + ['C(%s)' % c for c in cats])
    spec = {'cont': cont, 'cat': cats[0], 'trt': ['A'], 'out': 'Y'}
    return df, {'rhs': rhs, 'cont': cont, 'cats': cats, 'outcome': outcome, 'missing': missing, 'n': len(df)}, spec


# ====================================================================================================== runners
# every runner: (df, cfg) -> name -> (kind, value, opt)
def tab_row(tab, est, se, i):
    return quad(tab[est].iloc[i], tab[se].iloc[i], tab['95%LCL'].iloc[i], tab['95%UCL'].iloc[i])


def run_IPTW(df, cfg):
    from zepid.causal.ipw import IPTW
    ip = IPTW(df, 'A', 'Y', standardize=cfg['std'])
    ip.treatment_model(cfg['rhs'], model_numerator=cfg.get('num') or '1', stabilized=cfg['stab'], print_results=False)
    if cfg.get('mm'):
        ip.missing_model('A + ' + cfg['rhs'], stabilized=cfg['stab'], print_results=False)
    ip.marginal_structural_model('A')
    ip.fit()
    n, rid = cfg['n'], ip.df['_rid_']
    res = {'iptw': ('inv', rows_by_rid(ip.iptw, rid, n), {}),
           'df.__denom__': ('prob', rows_by_rid(ip.df['__denom__'], rid, n), {}),
           'df.__numer__': ('prob' if cfg['stab'] else 'inv', rows_by_rid(ip.df['__numer__'], rid, n), {})}
    if ip.ipmw is not None:
        res['ipmw'] = ('inv', rows_by_rid(ip.ipmw, rid, n), {})
    if cfg['continuous']:
        t = ip.average_treatment_effect
        res['average_treatment_effect[A]'] = ('diff', tab_row(t, 'ATE', 'SE(ATE)', 1), {})
        res['average_treatment_effect[Intercept]'] = ('meanci', tab_row(t, 'ATE', 'SE(ATE)', 0), {})
    else:
        res['risk_difference[A]'] = ('diff', tab_row(ip.risk_difference, 'RD', 'SE(RD)', 1), {})
        res['risk_ratio[A]'] = ('ratio', tab_row(ip.risk_ratio, 'RR', 'SE(log(RR))', 1), {})
        res['odds_ratio[A]'] = ('ratio', tab_row(ip.odds_ratio, 'OR', 'SE(log(OR))', 1), {})
        res['risk_difference[Intercept]'] = ('meanci', tab_row(ip.risk_difference, 'RD', 'SE(RD)', 0), {})
        res['risk_ratio[Intercept]'] = ('meanci', tab_row(ip.risk_ratio, 'RR', 'SE(log(RR))', 0), {})
        res['odds_ratio[Intercept]'] = ('meanci', tab_row(ip.odds_ratio, 'OR', 'SE(log(OR))', 0), {})
    return res


def run_StochasticIPTW(df, cfg):
    from zepid.causal.ipw import StochasticIPTW
    sp = StochasticIPTW(df, 'A', 'Y')
    sp.treatment_model(cfg['rhs'], print_results=False)
    res = {}
    for i, p in enumerate(cfg['plans']):
        sp.fit(p=p)
        res['marginal_outcome(p=%g)' % cfg['plans0'][i]] = ('mean', fnum(sp.marginal_outcome), {'swap': 'marginal_outcome(p=%g)' % cfg['plans0'][i]})
    if cfg.get('cond'):
        sp.fit(p=cfg['cond_p'], conditional=cfg['cond'])
        res['marginal_outcome(conditional)'] = ('mean', fnum(sp.marginal_outcome), {'swap': 'marginal_outcome(conditional)'})
    return res


def run_TimeFixedGFormula(df, cfg):
    from zepid.causal.gformula import TimeFixedGFormula
    g = TimeFixedGFormula(df, 'A', 'Y', outcome_type='normal' if cfg['continuous'] else 'binary', standardize=cfg['std'], weights=cfg.get('wts'))
    g.outcome_model(cfg['q'], print_results=False)
    n = cfg['n']
    res = {}
    for plan, other in (('all', 'none'), ('none', 'all')):
        g.fit(plan)
        res['marginal_outcome(%s)' % plan] = ('mean', fnum(g.marginal_outcome), {'swap': 'marginal_outcome(%s)' % other})
        res['predicted_df.Y(%s)' % plan] = ('outc', rows_by_rid(g.predicted_df['Y'], g.predicted_df['_rid_'], n),
                                            {'swap': 'predicted_df.Y(%s)' % other})
    return res


def ci(v):
    return (None, None) if v is None else (v[0], v[1])


def run_AIPTW(df, cfg):
    from zepid.causal.doublyrobust import AIPTW
    a = AIPTW(df, 'A', 'Y')
    a.exposure_model(cfg['rhs'], print_results=False)
    if cfg.get('mm'):
        a.missing_model('A + ' + cfg['rhs'], print_results=False)
    a.outcome_model(cfg['q'], print_results=False)
    a.fit()
    n, rid = cfg['n'], a.df['_rid_']
    res = {'df._g1_': ('prob', rows_by_rid(a.df['_g1_'], rid, n), {}),
           'df._pY1_': ('outc', rows_by_rid(a.df['_pY1_'], rid, n), {'swap': 'df._pY0_'}),
           'df._pY0_': ('outc', rows_by_rid(a.df['_pY0_'], rid, n), {'swap': 'df._pY1_'})}
    if cfg['continuous']:
        res['average_treatment_effect'] = ('diff', quad(a.average_treatment_effect, a.average_treatment_effect_se, *ci(a.average_treatment_effect_ci)), {})
    else:
        res['risk_difference'] = ('diff', quad(a.risk_difference, a.risk_difference_se, *ci(a.risk_difference_ci)), {})
        res['risk_ratio'] = ('ratio', quad(a.risk_ratio, a.risk_ratio_se, *ci(a.risk_ratio_ci)), {})
    return res


def run_TMLE(df, cfg):
    from zepid.causal.doublyrobust import TMLE
    t = TMLE(df, 'A', 'Y')
    t.exposure_model(cfg['rhs'], print_results=False)
    if cfg.get('mm'):
        t.missing_model('A + ' + cfg['rhs'], print_results=False)
    t.outcome_model(cfg['q'], print_results=False)
    t.fit()
    n, rid = cfg['n'], t.df['_rid_']
    res = {'g1W': ('prob', rows_by_rid(t.g1W, rid, n), {}),
           'QA1W': ('unit', rows_by_rid(t.QA1W, rid, n), {'swap': 'QA0W'}),
           'QA0W': ('unit', rows_by_rid(t.QA0W, rid, n), {'swap': 'QA1W'})}
    if cfg.get('mm'):
        res['m1W'] = ('minv', rows_by_rid(t.m1W, rid, n), {'swap': 'm0W'})
        res['m0W'] = ('minv', rows_by_rid(t.m0W, rid, n), {'swap': 'm1W'})
    if cfg['continuous']:
        res['average_treatment_effect'] = ('diff', quad(t.average_treatment_effect, t.average_treatment_effect_se, *ci(t.average_treatment_effect_ci)), {})
    else:
        res['risk_difference'] = ('diff', quad(t.risk_difference, t.risk_difference_se, *ci(t.risk_difference_ci)), {})
        res['risk_ratio'] = ('ratio', quad(t.risk_ratio, t.risk_ratio_se, *ci(t.risk_ratio_ci)), {})
        res['odds_ratio'] = ('ratio', quad(t.odds_ratio, t.odds_ratio_se, *ci(t.odds_ratio_ci)), {})
    return res


def run_GEstimationSNM(df, cfg):
    from zepid.causal.snm import GEstimationSNM
    g = GEstimationSNM(df, exposure='A', outcome='Y')
    g.exposure_model(cfg['rhs'], print_results=False)
    g.structural_nested_model(cfg['snm'])
    if cfg.get('mm'):
        g.missing_model('A + ' + cfg['rhs'], print_results=False)
    g.fit(solver='closed')
    res = {'psi': ('psi', [float(x) for x in np.asarray(g.psi).ravel()], {}), 'psi_labels': ('inv', [str(x) for x in g.psi_labels], {})}
    if cfg.get('mm'):
        res['ipmw'] = ('inv', rows_by_rid(g.ipmw, g.df['_rid_'], cfg['n']), {})
    return res


def run_IPMW(df, cfg):
    from zepid.causal.ipw import IPMW
    m = IPMW(df, missing_variable=cfg['mv'], stabilized=cfg['stab'])
    m.regression_models(model_denominator=cfg['den'], model_numerator=cfg['num'], print_results=False)
    m.fit()
    w = m.Weight
    if len(w) != len(m.df):
        return {'Weight': ('inv', ['length %d' % len(w)], {})}
    return {'Weight': ('inv', rows_by_rid(np.asarray(w, dtype=float), m.df['_rid_'], cfg['n']), {})}


def arms_of(rd, rr):
    if rd is None or rr is None or abs(rr - 1) < 1e-3:
        return None
    r0 = rd / (rr - 1)
    return (r0 + rd, r0)


def run_generalize(kind):
    def run(df, cfg):
        from zepid.causal.generalize import IPSW, GTransportFormula, AIPSW
        n = cfg['n']
        res = {}
        if kind == 'IPSW':
            e = IPSW(df, exposure='A', outcome='Y', selection='S', generalize=cfg['gen'])
            e.sampling_model(cfg['fS'], stabilized=cfg['stab'], print_results=False)
            if cfg['rx']:
                e.treatment_model(cfg['fA'], stabilized=cfg['stab'], print_results=False)
            e.fit()
            res['ipsw'] = ('inv', rows_by_rid(e.ipsw, e.sample['_rid_'], n), {})
            if cfg['rx']:
                res['iptw'] = ('inv', rows_by_rid(e.iptw, e.sample['_rid_'], n), {})
        elif kind == 'GTransportFormula':
            e = GTransportFormula(df, exposure='A', outcome='Y', selection='S', generalize=cfg['gen'],
                                  outcome_type='normal' if cfg['continuous'] else 'binary')
            e.outcome_model(cfg['fQ'], print_results=False)
            e.fit()
        else:
            e = AIPSW(df, exposure='A', outcome='Y', selection='S', generalize=cfg['gen'])
            e.sampling_model(cfg['fS'], stabilized=cfg['stab'], print_results=False)
            if cfg['rx']:
                e.treatment_model(cfg['fA'], stabilized=cfg['stab'], print_results=False)
            e.outcome_model(cfg['fQ'], outcome_type='normal' if cfg['continuous'] else 'binary', print_results=False)
            e.fit()
            res['ipsw'] = ('inv', rows_by_rid(np.where(np.asarray(e.sample), np.asarray(e.ipsw, dtype=float), np.nan), e.df['_rid_'], n), {})
        rd, rr = fnum(e.risk_difference), fnum(e.risk_ratio)
        res['risk_difference'] = ('diff', quad(rd), {})
        res['risk_ratio'] = ('ratio', quad(rr), {'arms': arms_of(rd, rr)})
        return res
    return run


def run_IterativeCondGFormula(df, cfg):
    from zepid.causal.gformula import IterativeCondGFormula
    res = {}
    for plan, name in zip(cfg['plans'], cfg['plans0']):
        g = IterativeCondGFormula(df, exposures=['A0', 'A1'], outcomes=['Y0', 'Y1'])
        g.outcome_model(models=cfg['models'], print_results=False)
        g.fit(treatments=plan)
        res['marginal_outcome%s' % name] = ('mean', fnum(g.marginal_outcome), {'swap': 'marginal_outcome%s' % name})
    return res


DIFFCOLS = {'RiskDifference': ('SD(RD)', 'RD_LCL', 'RD_UCL'), 'IncRateDiff': ('SD(IRD)', 'IRD_LCL', 'IRD_UCL')}
RATIOCOLS = {'RiskRatio': ('SD(RR)', 'RR_LCL', 'RR_UCL'), 'OddsRatio': ('SD(OR)', 'OR_LCL', 'OR_UCL'),
             'IncRateRatio': ('SD(IRR)', 'IRR_LCL', 'IRR_UCL')}
OWNCOLS = {'Risk': ('SD(Risk)', 'Risk_LCL', 'Risk_UCL'), 'IncRate': ('SD(IncRate)', 'IncRate_LCL', 'IncRate_UCL')}


def run_measure(cls):
    def run(df, cfg):
        import zepid
        obj = getattr(zepid, cls)(reference=cfg['ref'], alpha=cfg['alpha'])
        if cls.startswith('Incidence'):
            obj.fit(df, exposure='e', outcome='y', time='t')
        else:
            obj.fit(df, exposure='e', outcome='y')
        tab = obj.results
        res = {'missing': ('inv', [float(obj._missing_e), float(obj._missing_d), float(obj._missing_ed)], {})}
        labels = {}
        for name, val in cfg['levels'].items():      # name: the level's name in D; val: its code in THIS frame
            labels[name] = ('Ref:' if val == cfg['ref'] else '') + str(val)
        for name, lab in labels.items():
            if lab not in tab.index:
                res['results[%s]' % name] = ('inv', ['row %r absent' % lab], {})
                continue
            row = tab.loc[lab]
            partner = cfg.get('partner', {}).get(name)
            sw = (lambda c: {'swapname': 'results[%s].%s' % (partner, c)}) if partner is not None else (lambda c: {})

            def g(c):
                v = row[c] if c in tab.columns else None
                return None if v is None else fnum(v)
            for est, (sd, lo, hi) in OWNCOLS.items():
                if est in tab.columns:
                    res['results[%s].%s' % (name, est)] = ('inv', quad(g(est), g(sd), g(lo), g(hi)), {})
            if lab.startswith('Ref:'):
                continue
            for est, (sd, lo, hi) in DIFFCOLS.items():
                if est in tab.columns:
                    res['results[%s].%s' % (name, est)] = ('diff', quad(g(est), g(sd), g(lo), g(hi)), sw(est))
            for est, (sd, lo, hi) in RATIOCOLS.items():
                if est in tab.columns:
                    res['results[%s].%s' % (name, est)] = ('ratio', quad(g(est), g(sd), g(lo), g(hi)), sw(est))
            if 'NNT' in tab.columns:
                res['results[%s].NNT' % name] = ('nnt', quad(g('NNT'), g('SD(RD)'), g('NNT_LCL'), g('NNT_UCL')), sw('NNT'))
            if 'LowerBound' in tab.columns:
                res['results[%s].bounds' % name] = ('diff', (None, None, g('LowerBound'), g('UpperBound')), sw('bounds'))
            for c in ('CLR', 'CLD'):
                if c in tab.columns:
                    res['results[%s].%s' % (name, c)] = ('inv', g(c), sw(c))
        return res
    return run


RUNNERS = {'IPTW': run_IPTW, 'StochasticIPTW': run_StochasticIPTW, 'TimeFixedGFormula': run_TimeFixedGFormula, 'AIPTW': run_AIPTW,
           'TMLE': run_TMLE, 'GEstimationSNM': run_GEstimationSNM, 'IPMW': run_IPMW, 'IPSW': run_generalize('IPSW'),
           'GTransportFormula': run_generalize('GTransportFormula'), 'AIPSW': run_generalize('AIPSW'),
           'IterativeCondGFormula': run_IterativeCondGFormula}
for _m in MEASURES:
    RUNNERS[_m] = run_measure(_m)

SWAP_STD = {'population': 'population', 'exposed': 'unexposed', 'unexposed': 'exposed'}


def cfg_for(cls, cfg, tr):
    """options of the run on tau(D)"""
    c = dict(cfg)
    t = tr['name']
    if t == 'swap':
        if 'std' in c:
            c['std'] = SWAP_STD[c['std']]
        if cls == 'StochasticIPTW':
            c['plans'] = [1 - p for p in c['plans']]
            if c.get('cond'):
                c['cond_p'] = [1 - p for p in c['cond_p']]
        if cls == 'IterativeCondGFormula':
            c['plans'] = [[1 - x for x in p] for p in c['plans']]
        if cls in MEASURES:
            c['levels'] = {name: 1 - v for name, v in c['levels'].items()}
    if t == 'recode' and cls in MEASURES:
        mp = mapdict(tr)
        rc = (lambda v: mp[v]) if isinstance(c['ref'], str) else (lambda v: float(mp[int(v)]))
        c['levels'] = {name: rc(v) for name, v in c['levels'].items()}
        c['ref'] = rc(c['ref'])
    return c


# ====================================================================================================== case generation
IPTW_COMBOS = [('exposed', True, False), ('unexposed', True, True), ('population', True, True), ('unexposed', True, False),
               ('exposed', False, False), ('population', False, False), ('exposed', True, True), ('unexposed', False, False)]
IPTW_SEQ = [0]
CONT_SEQ = {}
GF_SEQ = [0]


def gen_case(rng, cls):
    """-> (df, cfg, spec, continuous)"""
    if cls in ('IPTW', 'StochasticIPTW', 'TimeFixedGFormula', 'AIPTW', 'TMLE', 'GEstimationSNM'):
        outcome = rng.choice(['binary', 'normal']) if cls != 'GEstimationSNM' else rng.choice(['normal', 'normal', 'binary'])
        can_miss = cls in ('IPTW', 'AIPTW', 'TMLE', 'GEstimationSNM', 'TimeFixedGFormula')
        missing = rng.choice([None, None, 'mar']) if can_miss else None
        prop = None
        if cls in ('TMLE', 'AIPTW', 'TimeFixedGFormula'):
            # the first case of each of these classes: a continuous outcome that is a proportion inside (0, 1)
            CONT_SEQ[cls] = CONT_SEQ.get(cls, 0) + 1
            if CONT_SEQ[cls] == 1:
                outcome, prop = 'normal', True
        df, meta, spec = mixed(rng, outcome, missing, prop)
        cfg = {'rhs': meta['rhs'], 'n': meta['n'], 'continuous': outcome == 'normal', 'outcome': outcome, 'missing': missing,
               'q': 'A + ' + meta['rhs']}
        if cls in ('IPTW', 'TimeFixedGFormula'):
            cfg['std'] = rng.choice(['population', 'population', 'exposed', 'unexposed'])
        if cls == 'TimeFixedGFormula':
            # every (target, weights column or not) combination in turn: under A -> 1-A the weighted 'exposed' branch of one
            # coding is the weighted 'unexposed' branch of the other
            GF_SEQ[0] += 1
            cfg['std'] = ['population', 'exposed', 'unexposed'][GF_SEQ[0] % 3]
            if (GF_SEQ[0] // 3) % 2 == 0:
                df['wq'] = [rng.randint(1, 4) for _ in range(len(df))]
                cfg['wts'] = 'wq'
        if cls == 'IPTW':
            # every (target, stabilised, non-constant numerator) combination in turn: the A -> 1-A transform maps the
            # 'exposed' weights of one coding onto the 'unexposed' weights of the other
            cfg['std'], cfg['stab'], nonconst = IPTW_COMBOS[IPTW_SEQ[0] % len(IPTW_COMBOS)]
            IPTW_SEQ[0] += 1
            cfg['num'] = meta['rhs'].split(' + ')[0] if nonconst else None
        if cls in ('IPTW', 'AIPTW', 'TMLE', 'GEstimationSNM') and missing:
            cfg['mm'] = rng.random() < 0.6
        if cls == 'StochasticIPTW':
            cfg['plans'] = cfg['plans0'] = [rng.choice([0.0, 0.25, 0.3]), rng.choice([0.8, 1.0])]
            if len(meta['cats']) > 1:           # conditions on a categorical column that is never recoded
                cfg['cond'] = ["df['%s']==0" % meta['cats'][1], "df['%s']!=0" % meta['cats'][1]]
                cfg['cond_p'] = [0.2, 0.7]
        if cls == 'GEstimationSNM':
            bins = [c for c in meta['cats'] if set(df[c].unique()) <= {0, 1} and c != spec['cat']]
            cfg['snm'] = 'A + A:%s' % bins[0] if bins and rng.random() < 0.6 else 'A'
        if cls == 'AIPTW' and rng.random() < 0.3:
            cfg['q'] = 'A * (%s)' % meta['rhs'].replace(' + ', ' + ')   # treatment-covariate interactions
        return df, cfg, spec, outcome == 'normal'
    if cls == 'IPMW':
        return gen_ipmw(rng)
    if cls in ('IPSW', 'GTransportFormula', 'AIPSW'):
        return gen_generalize(rng, cls)
    if cls == 'IterativeCondGFormula':
        return gen_icg(rng)
    return gen_measure(rng, cls)


def gen_ipmw(rng):
    rs = np.random.RandomState(rng.randrange(2 ** 31))
    for _ in range(100):
        n = rng.randint(60, 120)
        pat = rng.choice(['single', 'single-list', 'distinct', 'distinct', 'distinct3', 'uniform', 'uniform-last'])
        L = rs.binomial(1, 0.5, n)
        W = np.round(rs.normal(size=n), 2)
        G = rs.randint(0, 3, n)

        def step():
            return rs.binomial(1, 1 / (1 + np.exp(-(-1.4 + 0.6 * L + 0.4 * W - 0.3 * (G == 1))))) == 1
        m0 = step()
        if pat in ('single', 'single-list'):
            miss = [m0]
        elif pat == 'distinct':
            miss = [m0, m0 | step()]
        elif pat == 'distinct3':
            m1 = m0 | step()
            miss = [m0, m1, m1 | step()]
        elif pat == 'uniform':
            miss = [m0, m0]
        else:
            m1 = m0 | step()
            miss = [m0, m1, m1]
        if any(m.sum() < 6 or (~m).sum() < 20 for m in miss):
            continue
        if any((b & ~a).sum() < 5 for a, b in zip(miss, miss[1:]) if not (a == b).all()):
            continue
        df = pd.DataFrame({'L': L, 'W': W, 'G': G})
        for k, m in enumerate(miss):
            v = np.round(rs.normal(size=n), 2)
            v[m] = np.nan
            df['M%d' % k] = v
        df['_rid_'] = np.arange(n)
        K = len(miss)
        stab = rng.random() < 0.4
        den = rng.choice(['L + W + C(G)', 'W + C(G)', 'L + W'])
        if 'C(G)' not in den and rng.random() < 0.5:
            den = den + ' + C(G)'
        cfg = {'n': n, 'pattern': pat, 'stab': stab, 'K': K,
               'mv': 'M0' if pat == 'single' else ['M%d' % k for k in range(K)],
               'den': den if pat == 'single' else [den] + ([rng.choice(['L + W', 'L + W + C(G)'])] if K > 1 and rng.random() < 0.5 else []),
               'num': ('L' if stab else '1') if pat == 'single' else (['L'] if stab else '1')}
        spec = {'cont': ['W'], 'cat': 'G' if 'C(G)' in str(cfg['den']) else None, 'trt': None, 'out': None}
        return df, cfg, spec, False
    raise RuntimeError('no usable IPMW draw')


AIPSW_SEQ = [0]


def gen_generalize(rng, cls):
    rs = np.random.RandomState(rng.randrange(2 ** 31))
    for _ in range(50):
        n = rng.randint(110, 200)
        X = np.round(rs.normal(size=n), 2)
        G = rs.randint(0, 3, n)
        S = rs.binomial(1, 1 / (1 + np.exp(-(0.3 + 0.5 * X - 0.4 * (G == 2)))))
        A = rs.binomial(1, 1 / (1 + np.exp(-(0.1 + 0.3 * X - 0.3 * (G == 1))))).astype(float)
        continuous = rng.random() < 0.5
        lin = 0.3 + 0.6 * A + 0.4 * X + 0.3 * (G == 1) + 0.3 * A * X
        Y = np.round(2 + lin + rs.normal(size=n), 2) if continuous else rs.binomial(1, 1 / (1 + np.exp(-(lin - 0.6)))).astype(float)
        A[S == 0] = np.nan
        Y[S == 0] = np.nan
        df = pd.DataFrame({'X': X, 'G': G, 'S': S, 'A': A, 'Y': Y})
        smp = df[df['S'] == 1]
        if (df['S'] == 0).sum() < 25 or pd.crosstab(smp['G'], smp['A']).values.min() < 4:
            continue
        if not continuous and pd.crosstab(smp['A'], smp['Y']).values.min() < 5:
            continue
        df['_rid_'] = np.arange(n)
        cfg = {'n': n, 'gen': rng.random() < 0.5, 'stab': rng.random() < 0.5, 'rx': rng.random() < 0.6, 'continuous': continuous,
               'fS': 'X + C(G)', 'fA': 'X + C(G)', 'fQ': rng.choice(['A + X + C(G)', 'A + X + C(G) + A:X'])}
        if cls == 'AIPSW':
            AIPSW_SEQ[0] += 1
            if AIPSW_SEQ[0] % 2 == 1:
                cfg['rx'] = False          # every other AIPSW data set: no treatment model, some treatments not recorded
        if cls == 'AIPSW' and not cfg['rx']:
            # a few members of the study sample whose treatment was not recorded although their outcome was: they enter the
            # estimator through the outcome model's predictions only, whichever way the treatment is coded
            pos = np.flatnonzero(df['S'].to_numpy() == 1)
            df.loc[df.index[pos[::max(1, len(pos) // 6)][:6]], 'A'] = np.nan
            cfg['sample_rows_without_treatment'] = True
        return df, cfg, {'cont': ['X'], 'cat': 'G', 'trt': ['A'], 'out': 'Y'}, continuous
    raise RuntimeError('no usable generalize draw')


def gen_icg(rng):
    rs = np.random.RandomState(rng.randrange(2 ** 31))
    for _ in range(50):
        n = rng.randint(180, 320)
        X = np.round(rs.normal(size=n), 2)
        L0 = rs.binomial(1, 0.5, n)
        A0 = rs.binomial(1, 1 / (1 + np.exp(-(0.4 * L0 - 0.2 + 0.2 * X))))
        Y0 = rs.binomial(1, 1 / (1 + np.exp(-(-1.6 + 0.5 * L0 - 0.5 * A0 + 0.3 * X))))
        L1 = rs.binomial(1, 1 / (1 + np.exp(-(0.6 * L0 - 0.4 * A0))))
        A1 = rs.binomial(1, 1 / (1 + np.exp(-(0.8 * A0 + 0.3 * L1 - 0.4))))
        Y1 = rs.binomial(1, 1 / (1 + np.exp(-(-1.2 + 0.5 * L1 - 0.4 * A1 - 0.3 * A0 + 0.3 * X))))
        Y1 = np.where(Y0 == 1, np.nan, Y1.astype(float))
        df = pd.DataFrame({'X': X, 'L0': L0, 'A0': A0, 'Y0': Y0.astype(float), 'L1': L1, 'A1': A1, 'Y1': Y1})
        alive = df[df['Y0'] == 0]
        if df['Y0'].sum() < 12 or alive['Y1'].sum() < 12 or (alive['Y1'] == 0).sum() < 12:
            continue
        if pd.crosstab([alive['A0'], alive['A1']], alive['Y1']).values.min() < 2 or pd.crosstab(df['A0'], df['Y0']).values.min() < 3:
            continue
        df['_rid_'] = np.arange(n)
        plans = [[1, 1], [0, 0], rng.choice([[1, 0], [0, 1]])]
        cfg = {'n': n, 'models': ['A0 + C(L0) + X', 'A0 + A1 + C(L1) + X'], 'plans': plans, 'plans0': [str(p) for p in plans]}
        # a swapped plan is compared with the run of the complementary plan on the swapped data: name stays the D-plan's
        return df, cfg, {'cont': ['X'], 'cat': 'L0', 'trt': ['A0', 'A1'], 'out': None}, False
    raise RuntimeError('no usable ICG draw')


MEAS_SEQ = {}


def gen_measure(rng, cls):
    binary = rng.random() < 0.5
    MEAS_SEQ[cls] = MEAS_SEQ.get(cls, 0) + 1
    forced = MEAS_SEQ[cls] % 2 == 1      # every other case of a class: two levels (so that A -> 1-A applies) and rows whose
    if forced:                            # outcome is missing while the exposure is observed (counted by nothing but `n`)
        binary = True
    nlev = 2 if binary else rng.choice([3, 4])
    codes = [0, 1] if binary else rng.sample(range(0, 9), nlev)
    rows = []
    for code in codes:
        for yv in (1, 0):
            for _ in range(rng.randint(3, 14)):
                rows.append([float(code), float(yv), rng.randint(1, 400) / 4.0])
    for _ in range(rng.choice([0, 0, 3, 6])):
        r = [float(rng.choice(codes)), float(rng.randint(0, 1)), rng.randint(1, 400) / 4.0]
        for j in rng.sample([0, 1, 2], rng.randint(1, 2)):
            r[j] = np.nan
        rows.append(r)
    if forced:
        for _ in range(rng.randint(3, 9)):
            rows.append([float(rng.choice(codes)), np.nan, rng.randint(1, 400) / 4.0])
    rng.shuffle(rows)
    df = pd.DataFrame(rows, columns=['e', 'y', 't'])
    df['_rid_'] = np.arange(len(df))
    strings = (not binary) and rng.random() < 0.3        # exposure levels given as strings
    enc = (lambda c: 'lv%d' % c) if strings else float
    if strings:
        df['e'] = pd.Series([v if v != v else 'lv%d' % int(v) for v in df['e']], dtype=object)
    ref = 0.0 if binary else enc(rng.choice(codes))
    cfg = {'n': len(df), 'ref': ref, 'alpha': rng.choice([0.05, 0.1, 0.2]), 'levels': {str(c): enc(c) for c in codes}}
    if binary:
        cfg['partner'] = {'0': '1', '1': '0'}
    spec = {'cont': None, 'cat': 'e', 'trt': ['e'] if binary else None, 'out': None}
    return df, cfg, spec, False


# ====================================================================================================== the metamorphic run
def describe(cls, cfg):
    keep = {k: v for k, v in cfg.items() if k not in ('n', 'levels', 'partner', 'plans0')}
    return '%s(%s), n=%d' % (cls, ', '.join('%s=%r' % kv for kv in sorted(keep.items())), cfg['n'])


def meta_case(ctx, fails, table, cls, df, cfg, spec, continuous, which=None, trs=None):
    run = RUNNERS[cls]
    payload = {'part': 'meta', 'class': cls, 'frame': frame_payload(df), 'cfg': cfg, 'spec': spec, 'continuous': continuous}
    n = len(df)
    try:
        base = run(df, cfg)
    except Exception as e:   # noqa
        fails.append((n, '%s.identity' % cls, '%s raised %s: %s on the untransformed frame' % (describe(cls, cfg), type(e).__name__, str(e)[:120]),
                      payload, None))
        table.setdefault((cls, 'identity'), []).append(False)
        return
    ctx.programs += 1
    trs = trs if trs is not None else draw_transforms(ctx.rng, df, spec, continuous, which)
    for tr in trs:
        t = tr['name']
        ctx.evaluations += 1
        ctx.count('%s:%s' % (cls, t))
        pay = dict(payload, tr=tr)
        lab = '%s under %s' % (describe(cls, cfg), tr_label(tr))
        try:
            got = run(apply_tr(df, tr, spec), cfg_for(cls, cfg, tr))
        except Exception as e:   # noqa
            fails.append((n, '%s.%s' % (cls, t), '%s raised %s: %s (the untransformed frame runs)' % (lab, type(e).__name__, str(e)[:140]), pay,
                          tr.get('kind')))
            table.setdefault((cls, t), []).append(False)
            continue
        ctx.programs += 1
        exp = predict(base, tr)
        ctx.nontriv([cls, sorted((k, str(v)) for k, v in cfg.items() if k != 'levels'), tr_label(tr), n])
        bad = []
        for name, e in exp.items():
            if name not in got:
                bad.append((name, 'est', e, 'attribute absent'))
                continue
            ctx.disagreements_checked += 1
            if isinstance(e, list) and e and not isinstance(e[0], str):
                ctx.oracle_checks += 1
            bad += mismatches(name, e, got[name][1])
        ctx.count('attributes-unpredicted:%s' % t, len(base) - len(exp))
        table.setdefault((cls, t), []).append(not bad)
        if bad:
            only_se = all(b[1] in ('se', 'lo', 'hi') for b in bad)
            key = '%s.%s' % (cls, t) + ('.%s_se' % bad[0][0].split('[')[0].split('(')[0] if only_se else '')
            det = '; '.join('%s.%s expected %s got %s' % (b[0], b[1], fmt(b[2]), fmt(b[3])) for b in bad[:4])
            fails.append((n, key, '%s: %s%s' % (lab, det, ' (+%d more)' % (len(bad) - 4) if len(bad) > 4 else ''), pay, tr.get('kind')))
    ctx.sample({'class': cls, 'config': describe(cls, cfg), 'transforms': [tr_label(t) for t in trs][:4],
                'first_attribute': next(iter((k, fmt(v[1])) for k, v in base.items()))}, cap=6)


def fmt(v):
    if isinstance(v, float):
        return '%.10g' % v
    if isinstance(v, tuple):
        return '(' + ', '.join(fmt(x) for x in v) + ')'
    if isinstance(v, list):
        return '[' + ', '.join(fmt(x) for x in v[:3]) + (', ...]' if len(v) > 3 else ']')
    return str(v)


def meta_part(ctx, fails, table):
    per = 3 if ctx.quick else 30
    for cls in CLASSES:
        k = per + (1 if cls in ('IPMW', 'TMLE', 'AIPTW') else 0) + (len(IPTW_COMBOS) - per if cls == 'IPTW' else 0)
        if cls in MEASURES:
            k = per if ctx.quick else 40
        for _ in range(k):
            try:
                df, cfg, spec, continuous = gen_case(ctx.rng, cls)
            except RuntimeError as e:
                ctx.notes.append('generator: %s' % e)
                continue
            meta_case(ctx, fails, table, cls, df, cfg, spec, continuous)


# ====================================================================================================== Coq part
def snapv(v, n, mult=1):
    return ec.snap_vec(v, n, mult)[0]


def sat_runs(df, meta):
    """IPTW (unstabilised, population), TimeFixedGFormula, AIPTW, TMLE with saturated models.
    -> observations (floats) + per-row nuisance values in the frame's own row order"""
    from zepid.causal.ipw import IPTW
    from zepid.causal.gformula import TimeFixedGFormula
    from zepid.causal.doublyrobust import AIPTW, TMLE
    cont = meta['outcome'] == 'normal'
    satL, satAL = meta['sat_L'], meta['sat_AL']
    o = {}
    ip = IPTW(df, 'A', 'Y')
    ip.treatment_model(satL, stabilized=False, print_results=False)
    ip.marginal_structural_model('A')
    ip.fit()
    tab = ip.average_treatment_effect if cont else ip.risk_difference
    col, se = ('ATE', 'SE(ATE)') if cont else ('RD', 'SE(RD)')
    b0, b1 = float(tab[col].iloc[0]), float(tab[col].iloc[1])
    o['iptw'] = (b0 + b1, b0, float(tab[se].iloc[1]) ** 2)
    o['rid'] = np.asarray(ip.df['_rid_']).astype(int)
    o['g'] = np.asarray(ip.df['__denom__'], dtype=float)
    g = TimeFixedGFormula(df, 'A', 'Y', outcome_type='normal' if cont else 'binary')
    g.outcome_model(satAL, print_results=False)
    g.fit('all')
    r1, q1 = float(g.marginal_outcome), np.asarray(g.predicted_df['Y'], dtype=float)
    g.fit('none')
    r0, q0 = float(g.marginal_outcome), np.asarray(g.predicted_df['Y'], dtype=float)
    o['gf'] = (r1, r0)
    o['q1'], o['q0'] = q1, q0
    a = AIPTW(df, 'A', 'Y')
    a.exposure_model(satL, print_results=False)
    a.outcome_model(satAL, print_results=False)
    a.fit()
    o['aipw'] = (float(a.average_treatment_effect if cont else a.risk_difference),
                 float(a.average_treatment_effect_se if cont else a.risk_difference_se) ** 2)
    # continuous_bound (default 0.0005) deliberately moves the extreme outcomes inwards before anything is fitted; the Coq
    # rows carry the outcomes as recorded, so (as in C01 / C06) the bound is set to a value nothing reaches.  The
    # metamorphic part above runs TMLE with its default bound.
    t = TMLE(df, 'A', 'Y', continuous_bound=1e-10) if cont else TMLE(df, 'A', 'Y')
    t.exposure_model(satL, print_results=False)
    t.outcome_model(satAL, print_results=False)
    t.fit()
    pr = t._verif_probe_
    lo, hi = (float(t._continuous_min), float(t._continuous_max)) if cont else (0.0, 1.0)
    o['t1'], o['t0'] = pr['Qstar1'] * (hi - lo) + lo, pr['Qstar0'] * (hi - lo) + lo
    o['tmle'] = (float(t.average_treatment_effect if cont else t.risk_difference),
                 float(t.average_treatment_effect_se if cont else t.risk_difference_se) ** 2)
    return o


def coq_part(ctx, fails, table, cases=None):
    ncase = 4 if ctx.quick else 24
    work, exprs = [], []
    if cases is None:
        cases = []
        for i in range(ncase):
            otype = ['binary', 'normal'][i % 2]
            df, meta = datagen.cat_frame(ctx.rng, n_cov=ctx.rng.choice([1, 1, 2]), arities=None, cell=(2, 4), outcome=otype)
            if meta['n'] > 36:      # exact evaluation of the variances in Coq grows steeply with the number of rows
                df, meta = datagen.cat_frame(ctx.rng, n_cov=1, arities=[ctx.rng.choice([2, 3])], cell=(2, 4), outcome=otype)
            perm = list(range(len(df)))
            ctx.rng.shuffle(perm)
            c, d = ctx.rng.choice([-2.5, -0.5, 0.25, 4.0]), ctx.rng.choice([0.0, 7.25, -3.0])
            cases.append({'frame': frame_payload(df), 'meta': meta, 'perm': perm, 'c': c, 'd': d})
    for cs in cases:
        df, meta = frame_of(cs['frame']), cs['meta']
        df['_rid_'] = np.arange(len(df))
        n = len(df)
        cont = meta['outcome'] == 'normal'
        pay = dict(cs, part='coq')
        imgs = {'identity': df, 'shuffle': df.iloc[cs['perm']].reset_index(drop=True)}
        sw = df.copy()
        sw['A'] = 1 - sw['A']
        imgs['swap'] = sw
        if cont:
            sc = df.copy()
            sc['Y'] = cs['c'] * sc['Y'] + cs['d']
            imgs['scale'] = sc
        runs = {}
        for name, d in imgs.items():
            try:
                runs[name] = sat_runs(d, meta)
                ctx.programs += 4
            except Exception as e:   # noqa
                fails.append((n, 'coq-part.%s.raises' % name, 'saturated IPTW/TimeFixedGFormula/AIPTW/TMLE on a categorical %s frame (%s image) raised %s: %s'
                              % (meta['outcome'], name, type(e).__name__, str(e)[:120]), pay, None))
        if 'identity' not in runs:
            continue
        o = runs['identity']
        yden = 100 if cont else 1
        order = np.argsort(o['rid'])            # rows in harness-id order
        S = np.asarray(df['S'])
        A = np.asarray(df['A']).astype(int)
        Y = [ec.frac_y(y, 2) for y in df['Y']]
        g = snapv(o['g'][order], n)
        rows_init = ec.coq_rows(S, A, Y, g1=g, q1=snapv(o['q1'][order], n, yden), q0=snapv(o['q0'][order], n, yden))
        rows_targ = ec.coq_rows(S, A, Y, g1=g, q1=snapv(o['t1'][order], n * 64, yden), q0=snapv(o['t0'][order], n * 64, yden))
        pos = '[' + '; '.join('%d%%nat' % i for i in cs['perm']) + ']'
        cq, dq = qlit(Fraction(cs['c'])), qlit(Fraction(cs['d']))
        parts = []
        for rows in (rows_init, rows_targ):
            parts.append('(let l := %s in [Qflat (est_out false TAll (1#2) 1 1 l); Qflat (est_out false TAll (1#2) 1 1 (permute row0 %s l)); '
                         'Qflat (est_out false TAll (1#2) 1 1 (map swap_row l)); Qflat (est_out false TAll (1#2) 1 1 (map (scale_row %s %s) l))])'
                         % (rows, pos, cq, dq))
        exprs.append('(%s, %s)' % tuple(parts))
        work.append((cs, meta, runs, pay, n, cont))
    res, errs = coq_eval(ctx, 'c08', IMPORTS, exprs, shard=1, timeout=600)
    if errs:
        ctx.broken_ties.append('coq evaluation failed: ' + errs[0][1][-300:])
    for (cs, meta, runs, pay, n, cont), r in zip(work, res):
        ctx.evaluations += 1
        if r is None:
            continue
        ctx.count('coq:%s' % meta['outcome'])
        ctx.nontriv(['coq', meta, cs['perm'][:6], cs['c'], cs['d']])
        c, d = Fraction(cs['c']), Fraction(cs['d'])
        init = [[frac(x) for x in img] for img in r[0]]
        targ = [[frac(x) for x in img] for img in r[1]]
        # est_out: 0,1 iptw mu1 mu0 | 2,3 gf | 4,5 aipw y1 y0 | 6,7 tmle | 8,9 std | 10 sandwich | 11 aipw var | 12 tmle var
        # (a) the theorems' relations, exactly, on these concrete rationals
        for tag, (base, perm, swp, scl) in (('initial', init), ('targeted', targ)):
            ctx.disagreements_checked += 3
            if perm != base:
                ctx.broken_ties.append('model: est_out on the permuted rows differs from est_out on the rows (%s predictions)' % tag)
            want = [base[1], base[0], base[3], base[2], base[5], base[4], base[7], base[6], base[9], base[8], base[10], base[11], base[12]]
            if swp != want:
                ctx.broken_ties.append('model: est_out on swap_row rows is not the arm-exchanged est_out (%s predictions): %s vs %s'
                                       % (tag, [str(x) for x in swp], [str(x) for x in want]))
            want = [None if x is None else c * x + d for x in base[:10]] + [None if x is None else c * c * x for x in base[10:]]
            if scl != want:
                ctx.broken_ties.append('model: est_out on scale_row rows is not c*est+d / c^2*var (%s predictions)' % tag)
        # (b) each image of the model against the implementation's own run on tau(D)
        for name, idx in (('identity', 0), ('shuffle', 1), ('swap', 2), ('scale', 3)):
            if name not in runs:
                continue
            o = runs[name]
            mi, mt = init[idx], targ[idx]
            cmpv = [('IPTW', 'arm mean A=1', o['iptw'][0], mi[0]), ('IPTW', 'arm mean A=0', o['iptw'][1], mi[1]),
                    ('IPTW', 'SE(RD/ATE)^2', o['iptw'][2], mi[10]),
                    ('TimeFixedGFormula', 'marginal_outcome(all)', o['gf'][0], mi[2]), ('TimeFixedGFormula', 'marginal_outcome(none)', o['gf'][1], mi[3]),
                    ('AIPTW', 'RD/ATE', o['aipw'][0], mi[4] - mi[5]), ('AIPTW', 'SE^2', o['aipw'][1], mi[11]),
                    ('TMLE', 'RD/ATE', o['tmle'][0], mt[6] - mt[7]), ('TMLE', 'SE^2', o['tmle'][1], mt[12])]
            for cls, what, x, q in cmpv:
                ctx.disagreements_checked += 1
                ok = close(x, q, 1e-5 if 'SE' in what else TOL_FIT)
                table.setdefault((cls, 'coq:' + name), []).append(ok)
                if not ok:
                    fails.append((n, '%s.%s' % (cls, name if name != 'identity' else 'model'),
                                  '%s %s on the %s image of a saturated categorical frame (%s outcome, n=%d%s): implementation %r, Coq model on the '
                                  'transformed rows %.12g' % (cls, what, name, meta['outcome'], n,
                                                             ', c=%g d=%g' % (cs['c'], cs['d']) if name == 'scale' else '', x, float(q)), pay, None))
        ctx.sample({'coq_case': {'n': n, 'outcome': meta['outcome'], 'c': cs['c'], 'd': cs['d'],
                                 'est_out(rows)[:4]': [str(x) for x in init[0][:4]], 'est_out(swap_row rows)[:4]': [str(x) for x in init[2][:4]]}}, cap=8)


# ====================================================================================================== development switch
_PATCH_NOTE = []


def _maybe_patch():
    """C08_PATCH=1 (OFF by default, development only): apply, IN THIS PROCESS and never in /repo, the proposed repair of the
    one remaining (known) finding -- the log-risk-ratio influence curve of aipw_calculator written as
    D1/mean(Q1) - D0/mean(Q0).  With the switch on the run reports nothing at all, which shows that exactly this site is
    responsible.  (The IPMW index and TMLE missing-row repairs that this switch also carried are in /repo since
    fcd57a5 / 4895d4a.)"""
    import os
    if os.environ.get('C08_PATCH') != '1' or _PATCH_NOTE:
        return
    import importlib
    import inspect
    import sys
    um = importlib.import_module('zepid.causal.utils')
    src = inspect.getsource(um.aipw_calculator)
    old = ("            ic = ((a*(y-py_o)) / (np.mean(py_a)*pa1) + (py_a - np.mean(py_a)) -\n"
           "                  ((1-a)*(y-py_o)) / (np.mean(py_n)*pa0) + (py_n - np.mean(py_n)))")
    assert old in src
    src = src.replace(old, "            ic = (((a*(y-py_o)) / pa1 + (py_a - np.mean(py_a))) / np.mean(py_a) -\n"
                           "                  (((1-a)*(y-py_o)) / pa0 + (py_n - np.mean(py_n))) / np.mean(py_n))")
    ns = {}
    exec(src, vars(um), ns)
    importlib.import_module('zepid.causal.doublyrobust.AIPW')
    sys.modules['zepid.causal.doublyrobust.AIPW'].aipw_calculator = ns['aipw_calculator']
    _PATCH_NOTE.append('C08_PATCH=1: aipw_calculator replaced in-process by its patched source')


# ====================================================================================================== driver
def run(ctx):
    _maybe_patch()
    ctx.notes.extend(_PATCH_NOTE)
    fails, table = [], {}
    meta_part(ctx, fails, table)
    coq_part(ctx, fails, table)
    report(ctx, fails, table)


def report(ctx, fails, table):
    fails.sort(key=lambda f: f[0])
    seen = set()
    for size, key, what, payload, kind in fails:
        if key in seen:
            continue
        seen.add(key)
        same = [f for f in fails if f[1] == key]
        kinds = sorted({f[4] for f in same if f[4]})
        extra = ' [%d failing cases%s]' % (len(same), '; index kinds: ' + ', '.join(kinds) if kinds else '')
        ctx.violation(key, what + extra, payload)
    grid = {}
    for (cls, t), oks in sorted(table.items()):
        grid.setdefault(cls, {})[t] = '%d/%d' % (sum(oks), len(oks))
    ctx.extra['class_x_transform_pass'] = grid
    print('class x transform (cases agreeing / cases run):')
    cols = ['identity'] + TRANSFORMS
    print('  %-24s' % '' + ''.join('%-10s' % c for c in TRANSFORMS))
    for cls in CLASSES:
        row = grid.get(cls, {})
        print('  %-24s' % cls + ''.join('%-10s' % row.get(c, '-') for c in TRANSFORMS)
              + ('  identity run FAILED' if 'identity' in row else ''))


def replay(ctx, payload):
    _maybe_patch()
    ctx.notes.extend(_PATCH_NOTE)
    fails, table = [], {}
    if payload.get('part') == 'coq':
        coq_part(ctx, fails, table, cases=[{k: payload[k] for k in ('frame', 'meta', 'perm', 'c', 'd')}])
    else:
        df = frame_of(payload['frame'])
        trs = [payload['tr']] if 'tr' in payload else None
        cfg = payload['cfg']
        if payload['class'] in MEASURES:
            cfg = dict(cfg, levels={k: v for k, v in cfg['levels'].items()})
        meta_case(ctx, fails, table, payload['class'], df, cfg, payload['spec'], payload['continuous'], trs=trs)
    report(ctx, fails, table)
