"""C18 -- adjustment sets are exactly the back-door admissible sets.

Every case is a PROGRAM (sequence of add_arrow / add_arrows / add_from_networkx calls on a fresh
DirectedAcyclicGraph('X','Y')).  The implementation runs it; the same program is evaluated in Coq by
Model.Dag.case_out (vm_compute), which returns the trace of the model's state machine, the model's adjustment
sets (repaired algorithm), the sets admitted by the SPECIFICATION (active-walk d-separation, and the textbook
path-by-path rendering), the sets of the faithful model of the shipped moralisation loop, the minimal sets and
the model's descendants / ancestors / undirected reachability.  Nothing of the algorithm is re-implemented in
Python: Python only generates programs, translates labels and compares."""
import itertools

from common import coq_eval

PROP_FILE = 'theories/Properties/C18.v'
MODEL_FILES = ['theories/Model/Dag.v']
GEN_GROUPS = []
RULE = ('programs = sequences of add_arrow/add_arrows/add_from_networkx on DirectedAcyclicGraph("X","Y"). (1) every one of the '
        '3^9 = 19683 orientation vectors of the 9 free node pairs of a 5-node graph with X->Y (8816 DAGs; the 10867 cyclic ones '
        'must be rejected and leave the graph unchanged) as one add_arrows call in lexicographic arrow order [all 8816 DAGs in both tiers; '
        'cyclic ones: 3000 sampled in quick, all in thorough; acyclicity decided by the Coq model], '
        'and in reversed order / shuffled one-by-one add_arrow calls / add_from_networkx with a random node permutation '
        '[quick: 1000 sampled each + every graph on which the Coq model of the shipped moralisation loop loses a set in the '
        'lexicographic pass; thorough: all]; (2) random programs on 2..8 nodes mixing the three calls, with deliberately '
        'cycle-creating arrows (reversed existing arrow, self-loop, closing a directed path), cyclic / exposure-less networks; '
        '(3) structured family on 6, 7, 8 nodes: templates containing a collider with descendants (M + child, butterfly + child, '
        'M + grandchild, M + two children, two colliders sharing parents, collider chains, double M + child) x every/random assignment of '
        'roles to nodes x random extra arrows (p = 0, 0.1, 0.25 along a random linear extension) x call style; (4) dense random DAGs on '
        '6-8 nodes (arrow probability 0.15-0.5 along a random topological order).  Coverage is MEASURED with the Coq model: a case '
        'exercises a step of the algorithm iff ablating that step in the model changes the answer for some candidate set. '
        'non-trivial = accepted DAG on which the specification admits some but not all candidate sets')
TRUSTED = ['networkx: is_directed_acyclic_graph / descendants / ancestors / has_path / DiGraph insertion order and copy() '
           '(modelled by Model.Dag; descendants, ancestors, undirected reachability and acyclicity validated against the model on every case)',
           'label <-> nat translation and program generator of harness/props/c18.py']

LABELS = ['X', 'Y', 'A', 'B', 'C', 'D', 'E', 'F', 'G', 'H']
IDX = {l: i for i, l in enumerate(LABELS)}
FREE5 = [(0, 2), (0, 3), (0, 4), (1, 2), (1, 3), (1, 4), (2, 3), (2, 4), (3, 4)]
SITE = 'DirectedAcyclicGraph'
ABLATIONS = ['descendant-test', 'ancestors-of-adjustment-set', 'ancestral-restriction', 'moralisation']


# ---------------------------------------------------------------------------------------- programs
def coq_pairs(ps):
    return '[' + '; '.join('(%d,%d)' % (u, v) for u, v in ps) + ']%nat'


def coq_prog(prog):
    out = []
    for o in prog:
        if o[0] == 'arrow':
            out.append('AddArrow %d %d' % (o[1], o[2]))
        elif o[0] == 'arrows':
            out.append('AddArrows %s' % coq_pairs(o[1]))
        else:
            out.append('FromNx [%s]%%nat %s' % ('; '.join('%d' % n for n in o[1]), coq_pairs(o[2])))
    return '[' + '; '.join(out) + ']'


def coq_sets(sets):
    return '[' + '; '.join('[' + '; '.join('%d' % v for v in s) + ']' for s in sets) + ']%nat'


def run_impl(prog):
    """run the program on the real class; returns dict with per-call trace, adjustment sets, oracle values"""
    import networkx as nx
    from networkx.algorithms.dag import descendants, ancestors
    from zepid.causal.causalgraph.dag import DirectedAcyclicGraph, DAGError
    # node labels are arbitrary hashables: letters, or the integers a networkx generator / adjacency matrix gives
    # (exposure 8, outcome 9, the others 0..7 -- 0 is a perfectly good node)
    if (len(prog) + sum(len(o[-1]) if isinstance(o[-1], (list, tuple)) else 1 for o in prog)) % 3 == 1:
        LABELS = [8, 9, 0, 1, 2, 3, 4, 5, 6, 7]
    else:
        LABELS = list(globals()['LABELS'])
    IDX = {l: i for i, l in enumerate(LABELS)}
    d = DirectedAcyclicGraph(exposure=LABELS[0], outcome=LABELS[1])
    trace, problems = [], []
    res_kinds = set()
    for o in prog:
        before_n, before_e = list(d.dag.nodes), list(d.dag.edges)
        try:
            if o[0] == 'arrow':
                d.add_arrow(LABELS[o[1]], LABELS[o[2]])
            elif o[0] == 'arrows':
                # `pairs` is any iterable of (source, endpoint): a list, a tuple, or a one-shot iterable (generator, zip, iterator)
                pairs = [(LABELS[u], LABELS[v]) for u, v in o[1]]
                kind = (len(pairs) + 2 * len(prog) + sum(u + v for u, v in o[1])) % 6
                if kind == 1:
                    pairs = tuple(pairs)
                elif kind == 2:
                    pairs = (pq for pq in pairs)
                elif kind == 3:
                    pairs = zip([pq[0] for pq in pairs], [pq[1] for pq in pairs])
                elif kind == 4:
                    pairs = iter(pairs)
                res_kinds.add(['list', 'tuple', 'generator', 'zip', 'iterator', 'list'][kind])
                d.add_arrows(pairs)
            else:
                net = nx.DiGraph()
                net.add_nodes_from(LABELS[n] for n in o[1])
                net.add_edges_from((LABELS[u], LABELS[v]) for u, v in o[2])
                try:
                    d.add_from_networkx(net)
                finally:
                    # the caller goes on using his own graph object (the next variant of the diagram): the diagram handed over
                    # -- or, after a rejected call, the diagram held before -- must not follow
                    net.remove_edges_from(list(net.edges))
                    net.add_edge('__caller_only_1__', '__caller_only_2__')
            ok = True
        except DAGError:
            ok = False
            if list(d.dag.edges) != before_e or list(d.dag.nodes) != before_n:
                problems.append(('rejected-call-changed-graph', '%r raised DAGError but dag.edges went from %r to %r'
                                 % (o, before_e, list(d.dag.edges))))
        except Exception as e:   # noqa
            ok = None
            problems.append(('call-raises-other', '%r raised %s: %s' % (o, type(e).__name__, str(e)[:80])))
        trace.append((ok, [IDX.get(n, 99) for n in d.dag.nodes], [(IDX.get(u, 99), IDX.get(v, 99)) for u, v in d.dag.edges]))   # 99: a node the program never added
        if len(prog) > 1 and len(trace) == (len(prog) + 1) // 2 and len(prog) % 2 == 0:
            # an intermediate listing, asked for before the diagram is complete: the final listing is that of the FINAL diagram
            try:
                d.calculate_adjustment_sets()
            except Exception:   # noqa  (exposure / outcome may not be in the diagram yet)
                pass
    res = {'trace': trace, 'problems': problems, 'integer_labels': LABELS[0] == 8, 'pair_containers': sorted(res_kinds)}
    try:
        d.calculate_adjustment_sets()
        if len(d.dag.edges) <= 5 and (len(prog) + len(d.dag.edges) + len(d.dag.nodes)) % 4 == 0:
            # the documented follow-up diagnostics between calculate_adjustment_sets() and reading the listing: they report
            # on OTHER graphs (reversed arrows) / draw, and must leave this graph's listing alone
            import contextlib
            import io
            res['diagnostics_called'] = True
            with contextlib.redirect_stdout(io.StringIO()):
                try:
                    chosen = d.minimal_adjustment_sets[0] if d.minimal_adjustment_sets else ()
                    d.assess_misdirections(chosen_adjustment_set=chosen)
                except Exception:   # noqa
                    pass
                try:
                    import matplotlib
                    matplotlib.use('Agg')
                    import matplotlib.pyplot as plt
                    d.draw_dag()
                    plt.close('all')
                except Exception:   # noqa
                    pass
        res['sets'] = [[IDX.get(v, 99) for v in s] for s in d.adjustment_sets]
        res['minimal'] = [[IDX.get(v, 99) for v in s] for s in d.minimal_adjustment_sets]
    except Exception as e:   # noqa
        res['sets'] = None
        res['error'] = '%s: %s' % (type(e).__name__, str(e)[:100])
    nodes = list(d.dag.nodes)
    res['nodes'] = [IDX.get(n, 99) for n in nodes]
    res['edges'] = [(IDX.get(u, 99), IDX.get(v, 99)) for u, v in d.dag.edges]
    res['desc'] = [sorted(IDX.get(v, 99) for v in descendants(d.dag, n)) for n in nodes]
    res['anc'] = [sorted(IDX.get(v, 99) for v in ancestors(d.dag, n)) for n in nodes]
    ug = d.dag.to_undirected()
    res['ureach'] = [sorted(IDX.get(v, 99) for v in nodes if v != n and nx.has_path(ug, n, v)) for n in nodes]
    res['is_dag'] = bool(nx.is_directed_acyclic_graph(d.dag))
    return res


def lab(v):
    return str(LABELS[v]) if 0 <= v < len(LABELS) else '<a node the program never added>'


def fs(sets):
    return frozenset(frozenset(s) for s in sets)


def show(sets):
    return '[' + ', '.join('{' + ','.join(lab(v) for v in s) + '}' for s in sorted(map(sorted, sets), key=lambda s: (len(s), s))) + ']'


def show_prog(prog):
    out = []
    for o in prog:
        if o[0] == 'arrow':
            out.append('add_arrow(%s,%s)' % (LABELS[o[1]], LABELS[o[2]]))
        elif o[0] == 'arrows':
            out.append('add_arrows([%s])' % ','.join('%s->%s' % (LABELS[u], LABELS[v]) for u, v in o[1]))
        else:
            out.append('add_from_networkx(nodes=[%s], edges=[%s])' % (','.join(LABELS[n] for n in o[1]),
                                                                      ','.join('%s->%s' % (LABELS[u], LABELS[v]) for u, v in o[2])))
    return '; '.join(out)


# ---------------------------------------------------------------------------------------- one batch
def unmask(m):
    return [i for i in range(m.bit_length()) if (m >> i) & 1]


def check_cases(ctx, cases, fails, tag, shard, chunk=3000):
    """cases: list of (kind, prog).  Runs implementation + Coq (pipelined: while Coq evaluates one chunk the
    implementation runs the next), compares.  Returns per-case flag 'the Coq model of the shipped loop loses a
    set here' (used to force these graphs into every order)."""
    import threading
    flags, pending = [], None

    def launch(k, part):
        impl = [run_impl(p) for _, p in part]
        exprs = ['case_out 0 1 %s %s' % (coq_prog(p), coq_sets(r['sets'] or [])) for (_, p), r in zip(part, impl)]
        box = {}
        th = threading.Thread(target=lambda: box.update(out=coq_eval(ctx, '%s_%d' % (tag, k), ['Zepid.Model.Dag'], exprs,
                                                                       shard=shard, timeout=1200)))
        th.start()
        return part, impl, th, box

    def finish(job):
        part, impl, th, box = job
        th.join()
        res, errs = box['out']
        if errs:
            ctx.broken_ties.append('coq evaluation failed: ' + errs[0][1][-400:])
        flags.extend(compare(ctx, part, impl, res, fails))

    for k in range(0, len(cases), chunk):
        job = launch(k, cases[k:k + chunk])
        if pending:
            finish(pending)
        pending = job
    if pending:
        finish(pending)
    return flags


def compare(ctx, cases, impl, res, fails):
    flags = []
    for (kind, prog), r, c in zip(cases, impl, res):
        ctx.evaluations += 1
        if c is None:
            flags.append(False)
            continue
        ctx.programs += 1
        m_trace, cands, masks, m_desc, m_anc, m_ureach = c
        sel = lambda m: [cands[i] for i in unmask(m)]   # noqa: E731
        m_alg, m_spec, m_old, m_path, m_min, m_min_impl = [sel(m) for m in masks[:6]]
        m_min_impl_len = masks[6]
        cov = ctx.extra.setdefault('cases_exercising_each_step', {})
        fam = kind.split('-')[0]
        for name, m in zip(ABLATIONS, masks[7:11]):
            if m != masks[0]:
                ctx.count('exercises:' + name)
                cov.setdefault(fam, {}).setdefault(name, 0)
                cov[fam][name] += 1
                if name == 'ancestors-of-adjustment-set' and m & ~masks[0]:
                    ctx.count('collider-off-the-ancestors-of-X-Y-with-proper-descendant-in-Z(ablation would list an inadmissible set)')
        m_desc, m_anc, m_ureach = [[unmask(m) for m in l] for l in (m_desc, m_anc, m_ureach)]
        nn, ne = len(r['nodes']), len(r['edges'])
        size = (nn, ne, sum(o[0] == 'nx' for o in prog), len(prog), sum(len(o[1]) if o[0] == 'arrows' else 1 for o in prog))
        payload = {'kind': kind, 'prog': [list(o) for o in prog], 'shown': show_prog(prog), 'impl': {k: r[k] for k in ('sets', 'nodes', 'edges')}}
        ctx.count('kind:' + kind)
        ctx.count('nodes:%d' % nn)
        for kc in r.get('pair_containers', []):
            ctx.count('add_arrows given a ' + kc)
        ctx.count('calls:%s' % ('1' if len(prog) == 1 else '2-4' if len(prog) <= 4 else '5+'))
        rejected = sum(1 for t in r['trace'] if t[0] is False)
        ctx.count('programs-with-rejected-call' if rejected else 'programs-all-accepted')
        where = 'program [%s]' % show_prog(prog)

        def fail(key, what):
            fails.append((size, '%s.%s' % (SITE, key), what + ' -- ' + where, payload))

        for k, w in r['problems']:
            fail('add.' + k, w)
        # ---- (a) correspondence of the state machine: accepted/rejected, dag.nodes, dag.edges after every call
        ctx.disagreements_checked += len(prog)
        for i, (ti, tm) in enumerate(zip(r['trace'], m_trace)):
            ok_m, (nodes_m, edges_m) = tm
            edges_m = [tuple(e) for e in edges_m]
            if ti[0] is None:
                break
            if ti[0] != ok_m:
                if ok_m:
                    fail('add.rejects-acyclic', 'call %d (%r) raised DAGError although the arrows keep the graph acyclic' % (i, prog[i]))
                else:
                    fail('add.accepts-cycle', 'call %d (%r) was accepted although it closes a directed cycle' % (i, prog[i]))
                break
            if set(ti[2]) != set(edges_m) or set(ti[1]) != set(nodes_m):
                fail('add.edges', 'after call %d dag.edges = %r, model %r' % (i, ti[2], edges_m))
                break
            if ti[1] != nodes_m or ti[2] != edges_m:
                fail('model.insertion-order', 'after call %d dag.nodes/dag.edges order %r %r, model %r %r' % (i, ti[1], ti[2], nodes_m, edges_m))
                break
        # ---- (c) oracle validation: networkx reachability = the model's
        ctx.oracle_checks += 3 * nn + 1
        if [sorted(x) for x in m_desc] != r['desc'] or [sorted(x) for x in m_anc] != r['anc']:
            fail('oracle.networkx-descendants-ancestors', 'networkx descendants/ancestors %r %r, model %r %r' % (r['desc'], r['anc'], m_desc, m_anc))
        if [sorted(x for x in row if x != n) for row, n in zip(m_ureach, r['nodes'])] != r['ureach']:
            fail('oracle.networkx-has_path', 'undirected has_path %r, model %r' % (r['ureach'], m_ureach))
        if not r['is_dag']:
            fail('state.not-a-dag', 'the stored graph is cyclic: %r' % (r['edges'],))
        # ---- internal consistency of the Coq side (theorem alg = spec = textbook paths, here far beyond 5 nodes)
        if fs(m_alg) != fs(m_spec) or fs(m_path) != fs(m_spec):
            fail('model.alg-vs-spec', 'Coq: repaired algorithm %s, walk specification %s, path specification %s' % (show(m_alg), show(m_spec), show(m_path)))
        loses = fs(m_old) != fs(m_alg)
        flags.append(loses)
        if loses:
            ctx.count('shipped-loop-model-loses-a-set')
        # ---- (b) the property on the implementation
        if r['sets'] is None:
            fail('calculate_adjustment_sets.raises', 'calculate_adjustment_sets raised %s' % r.get('error'))
            continue
        ctx.disagreements_checked += len(m_spec) + 2
        got, spec = fs(r['sets']), fs(m_spec)
        if 0 < len(spec) < 2 ** max(nn - 2, 0):
            ctx.nontriv([r['nodes'], r['edges']])
        ctx.sample({'program': show_prog(prog), 'adjustment_sets': show(r['sets']), 'minimal': show(r['minimal']), 'specification': show(m_spec)}, cap=4)
        if got - spec:
            fail('calculate_adjustment_sets.lists-inadmissible-set',
                 'lists %s which are not back-door admissible (specification: %s)' % (show(got - spec), show(spec)))
        if spec - got:
            diag = ('; the result equals the Coq model of the shipped moralisation loop (directed marriage arrows added while iterating)'
                    if got == fs(m_old) else '; the result differs from the model of the shipped loop as well: %s' % show(m_old))
            fail('calculate_adjustment_sets.loses-admissible-set',
                 'nodes %s arrows %s: omits the admissible set(s) %s; listed %s, specification %s%s'
                 % ([lab(n) for n in r['nodes']], ['%s->%s' % (lab(u), lab(v)) for u, v in r['edges']],
                    show(spec - got), show(got), show(spec), diag))
        if got != fs(m_alg) and got != fs(m_old):
            fail('model.correspondence', 'adjustment_sets %s equal neither the model %s nor the model of the shipped loop %s' % (show(got), show(m_alg), show(m_old)))
        elif r['sets'] != (m_alg if got == fs(m_alg) else m_old) and r['sets'] != m_old:
            fail('model.enumeration-order', 'adjustment_sets listed in the order %r, model %r' % (r['sets'], m_alg))
        # minimal sets = the listed sets of smallest size (Coq minimal_of applied to what was listed) ...
        mi = m_min_impl
        if fs(mi) != fs(r['minimal']) or len(r['minimal']) != len(mi) or m_min_impl_len != len(mi):
            fail('minimal_adjustment_sets.not-the-smallest-listed', 'minimal_adjustment_sets %s, smallest of the listed sets %s' % (show(r['minimal']), show(mi)))
        # ... and equal to the minimal sets of the specification
        if got == spec and fs(m_min) != fs(r['minimal']):
            fail('minimal_adjustment_sets.value', 'minimal_adjustment_sets %s, model %s' % (show(r['minimal']), show(m_min)))
    return flags


# ---------------------------------------------------------------------------------------- generators
def edges_of(vec):
    return [(i, j) if o == 1 else (j, i) for (i, j), o in zip(FREE5, vec) if o]


def prog_for(order, vec, rng):
    es = edges_of(vec)
    if order == 'lex':
        return [('arrows', es)]
    if order == 'rev':
        return [('arrows', es[::-1])]
    if order == 'shuf':
        es = es[:]
        rng.shuffle(es)
        return [('arrow', u, v) for u, v in es]
    if order == 'nx':
        ns = list(range(5))
        rng.shuffle(ns)
        es = [(0, 1)] + es
        rng.shuffle(es)
        return [('nx', ns, es)]
    raise AssertionError(order)


def exhaustive_part(ctx, fails):
    vecs = list(itertools.product(range(3), repeat=9))
    lexvecs = vecs
    if ctx.quick:
        # quick tier: every acyclic arrow set, and a sample of 3000 of the cyclic ones (all of them in the thorough tier);
        # which vectors are acyclic is decided by the Coq model (one boolean per vector, same lexicographic order)
        res, errs = coq_eval(ctx, 'c18dagbits', ['Zepid.Model.Dag'], ['map (fun os => is_dag (graph5 os)) all_orient5'], shard=1)
        if res[0] is not None and len(res[0]) == len(vecs):
            acyc = [v for v, b in zip(vecs, res[0]) if b]
            cyc = [v for v, b in zip(vecs, res[0]) if not b]
            ctx.extra['five_node_arrow_sets'] = {'acyclic (Coq)': len(acyc), 'cyclic (Coq)': len(cyc), 'cyclic sampled in quick tier': min(3000, len(cyc))}
            lexvecs = acyc + ctx.rng.sample(cyc, min(3000, len(cyc)))
    cases = [('5node-lex', prog_for('lex', v, ctx.rng)) for v in lexvecs]
    flags = check_cases(ctx, cases, fails, 'c18lex', shard=250)
    flagged = [v for v, f in zip(lexvecs, flags) if f]
    ctx.extra['five_node_graphs_on_which_model_of_shipped_loop_loses_sets_lex_order'] = len(flagged)
    for order in ('rev', 'shuf', 'nx'):
        if ctx.quick:
            pick = ctx.rng.sample(vecs, 1000) + flagged
        else:
            pick = vecs
        cases = [('5node-' + order, prog_for(order, v, ctx.rng)) for v in pick]
        if not ctx.quick and order != 'rev':       # one more independent shuffle of every graph
            for rep in range(1):
                cases += [('5node-' + order, prog_for(order, v, ctx.rng)) for v in vecs]
        check_cases(ctx, cases, fails, 'c18' + order, shard=250)


def random_program(rng):
    n = rng.choice([2, 3, 4, 4, 5, 5, 6, 6, 7, 7, 8, 8, 8])
    perm = list(range(n))
    rng.shuffle(perm)                      # hidden topological order: most arrows respect it
    rank = {v: i for i, v in enumerate(perm)}
    dens = rng.choice([0.2, 0.35, 0.5, 0.7])
    prog, have = [], [(0, 1)]

    def arrow():
        k = rng.random()
        if k < 0.10 and have:              # reverse an existing arrow: 2-cycle
            u, v = rng.choice(have)
            return (v, u)
        if k < 0.13:                       # self-loop
            u = rng.randrange(n)
            return (u, u)
        u, v = rng.sample(range(n), 2)
        if k < 0.25:                       # any direction: may close a longer cycle
            return (u, v)
        if (rank[u] > rank[v]) != (rank[0] > rank[1]):   # orient consistently with X before Y
            u, v = v, u
        return (u, v) if rank[0] < rank[1] else (v, u)

    target = max(1, int(dens * n * (n - 1) / 2))
    while len(have) - 1 < target and len(prog) < 14:
        k = rng.random()
        if k < 0.45:
            u, v = arrow()
            prog.append(('arrow', u, v))
            have.append((u, v))
        elif k < 0.9:
            ps = [arrow() for _ in range(rng.randint(1, 5))]
            prog.append(('arrows', ps))
            have.extend(ps)
        else:
            drop = rng.choice([0, 1])
            ns = list(range(n)) if rng.random() < 0.8 else [v for v in range(n) if v != drop]
            rng.shuffle(ns)
            es = [(u, v) for u in ns for v in ns if u != v and rng.random() < dens / 2 and
                  ((rank[u] < rank[v]) or rng.random() < 0.03)]
            if rng.random() < 0.8 and 0 in ns and 1 in ns and (1, 0) not in es and (0, 1) not in es:
                es.append((0, 1))
            rng.shuffle(es)
            prog.append(('nx', ns, es))
            have = list(es)
    return prog


def random_part(ctx, fails):
    n = 300 if ctx.quick else 4000
    cases = [('random', random_program(ctx.rng)) for _ in range(n)]
    check_cases(ctx, cases, fails, 'c18rnd', shard=20)


# templates: arrows over role names; X -> Y is always present.  Every template has a collider with descendants
TEMPLATES = {
    6: {'M+child': 'aX ac dc dY ce',
        'butterfly+child': 'aX ac dc dY cX cY ce',
        'two-colliders': 'aX ac dc dY ae de',
        'M+child-into-Y-parent': 'aX ac dc dY ce de',
        'collider-then-chain': 'aX ac dc de eY'},
    7: {'M+grandchild': 'aX ac dc dY ce ef',
        'M+two-children': 'aX ac dc dY ce cf',
        'collider-chain-into-child-of-Y': 'aX ac bc bd Yd ce',
        'M+child+confounder': 'aX ac dc dY ce fX fY',
        # a collider with FOUR parents (every pair of them must be married, not only neighbours in some listing order)
        'four-parent-collider': 'ae be ce de aX cY'},
    8: {'double-M+child': 'aX ac bc bd fd fY ce',
        'five-parent-collider': 'af bf cf df ef aX cY',
        'four-parent-collider+child': 'ae be ce de aX cY ef',
        'M+child+grandchild+confounder': 'aX ac bc bY ce ef gX gY',
        'M+child+two-confounders': 'aX ac dc dY ce fX fY bX bY'},
}


def styled(rng, n, es, style=None):
    es = es[:]
    rng.shuffle(es)
    style = style or rng.choice(['arrows', 'arrow', 'nx', 'arrows2'])
    if style == 'arrows':
        return [('arrows', es)]
    if style == 'arrow':
        return [('arrow', u, v) for u, v in es]
    if style == 'arrows2':
        k = rng.randint(0, len(es))
        return [('arrows', es[:k]), ('arrows', es[k:])]
    ns = list(range(n))
    rng.shuffle(ns)
    return [('nx', ns, [(0, 1)] + es if rng.random() < 0.5 else es + [(0, 1)])]


def template_program(rng, n, name, perm=None, p_extra=0.0):
    roles = sorted(set(TEMPLATES[n][name].replace(' ', '')) - {'X', 'Y'})
    others = list(range(2, n))
    if perm is None:
        perm = others[:]
        rng.shuffle(perm)
    node = dict(zip(roles, perm))
    node.update(X=0, Y=1)
    es = [(node[t[0]], node[t[1]]) for t in TEMPLATES[n][name].split()]
    if p_extra:
        # random linear extension of template + X->Y, extra arrows follow it
        base = es + [(0, 1)]
        order, left = [], set(range(n))
        while left:
            free = [v for v in left if not any(b == v and a in left for a, b in base)]
            v = rng.choice(sorted(free))
            order.append(v)
            left.discard(v)
        rank = {v: i for i, v in enumerate(order)}
        have = set(base)
        for u in range(n):
            for v in range(n):
                if rank[u] < rank[v] and (u, v) not in have and rng.random() < p_extra:
                    es.append((u, v))
    return styled(rng, n, es)


def structured_part(ctx, fails):
    rng = ctx.rng
    cases = []
    reps = {6: (2, 10), 7: (1, 12), 8: (1, 5)} if ctx.quick else {6: (12, 80), 7: (6, 100), 8: (4, 50)}
    for n, tpls in TEMPLATES.items():
        pure, crossed = reps[n]
        for name in tpls:
            perms = list(itertools.permutations(range(2, n))) if n == 6 else [None] * 24
            for perm in perms:                      # the bare template under every (6 nodes) / 24 random role assignments
                for _ in range(pure):
                    cases.append(('template-%d-%s' % (n, name), template_program(rng, n, name, perm and list(perm))))
            for _ in range(crossed):                # crossed with random extra arrows
                for p in (0.1, 0.25):
                    cases.append(('template-%d-%s' % (n, name), template_program(rng, n, name, None, p)))
    check_cases(ctx, cases, fails, 'c18tpl', shard=25, chunk=1500)


def dense_part(ctx, fails):
    rng = ctx.rng
    cases = []
    for n, k in ((6, 160), (7, 90), (8, 40)) if ctx.quick else ((6, 2500), (7, 1500), (8, 600)):
        for _ in range(k):
            order = list(range(n))
            rng.shuffle(order)
            if order.index(0) > order.index(1):     # keep X before Y so that X -> Y is compatible
                i, j = order.index(0), order.index(1)
                order[i], order[j] = order[j], order[i]
            p = rng.choice([0.15, 0.2, 0.3, 0.4, 0.5])
            es = [(order[i], order[j]) for i in range(n) for j in range(i + 1, n)
                  if (order[i], order[j]) != (0, 1) and rng.random() < p]
            cases.append(('dense-%d' % n, styled(rng, n, es)))
    check_cases(ctx, cases, fails, 'c18dns', shard=20, chunk=1500)


def report(ctx, fails):
    fails.sort(key=lambda f: f[0])
    seen = set()
    for size, key, what, payload in fails:
        if key in seen:
            continue
        seen.add(key)
        n = sum(1 for f in fails if f[1] == key)
        ctx.violation(key, what + ' [%d failing programs; smallest shown]' % n, payload)


def run(ctx):
    fails = []
    structured_part(ctx, fails)
    dense_part(ctx, fails)
    exhaustive_part(ctx, fails)
    random_part(ctx, fails)
    report(ctx, fails)


def replay(ctx, payload):
    fails = []
    if payload and payload.get('prog'):
        prog = [('arrow', o[1], o[2]) if o[0] == 'arrow' else
                ('arrows', [tuple(p) for p in o[1]]) if o[0] == 'arrows' else
                ('nx', list(o[1]), [tuple(p) for p in o[2]]) for o in payload['prog']]
        check_cases(ctx, [(payload.get('kind', 'replay'), prog)], fails, 'c18replay', shard=1)
    else:
        structured_part(ctx, fails)
        dense_part(ctx, fails)
        exhaustive_part(ctx, fails)
        random_part(ctx, fails)
    report(ctx, fails)
