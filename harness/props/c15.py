"""C15 -- g-estimation of structural nested mean models returns the root of its estimating equations."""
import itertools
import math
import warnings
from fractions import Fraction

import numpy as np
import pandas as pd

from common import coq_eval, frac, close, qlit, qlist, TOL_ARITH, TOL_FIT, TOL_SEARCH

PROP_FILE = 'theories/Properties/C15.v'
MODEL_FILES = ['theories/Model/Snm.v']
GEN_GROUPS = []
RULE = ('frames of 24-60 rows with 1-2 binary/ternary and 1 continuous covariate, binary treatment depending on them, '
        'continuous (2 decimals) or binary outcome; structural nested models A | A + A:L0 | A + A:W0 | A + A:L0 + A:W0 '
        '(1-3 parameters); optional integer weights, optional missing outcomes with a missing_model (stabilised or not). '
        'For every case the closed-form fit is run with spies on propensity_score (fitted Pr(A=1|L)) and np.linalg.solve '
        '(lhm, rha); the estimating-equation residuals, lhm and rha are evaluated IN COQ from the rows, the code\'s own '
        'fitted pi and psi (exact rationals of the floats) and must be ~0 relative to scale / equal. Saturated cases: '
        'categorical covariates, saturated exposure model, one-parameter SNM: psi vs the Coq-evaluated n p(1-p)-weighted '
        'average of stratum mean differences, fitted pi vs Coq-evaluated weighted cell proportions. Search solver on a '
        'subset: default start and a start near the closed form; its result is re-fitted (augmented exposure model) to '
        'validate the hypothesis of snm_search_root. Multi-step HISTORIES on one object (fit; missing_model; fit -- fit; exposure_model(other); '
        'fit -- fit; structural_nested_model(other); fit -- missing_model(m1); fit; missing_model(m2, stabilized flipped); fit; with and '
        'without weights): the last fit is compared with a FRESH object given the final specification (psi, lhm/rha vs the Coq model on the '
        'fresh propensities, Coq residual at the history object\'s psi). non-trivial = distinct (frame, SNM, weights, missing, solver)')
TRUSTED = ['np.linalg.solve returns psi with lhm psi = rha (oracle of snm_estimating_eq; the Coq-evaluated residual is the validation)',
           'statsmodels GLM Binomial with freq_weights solves its weighted score equations (validated numerically per case); '
           'with a saturated design it returns the weighted cell proportions (validated against Coq-evaluated cells)',
           'patsy dmatrix of "A + A:L - 1" has columns A, A*L (validated per case against the model\'s lhm/rha)',
           'uniqueness of the logistic MLE (an analytic fact outside Q): coefficient 0 on the H(psi) terms means the augmented fit '
           'equals the exposure fit -- the run checks the fitted probabilities agree instead']

IMPORTS = ['Zepid.Base.QSum', 'Zepid.Base.QUtil', 'Zepid.Base.Rows', 'Zepid.Model.Snm']
SNMS = [('A', []), ('A + A:L0', ['L0']), ('A + A:W0', ['W0']), ('A + A:L0 + A:W0', ['L0', 'W0']),
        # one-parameter models whose single term is a treatment-covariate product (no main effect): closed form only,
        # the search solver does not accept a structural model without the main effect
        ('A:L0', ['L0']), ('A:W0', ['W0'])]


def has_main(f):
    return 0 if f.startswith('A:') else 1


# ------------------------------------------------------------------------------------------------ data
def make_frame(rng, saturated=False):
    rs = np.random.RandomState(rng.randrange(2 ** 31))
    if saturated:
        n_cov = rng.choice([1, 2])
        ar = [rng.choice([2, 3]) for _ in range(n_cov)]
        strata = list(itertools.product(*[range(k) for k in ar]))
        rows = []
        for k, lv in enumerate(strata):
            for a in (0, 1):
                for _ in range(rng.randint(2, 4)):
                    rows.append(list(lv) + [a, k])
        rng.shuffle(rows)
        df = pd.DataFrame(rows, columns=['L%d' % i for i in range(n_cov)] + ['A', 'K'])
        n = len(df)
        lin = sum(rng.uniform(-0.7, 0.7) * df['L%d' % i] for i in range(n_cov))
        covs = ['L%d' % i for i in range(n_cov)]
        emodel = ' * '.join('C(L%d)' % i for i in range(n_cov))
    else:
        n = rng.randint(24, 60)
        df = pd.DataFrame({'L0': rs.binomial(1, 0.5, n), 'W0': np.round(rs.normal(size=n), 2)})
        if rng.random() < 0.5:
            df['L1'] = rs.randint(0, 3, n)
        covs = list(df.columns)
        lin = sum(rng.uniform(-0.6, 0.6) * df[c] for c in covs)
        df['A'] = rs.binomial(1, 1 / (1 + np.exp(-np.asarray(lin))))
        if df['A'].sum() < 4 or (1 - df['A']).sum() < 4:
            df.loc[df.index[:4], 'A'] = 1
            df.loc[df.index[4:8], 'A'] = 0
        df['K'] = 0
        emodel = ' + '.join(covs)
        # an effect modifier of the structural model need not be a linear term of the exposure model: sometimes W0 enters
        # the exposure model only through a categorisation, or not at all (the estimating equations do not care)
        k = rng.random()
        if k < 0.25 and 'W0' in covs:
            df['W0c'] = (df['W0'] > df['W0'].median()).astype(int)
            emodel = ' + '.join([c for c in covs if c != 'W0'] + ['C(W0c)'])
        elif k < 0.4 and len(covs) > 1:
            emodel = ' + '.join(covs[1:])
        elif k < 0.58:
            # an exposure model without an intercept is a legitimate patsy formula: its residuals A - pi need not sum to zero
            emodel = ' + '.join(covs) + ' - 1'
    outcome = rng.choice(['continuous', 'continuous', 'binary'])
    eff = rng.uniform(-1.5, 2.5)
    mu = 1 + np.asarray(lin) + df['A'] * (eff + 0.6 * df[covs[0]])
    if outcome == 'continuous':
        df['Y'] = np.round(mu + rs.normal(size=n), 2)
    else:
        df['Y'] = rs.binomial(1, 1 / (1 + np.exp(-(np.asarray(mu) - 1.5)))).astype(float)
    weights = rng.random() < 0.4
    if weights:
        df['wt'] = rs.randint(1, 4, n)
    elif rng.random() < 0.5:
        # a bystander column the analysis never names, called like a scratch column of the library: it is data, not a weight
        df['_w_'] = rs.randint(1, 9, n)
    missing = rng.choice([None, None, 'mcar', 'model', 'model_unstab'])
    if missing:
        m = rs.binomial(1, 1 / (1 + np.exp(-(-1.5 + 0.6 * df['A'] + 0.3 * df[covs[0]]))))
        if m.sum() == 0:
            m[rng.randrange(n)] = 1
        if saturated:      # keep every (stratum, arm) cell non-empty among the complete rows
            for _, g in df.groupby(['K', 'A']):
                if m[g.index].all():
                    m[g.index[0]] = 0
        df.loc[m == 1, 'Y'] = np.nan
    wunit = 1.0
    if weights and rng.random() < 0.5:
        # the unit of a weights column is arbitrary (normalised to sum to one, sampling fractions per million, ...):
        # every estimating equation is homogeneous in it
        wunit = rng.choice([1e-6, 1e-3, 1.0 / float(df['wt'].sum()), 1e3])
        df['wt'] = df['wt'] * wunit
    idx = rng.choice(['range', 'shift', 'shuffle'])
    if idx == 'shift':
        df.index = range(300, 300 + n)
    elif idx == 'shuffle':
        ix = list(range(n))
        rng.shuffle(ix)
        df.index = ix
    meta = {'n': n, 'covs': covs, 'emodel': emodel, 'outcome': outcome, 'weights': weights, 'missing': missing,
            'saturated': saturated, 'index': idx, 'mmodel': 'A + ' + covs[0], 'wunit': wunit}
    return df, meta


# ------------------------------------------------------------------------------------------------ running zEpid
class Spies:
    """records the GLMs fitted through g_estimation.propensity_score and the arguments of np.linalg.solve"""

    def __enter__(self):
        import zepid.causal.snm.g_estimation as G
        self.G, self.ps, self.solve = G, G.propensity_score, np.linalg.solve
        self.fits, self.solves = [], []

        def ps(df, model, weights=None, print_results=True):
            fm = self.ps(df, model, weights=weights, print_results=print_results)
            self.fits.append((model, weights, fm, df))
            return fm

        def solve(a, b, *args, **kw):
            x = self.solve(a, b, *args, **kw)
            self.solves.append((np.array(a, dtype=float), np.array(b, dtype=float), np.array(x, dtype=float)))
            return x
        G.propensity_score = ps
        np.linalg.solve = solve
        return self

    def __exit__(self, *exc):
        self.G.propensity_score = self.ps
        np.linalg.solve = self.solve
        return False


def build(df, meta, snm_formula):
    from zepid.causal.snm import GEstimationSNM
    g = GEstimationSNM(df, exposure='A', outcome='Y', weights='wt' if meta['weights'] else None)
    g.exposure_model(meta['emodel'], print_results=False)
    g.structural_nested_model(snm_formula)
    if meta['missing'] in ('model', 'model_unstab'):
        g.missing_model(meta['mmodel'], stabilized=meta['missing'] == 'model', print_results=False)
    return g


def run_closed(df, meta, snm_formula, mods):
    """-> dict(psi, labels, rows (complete rows as the solver saw them), pi, w, lhm, rha) or {'error'}"""
    try:
        with Spies() as sp:
            g = build(df, meta, snm_formula)
            g.fit(solver='closed')
        psi = [float(x) for x in np.asarray(g.psi).ravel()]
        emod = [f for f in sp.fits if f[0].startswith('A ~')][-1]
        # the complete rows and their total weight, from the object's public state (NOT from what was handed to the
        # exposure model): rows with an observed outcome, weight = user weight x inverse probability of missingness weight
        full = g.df
        keep = full['Y'].notna().values
        d = full[keep]
        w = np.ones(len(d))
        if meta['weights']:
            w = w * np.asarray(d['wt'], dtype=float)
        if g.ipmw is not None:
            w = w * np.asarray(g.ipmw, dtype=float)[keep]
        if len(emod[3]) != len(d) or not np.array_equal(np.asarray(emod[3]['A']), np.asarray(d['A'])):
            raise AssertionError('the exposure model was not fitted on the complete rows')
        pi = np.asarray(emod[2].predict(d), dtype=float)
        lhm, rha, x = [s for s in sp.solves if s[0].shape == (len(psi), len(psi))][-1]
        # weighted score equations of the exposure GLM (oracle validation)
        X = np.asarray(emod[2].model.exog, dtype=float)
        score = X.T @ (w * (np.asarray(d['A'], dtype=float) - pi))
        sscale = np.abs(X).T @ (w * np.maximum(pi, 1 - pi))
        return {'psi': psi, 'labels': list(g.psi_labels), 'A': d['A'].astype(int).tolist(), 'Y': [float(v) for v in d['Y']],
                'V': [[1.0] * has_main(snm_formula) + [float(d[m].iloc[i]) for m in mods] for i in range(len(d))], 'K': d['K'].astype(int).tolist(),
                'pi': pi.tolist(), 'w': w.tolist(), 'lhm': lhm.ravel().tolist(), 'rha': np.asarray(rha).ravel().tolist(),
                'score_rel': float(np.max(np.abs(score) / np.maximum(sscale, 1e-300))), 'frame': d}
    except Exception as ex:   # noqa
        return {'error': '%s: %s' % (type(ex).__name__, str(ex)[:160])}


def run_history(df, meta, steps):
    """apply a multi-step history of public calls to ONE object; returns what its LAST closed-form fit produced:
    {'psi', 'labels', 'lhm', 'rha'} (lhm/rha = the arguments of its last np.linalg.solve) or {'error'}"""
    from zepid.causal.snm import GEstimationSNM
    try:
        with Spies() as sp, warnings.catch_warnings():
            warnings.simplefilter('ignore')
            g = GEstimationSNM(df, exposure='A', outcome='Y', weights='wt' if meta['weights'] else None)
            nsolve = 0
            for st in steps:
                if st[0] == 'exposure_model':
                    g.exposure_model(st[1], print_results=False)
                elif st[0] == 'snm':
                    g.structural_nested_model(st[1])
                elif st[0] == 'missing_model':
                    g.missing_model(st[1], stabilized=st[2], print_results=False)
                elif st[0] == 'fit':
                    g.fit(solver='closed')
                    nsolve += 1
                else:
                    raise AssertionError(st)
        psi = [float(x) for x in np.asarray(g.psi).ravel()]
        lhm, rha, x = [q for q in sp.solves if q[0].shape == (len(psi), len(psi))][-1]
        return {'psi': psi, 'labels': list(g.psi_labels), 'lhm': lhm.ravel().tolist(), 'rha': np.asarray(rha).ravel().tolist(),
                'fits': nsolve}
    except Exception as ex:   # noqa
        return {'error': '%s: %s' % (type(ex).__name__, str(ex)[:160])}


def fmt_steps(steps):
    out = []
    for st in steps:
        if st[0] == 'fit':
            out.append('fit()')
        elif st[0] == 'missing_model':
            out.append('missing_model(%r, stabilized=%s)' % (st[1], st[2]))
        elif st[0] == 'snm':
            out.append('structural_nested_model(%r)' % st[1])
        else:
            out.append('exposure_model(%r)' % st[1])
    return '; '.join(out)


HISTORY_KINDS = ['fit-missing-fit', 'fit-exposure-fit', 'fit-snm-fit', 'missing-fit-missing-fit']


def make_history(rng, kind, want_weights):
    """-> (df, final_meta, final_snm, final_mods, steps).  The frame has missing outcomes (so missing_model may be
    called at any point); final_* describe the specification in force at the LAST fit, which is what a fresh object
    is given."""
    for _ in range(400):
        df, meta = make_frame(rng)
        if meta['missing'] is None or meta['weights'] != want_weights:
            continue
        if all(identifiable(df, m) for _, m in SNMS[:4]):
            break
    covs = meta['covs']
    e0 = meta['emodel']
    others = [' + '.join(covs[:-1]) if len(covs) > 1 else '1', covs[0], e0 + ' + L0:W0']
    e1 = rng.choice([e for e in others if e != e0])
    (f0, m0), (f1, m1) = rng.sample(SNMS[:4], 2)
    mm1, mm2 = rng.sample(['A + L0', 'A + W0', 'A + L0 + W0', 'A'], 2)
    stab = rng.random() < 0.5
    steps = [('exposure_model', e0), ('snm', f0)]
    final = dict(meta, missing=None)
    fsnm, fmods = f0, m0
    pre_missing = kind in ('fit-exposure-fit', 'fit-snm-fit') and rng.random() < 0.5
    if pre_missing:
        steps.append(('missing_model', mm1, stab))
        final.update(missing='model' if stab else 'model_unstab', mmodel=mm1)
    if kind == 'fit-missing-fit':
        steps += [('fit',), ('missing_model', mm1, stab), ('fit',)]
        final.update(missing='model' if stab else 'model_unstab', mmodel=mm1)
    elif kind == 'fit-exposure-fit':
        steps += [('fit',), ('exposure_model', e1), ('fit',)]
        final.update(emodel=e1)
    elif kind == 'fit-snm-fit':
        steps += [('fit',), ('snm', f1), ('fit',)]
        fsnm, fmods = f1, m1
    elif kind == 'missing-fit-missing-fit':
        steps += [('missing_model', mm1, stab), ('fit',), ('missing_model', mm2, not stab), ('fit',)]
        final.update(missing='model_unstab' if stab else 'model', mmodel=mm2)
    else:
        raise AssertionError(kind)
    final['history'] = kind
    return df, final, fsnm, fmods, steps


VERBOSE = [0]
VERBOSE_DIFF = []


def run_search(df, meta, snm_formula, start=None):
    try:
        g = build(df, meta, snm_formula)
        with warnings.catch_warnings():
            warnings.simplefilter('ignore')       # statsmodels re-enables its separation warnings on every fit
            VERBOSE[0] += 1
            if VERBOSE[0] % 2 == 0:
                # the documented iteration log (verbose_solver=True) is a display option: the root found is the same
                import io
                import contextlib
                with contextlib.redirect_stdout(io.StringIO()):
                    g.fit(solver='search', starting_value=start, verbose_solver=True)
                gq = build(df, meta, snm_formula)
                gq.fit(solver='search', starting_value=start)
                pv, pq = np.asarray(g.psi, dtype=float).ravel(), np.asarray(gq.psi, dtype=float).ravel()
                if len(pv) != len(pq) or np.max(np.abs(pv - pq)) > 1e-12 * max(1.0, float(np.max(np.abs(pq)))):
                    VERBOSE_DIFF.append(([float(x) for x in pv], [float(x) for x in pq]))
            else:
                g.fit(solver='search', starting_value=start)
        o = g._scipy_solver_obj
        return {'psi': [float(x) for x in np.asarray(g.psi).ravel()], 'fun': float(o.fun), 'success': bool(o.success), 'nit': int(o.nit)}
    except Exception as ex:   # noqa
        return {'error': '%s: %s' % (type(ex).__name__, str(ex)[:160])}


def augmented_fit(cl, psi, mods, emodel):
    """re-fit the exposure model augmented with H(psi) V_j at psi (what the search solver's last evaluation did);
    returns (alphas, max |p - pi|)"""
    import statsmodels.api as sm
    import statsmodels.formula.api as smf
    d = cl['frame'].copy()
    V = np.asarray(cl['V'], dtype=float)
    d['H_psi'] = np.asarray(cl['Y']) - np.asarray(cl['A']) * (V @ np.asarray(psi))
    terms = ['H_psi'] + ['H_psi:' + m for m in mods]
    d['__w__'] = cl['w']
    with warnings.catch_warnings():
        warnings.simplefilter('ignore')
        fm = smf.glm('A ~ ' + emodel + ' + ' + ' + '.join(terms), d, family=sm.families.family.Binomial(), freq_weights=d['__w__']).fit()
    p = np.asarray(fm.predict(d), dtype=float)
    return [float(fm.params[t]) for t in terms], float(np.max(np.abs(p - np.asarray(cl['pi']))))


def coq_rows(cl):
    out = []
    for a, y, w, p, v, k in zip(cl['A'], cl['Y'], cl['w'], cl['pi'], cl['V'], cl['K']):
        out.append('SR %s %s %s %s %s %d' % ('true' if a == 1 else 'false', qlit(y), qlit(w), qlit(p), qlist(v), k))
    return '[' + '; '.join(out) + ']'


def payload_of(df, meta, snm_formula, extra=None):
    p = {'data': {c: [None if (isinstance(v, float) and v != v) else (v.item() if hasattr(v, 'item') else v) for v in df[c].tolist()]
                  for c in df.columns},
         'index': [int(i) for i in df.index], 'meta': meta, 'snm': snm_formula}
    p.update(extra or {})
    return p


def frame_of(payload):
    d = pd.DataFrame({c: [float('nan') if v is None else v for v in vals] for c, vals in payload['data'].items()})
    d.index = payload['index']
    return d


def rel(x, y):
    return abs(x - y) / max(1.0, abs(x), abs(y))


# ------------------------------------------------------------------------------------------------ the run
def identifiable(df, mods, main=1):
    """valid input only: among the treated complete rows the modifiers (1, mods) are linearly independent with room to
    spare (otherwise the structural parameters are not identified and lhm is singular by construction)"""
    c = df[df['Y'].notna() & (df['A'] == 1)]
    if len(c) < 3 * (len(mods) + 1):
        return False
    V = np.column_stack([np.ones(len(c))] * main + [np.asarray(c[m], dtype=float) for m in mods])
    sv = np.linalg.svd(V, compute_uv=False)
    return bool(sv[-1] > 0.15 * sv[0] / (len(mods) + 1)) and all(c[m].nunique() > 1 for m in mods) and \
        all(min((c[m] == v).sum() for v in (0, 1)) >= 2 for m in mods if m.startswith('L'))


def gen_cases(ctx):
    n_gen, n_sat = (22, 10) if ctx.quick else (260, 100)
    cases = []
    for i in range(n_gen):
        f, mods = SNMS[i % len(SNMS)]
        for _ in range(50):
            df, meta = make_frame(ctx.rng)
            if identifiable(df, mods, has_main(f)):
                break
        cases.append((df, meta, f, mods))
    for i in range(n_sat):
        df, meta = make_frame(ctx.rng, saturated=True)
        cases.append((df, meta, 'A', []))
    # multi-step histories on one object: the LAST fit must be what a fresh object with the final specification gives
    for i in range(8 if ctx.quick else 80):
        df, meta, f, mods, steps = make_history(ctx.rng, HISTORY_KINDS[i % len(HISTORY_KINDS)], want_weights=(i // len(HISTORY_KINDS)) % 2 == 1)
        cases.append((df, meta, f, mods, steps))
    return cases


def search_plan(ctx, cases):
    """which cases also run the (slow) search solver: index -> list of ('default' | 'near')"""
    budget = {1: 6, 2: 4, 3: 2} if ctx.quick else {1: 40, 2: 30, 3: 12}
    plan = {}
    for i, case in enumerate(cases):
        df, meta, f, mods = case[:4]
        dim = len(mods) + 1
        if len(case) > 4 or not has_main(f):
            continue
        if budget.get(dim, 0) > 0:
            budget[dim] -= 1
            plan[i] = ['default', 'near'] + (['mixed'] if dim >= 2 and budget[dim] % 2 == 0 else [])
    return plan


def check_cases(ctx, fails, cases, plan):
    exprs, work = [], []
    for i, case in enumerate(cases):
        df, meta, f, mods = case[:4]
        steps = case[4] if len(case) > 4 else None
        cl = run_closed(df, meta, f, mods)          # a FRESH object with the (final) specification
        ctx.evaluations += 1
        dim = len(mods) + has_main(f)
        ctx.count('snm:%d-param%s' % (dim, '' if has_main(f) else ' (product term only)'))
        ctx.count('outcome:' + meta['outcome'])
        ctx.count('weights:%s' % meta['weights'])
        ctx.count('weights unit:%g' % meta.get('wunit', 1.0))
        ctx.count('missing:%s' % meta['missing'])
        ctx.count('exposure-model:' + ('saturated' if meta['saturated'] else 'parametric'))
        pay = payload_of(df, meta, f, {'steps': [list(st) for st in steps]} if steps else None)
        hist = None
        if steps:
            hist = run_history(df, meta, steps)
            hist['steps'] = steps
            ctx.evaluations += 1
            ctx.count('history:%s,weights=%s' % (meta['history'], meta['weights']))
        if 'error' in cl:
            fails.append((meta['n'], 'GEstimationSNM.closed.raises',
                          'GEstimationSNM(%r, weights=%s, missing=%s).fit() raised %s' % (f, meta['weights'], meta['missing'], cl['error']), pay))
            continue
        searches = []
        for mode in plan.get(i, []):
            start = None
            if mode == 'near':
                start = [p * (1 + 0.05 * (1 if k % 2 == 0 else -1)) + 0.02 for k, p in enumerate(cl['psi'])]
            if mode == 'mixed':      # the docstring's own kind of start: some entries given, the others left at zero
                start = [cl['psi'][0] * 1.05 + 0.02] + [0.0] * (len(cl['psi']) - 1)
            s = run_search(df, meta, f, start)
            ctx.evaluations += 1
            while VERBOSE_DIFF:
                pv, pq = VERBOSE_DIFF.pop()
                fails.append((meta['n'], 'GEstimationSNM.search.verbose-changes-result', 'fit(solver="search", verbose_solver=True) for %r returned psi=%r, '
                              'the same search without the iteration log %r' % (f, pv, pq), pay))
            ctx.count('search:%s:%d-param' % (mode, dim))
            if 'error' in s:
                fails.append((meta['n'], 'GEstimationSNM.search.raises', 'fit(solver="search") for %r raised %s' % (f, s['error']), pay))
                continue
            try:
                s['alpha'], s['dp'] = augmented_fit(cl, s['psi'], mods, meta['emodel'])
            except Exception as ex:   # noqa  (e.g. perfect separation at a diverged psi)
                s['alpha'], s['dp'] = None, float('inf')
                s['refit_error'] = '%s: %s' % (type(ex).__name__, str(ex)[:80])
            s['mode'], s['start'] = mode, start
            searches.append(s)
        rows = coq_rows(cl)
        e = 'let rows := %s in (map Qflat (snm_out %d %s rows)' % (rows, dim, qlist(cl['psi']))
        e += ', ' + ('[Qpair (snm_wavg (base_rows rows))], map (fun s => Qpair (pS s (base_rows rows))) (seq 0 %d)'
                     % (max(cl['K']) + 1) if meta['saturated'] else '(nil : list (list Z)), (nil : list (list Z))')
        e += ', (nil : list (list (list Z))) ++ [' + '; '.join('map Qpair (map (fun j => esteq_x %d %s j rows) (seq 0 %d))' % (dim, qlist(s['psi']), dim)
                              for s in searches if all(abs(p) < 1e6 for p in s['psi'])) + ']'
        hist_ok = hist is not None and 'error' not in hist and len(hist['psi']) == dim and all(abs(p) < 1e9 for p in hist['psi'])
        e += ', ' + ('map Qpair (map (fun j => esteq_x %d %s j rows) (seq 0 %d))' % (dim, qlist(hist['psi']), dim) if hist_ok
                     else '(nil : list (list Z))') + ')'
        exprs.append(e)
        work.append((i, cl, searches, pay, hist))
    res, errs = coq_eval(ctx, 'c15', IMPORTS, exprs, shard=3)
    if errs:
        ctx.broken_ties.append('coq evaluation failed: ' + errs[0][1][-400:])
    for (i, cl, searches, pay, hist), r in zip(work, res):
        df, meta, f, mods = cases[i][:4]
        if r is None:
            ctx.broken_ties.append('no Coq value for case %d (%s)' % (i, f))
            continue
        check_one(ctx, fails, df, meta, f, mods, cl, searches, pay, r)
        if hist is not None:
            check_history(ctx, fails, meta, f, mods, cl, hist, pay, r)


def check_history(ctx, fails, meta, f, mods, cl, hist, pay, r):
    """the object that went through the history must, at its last fit, be indistinguishable from a fresh object given
    the final specification: same psi, lhm / rha equal to the Coq-evaluated M / r on the fresh object's rows, weights
    and fitted propensities, and the Coq-evaluated estimating-equation residual ~0 at ITS psi"""
    n, dim = meta['n'], len(mods) + has_main(f)
    cfg = ('GEstimationSNM(weights=%s) after %s  [final: snm=%r, exposure_model=%r, missing=%s %r]'
           % (meta['weights'], fmt_steps(hist['steps']), f, meta['emodel'], meta['missing'], meta.get('mmodel') if meta['missing'] else None))
    if 'error' in hist:
        fails.append((n, 'GEstimationSNM.history.raises', cfg + ' raised ' + hist['error'], pay))
        return
    ctx.programs += 1
    ctx.nontriv(['history', cl['A'], cl['Y'], [list(st) for st in hist['steps']], meta['weights']])
    out = r[0]
    resid0, rha, lhm = [[frac(x) for x in part] for part in out]
    A, Y, W, PI, V = (np.asarray(cl[k], dtype=float) for k in ('A', 'Y', 'w', 'pi', 'V'))
    dvec = W * (A - PI)
    ctx.disagreements_checked += 1
    if len(hist['psi']) != dim or hist['labels'] != cl['labels']:
        fails.append((n, 'GEstimationSNM.history.stale-structural-model',
                      '%s: psi_labels=%r, a fresh object gives %r' % (cfg, hist['labels'], cl['labels']), pay))
        return
    if not all(rel(a, b) <= 1e-9 for a, b in zip(hist['psi'], cl['psi'])):
        fails.append((n, 'GEstimationSNM.history.psi-differs-from-fresh-object',
                      '%s: psi=%r, a fresh object with the final specification gives %r (%d complete rows)' % (cfg, hist['psi'], cl['psi'], len(A)), pay))
    mscale = max(float(np.max(np.abs(cl['lhm']))), float(np.sum(np.abs(dvec))))
    rscale = max(float(np.max(np.abs(cl['rha']))), float(np.sum(np.abs(dvec * Y))))
    ctx.disagreements_checked += 1
    if not all(close(x, q, TOL_ARITH, scale=mscale) for x, q in zip(hist['lhm'], lhm)) or \
            not all(close(x, q, TOL_ARITH, scale=rscale) for x, q in zip(hist['rha'], rha)):
        fails.append((n, 'GEstimationSNM.history.stale-lhm-rha',
                      '%s: last solve used lhm=%r rha=%r; the model on the final weights and the freshly fitted propensities gives M=%r r=%r'
                      % (cfg, hist['lhm'], hist['rha'], [float(x) for x in lhm], [float(x) for x in rha]), pay))
    hres = [frac(x) for x in r[4]] if len(r) > 4 else []
    psi = np.asarray(hist['psi'])
    scale = [float(np.sum(np.abs(dvec * V[:, j]) * (np.abs(Y) + np.abs(A * (V @ psi))))) for j in range(dim)]
    for j, x in enumerate(hres):
        ctx.disagreements_checked += 1
        if abs(float(x)) > TOL_FIT * max(scale[j], 1e-12):
            fails.append((n, 'GEstimationSNM.history.not-a-root',
                          '%s: sum w (A - pi) V_%d H(psi) = %g at the returned psi=%r (scale %g; pi = what the final exposure model fits '
                          'with the final weights)' % (cfg, j, float(x), hist['psi'], scale[j]), pay))
    if not hres:
        ctx.broken_ties.append('no Coq residual for the history case ' + cfg[:120])


def check_one(ctx, fails, df, meta, f, mods, cl, searches, pay, r):
    n, dim = meta['n'], len(mods) + has_main(f)
    cfg = 'GEstimationSNM(snm=%r, exposure_model=%r, weights=%s, missing=%s, outcome=%s)' % (f, meta['emodel'], meta['weights'], meta['missing'], meta['outcome'])
    out, wavg, cells, sres = r[0], r[1], r[2], r[3]
    resid, rha, lhm = [[frac(x) for x in part] for part in out]
    ctx.programs += 1
    ctx.nontriv([cl['A'], cl['Y'], cl['w'][:5], f, meta['weights'], meta['missing']])
    A, Y, W, PI, V = (np.asarray(cl[k], dtype=float) for k in ('A', 'Y', 'w', 'pi', 'V'))
    dvec = W * (A - PI)
    psi = np.asarray(cl['psi'])
    scale = [float(np.sum(np.abs(dvec * V[:, j]) * (np.abs(Y) + np.abs(A * (V @ psi))))) for j in range(dim)]
    ctx.sample({'config': cfg, 'rows': len(A), 'psi': cl['psi'], 'labels': cl['labels'],
                'coq_residuals': [float(x) for x in resid], 'scale': scale}, cap=4)
    # labels: one parameter per SNM term, treatment first
    want_labels = ['A'] * has_main(f) + ['A:' + m for m in mods]
    if cl['labels'] != want_labels:
        fails.append((n, 'GEstimationSNM.psi_labels', '%s: psi_labels=%r, expected %r' % (cfg, cl['labels'], want_labels), pay))
    # oracle: the exposure GLM solves its weighted score equations
    ctx.oracle_checks += 1
    if meta.get('wunit', 1.0) < 1e-4:
        # weights in micro-units: statsmodels stops the propensity fit on an ABSOLUTE deviance tolerance, i.e. early; the root
        # property below is relative to whatever Pr(A=1|L) was fitted, so the case is still judged -- only this oracle is skipped
        ctx.count('exposure-model score oracle skipped (micro-unit weights)')
    elif cl['score_rel'] > 1e-6:
        fails.append((n, 'oracle.exposure-model.score', '%s: weighted score of the fitted exposure model is %g relative' % (cfg, cl['score_rel']), pay))
    # correspondence: lhm / rha of the code are the model's M / r on the same rows and fitted pi
    mscale = float(np.max(np.abs(cl['lhm']))) if cl['lhm'] else 1.0
    rscale = float(np.max(np.abs(cl['rha']))) if cl['rha'] else 1.0
    ctx.disagreements_checked += 1
    if not all(close(x, q, TOL_ARITH, scale=max(mscale, float(np.sum(np.abs(dvec))))) for x, q in zip(cl['lhm'], lhm)):
        fails.append((n, 'GEstimationSNM.closed.lhm', '%s: lhm=%r, model M=%r' % (cfg, cl['lhm'], [float(x) for x in lhm]), pay))
    if not all(close(x, q, TOL_ARITH, scale=max(rscale, float(np.sum(np.abs(dvec * Y))))) for x, q in zip(cl['rha'], rha)):
        fails.append((n, 'GEstimationSNM.closed.rha', '%s: rha=%r, model r=%r' % (cfg, cl['rha'], [float(x) for x in rha]), pay))
    # THE PROPERTY (i): the estimating equations vanish at the returned psi (residual evaluated in Coq)
    for j in range(dim):
        ctx.disagreements_checked += 1
        if abs(float(resid[j])) > TOL_FIT * max(scale[j], 1e-12):
            fails.append((n, 'GEstimationSNM.closed.not-a-root',
                          '%s: sum (A-pi) w V_%d H(psi) = %g at psi=%r (scale %g, %d rows)' % (cfg, j, float(resid[j]), cl['psi'], scale[j], len(A)), pay))
    # (iii) saturated exposure model, one parameter: n p (1-p) weighted average of stratum mean differences
    if meta['saturated']:
        for k, q in enumerate(cells):
            ctx.oracle_checks += 1
            got = [p for p, kk in zip(cl['pi'], cl['K']) if kk == k]
            if got and not all(close(p, frac(q), TOL_FIT) for p in got):
                fails.append((n, 'oracle.exposure-model.not-cell-proportion',
                              '%s: fitted Pr(A=1) in stratum %d is %r, the weighted cell proportion is %s' % (cfg, k, got[0], frac(q)), pay))
        ctx.disagreements_checked += 1
        q = frac(wavg[0])
        if not close(cl['psi'][0], q, TOL_FIT):
            fails.append((n, 'GEstimationSNM.saturated.not-weighted-average',
                          '%s: psi=%r, the n p(1-p)-weighted average of the stratum mean differences is %s = %r' % (cfg, cl['psi'][0], q, float(q)), pay))
    # (ii) search solver
    k = 0
    for s in searches:
        finite = all(abs(p) < 1e6 for p in s['psi'])
        sr = None
        if finite:
            sr = [frac(x) for x in sres[k]]
            k += 1
        what = ('%s fit(solver="search"%s): psi=%r (closed form %r), success=%s after %d iterations, sum|alpha|=%g, '
                'max |augmented fit - exposure fit| = %g'
                % (cfg, '' if s['mode'] == 'default' else ', starting_value=%r' % (s['start'],), s['psi'], cl['psi'], s['success'], s['nit'], s['fun'], s['dp']))
        agree = all(rel(a, b) <= TOL_SEARCH for a, b in zip(s['psi'], cl['psi']))
        root = s['dp'] <= 1e-4                 # hypothesis of snm_search_root: coefficient 0 <=> same fitted probabilities
        ctx.disagreements_checked += 1
        ctx.count('search:%s' % ('agrees' if agree else 'disagrees'))
        spay = dict(pay, search=dict((kk, vv) for kk, vv in s.items()))
        if root and sr is not None and any(abs(float(x)) > 50 * TOL_SEARCH * max(sc, 1e-12) for x, sc in zip(sr, scale)):
            # the theorem: a root of the search target solves the estimating equations
            fails.append((n, 'GEstimationSNM.search.root-not-estimating-eq',
                          what + '; Coq residuals %r (scale %r)' % ([float(x) for x in sr], scale), spay))
        if agree:
            continue
        if root:
            fails.append((n, 'GEstimationSNM.search.root-differs-from-closed', what, spay))
        else:
            # the search did not find the root: alpha ~ 0 only because |psi| ran away (H(psi) separates A), the simplex
            # collapsed at a kink of sum|alpha|, or the iteration limit was hit
            kind = 'not-converged' if not s['success'] else ('spurious-root-at-large-psi' if (s['fun'] <= 1e-5 or not finite) else 'stalls-off-root')
            if s['mode'] == 'mixed':
                stuck = [k for k, (st, pv, cv) in enumerate(zip(s['start'], s['psi'], cl['psi'])) if st == 0.0 and pv == 0.0 and abs(cv) > 1e-6]
                if stuck:
                    fails.append((n, 'GEstimationSNM.search.mixed-start.coordinate-never-moved',
                                  '[%d-parameter SNM] ' % dim + what + '; coordinate(s) %r started at 0 were returned as exactly 0.0' % stuck, spay))
                    continue
                s = dict(s, mode='near')         # otherwise the same (recorded) behaviour as any start near the solution
            if kind == 'not-converged' and s['nit'] < 500:
                # the recorded finding is "the documented budget of 500 ITERATIONS is exhausted"; stopping unconverged with iterations
                # to spare is something else (a different stopping rule or budget)
                kind = 'stopped-unconverged-before-the-iteration-budget'
            fails.append((n, 'GEstimationSNM.search.%s-start.%s' % (s['mode'], kind), '[%d-parameter SNM] ' % dim + what, spay))


def budget_part(ctx, fails, cases):
    """fit(solver='search', maxiter=k): `maxiter` is documented as the number of ITERATIONS after which the search gives up and is
    reported as not converged.  With a budget far too small to converge the solver must use exactly k iterations."""
    done = 0
    for case in cases:
        df, meta, f, mods = case[:4]
        if len(case) > 4 or not has_main(f) or len(mods) + 1 < 2:
            continue
        for k in (7, 19):
            try:
                g = build(df, meta, f)
                with warnings.catch_warnings():
                    warnings.simplefilter('ignore')
                    g.fit(solver='search', maxiter=k)
                o = g._scipy_solver_obj
            except Exception as ex:   # noqa
                fails.append((len(df), 'GEstimationSNM.search.maxiter.raises', 'fit(solver="search", maxiter=%d) raised %s: %s'
                              % (k, type(ex).__name__, str(ex)[:120]), payload_of(df, meta, f, {'maxiter': k})))
                continue
            ctx.evaluations += 1
            ctx.disagreements_checked += 1
            ctx.count('search with an iteration budget of %d: %s after %d iterations' % (k, 'converged' if o.success else 'not converged', int(o.nit)))
            ctx.nontriv(['maxiter', k, f, len(df), str(df.iloc[0].tolist())])
            if int(o.nit) > k or (not o.success and int(o.nit) < k):
                fails.append((len(df), 'GEstimationSNM.search.maxiter.stopped-unconverged-before-the-iteration-budget',
                              '[%d-parameter SNM] fit(solver="search", maxiter=%d) stopped %s after %d iterations (%d function evaluations): %s'
                              % (len(mods) + 1, k, 'converged' if o.success else 'unconverged', int(o.nit), int(o.nfev), str(o.message)[:80]),
                              payload_of(df, meta, f, {'maxiter': k})))
        done += 1
        if done >= (1 if ctx.quick else 4):
            break


def stateful_part(ctx, fails):
    """a structural model whose modifier is a stateful patsy transform (A:center(W0)) on data with missing outcomes: the design
    of the estimating equations is the formula evaluated on the ANALYSED rows (those with an observed outcome), so the fit must
    equal the fit with the modifier centred by hand on those rows"""
    done = 0
    for _ in range(60):
        df, meta = make_frame(ctx.rng)
        if not meta['missing'] or 'W0' not in meta['covs'] or 'W0' not in meta['emodel'].replace('W0c', ''):
            continue
        obs = df['Y'].notna()
        if obs.all() or obs.sum() < 12:
            continue
        df2 = df.copy()
        df2['W0h'] = df2['W0'] - float(df2.loc[obs, 'W0'].mean())
        res = []
        try:
            for frame, f in ((df, 'A + A:center(W0)'), (df2, 'A + A:W0h')):
                g = build(frame, meta, f)
                with warnings.catch_warnings():
                    warnings.simplefilter('ignore')
                    g.fit(solver='closed')
                res.append([float(x) for x in np.asarray(g.psi).ravel()])
        except Exception as ex:   # noqa
            fails.append((len(df), 'GEstimationSNM.stateful-modifier.raises', 'SNM A + A:center(W0) raised %s: %s' % (type(ex).__name__, str(ex)[:120]),
                          payload_of(df, meta, 'A + A:center(W0)')))
            continue
        ctx.evaluations += 1
        ctx.disagreements_checked += 1
        ctx.count('structural model with a stateful transform and missing outcomes (%s)' % meta['missing'])
        ctx.nontriv(['stateful', len(df), str(df.iloc[0].tolist()), meta['missing']])
        if any(rel(a, b) > 1e-8 for a, b in zip(res[0], res[1])):
            fails.append((len(df), 'GEstimationSNM.stateful-modifier', "closed-form psi %r for snm 'A + A:center(W0)' differs from %r for the modifier centred by "
                          'hand on the rows with an observed outcome (%d of %d rows; missing=%s)' % (res[0], res[1], int(obs.sum()), len(df), meta['missing']),
                          payload_of(df, meta, 'A + A:center(W0)', {'stateful': True})))
        done += 1
        if done >= (2 if ctx.quick else 12):
            break


def run(ctx):
    fails = []
    cases = gen_cases(ctx)
    check_cases(ctx, fails, cases, search_plan(ctx, cases))
    budget_part(ctx, fails, cases)
    stateful_part(ctx, fails)
    report(ctx, fails)


def report(ctx, fails):
    fails.sort(key=lambda f: f[0])
    seen = set()
    for size, key, what, payload in fails:
        if key in seen:
            continue
        seen.add(key)
        cnt = sum(1 for f in fails if f[1] == key)
        ctx.violation(key, what + ' [%d failing cases]' % cnt, payload)


def replay(ctx, payload):
    fails = []
    if payload and payload.get('data'):
        df = frame_of(payload)
        meta = payload['meta']
        f = payload['snm']
        mods = dict(SNMS)[f]
        plan = {0: [payload['search']['mode']]} if payload.get('search') else {}
        case = (df, meta, f, mods)
        if payload.get('steps'):
            case = case + ([tuple(st) for st in payload['steps']],)
        if payload.get('stateful'):
            stateful_part(ctx, fails)
        elif payload.get('maxiter'):
            budget_part(ctx, fails, [case])
        else:
            check_cases(ctx, fails, [case], plan)
    else:
        cases = gen_cases(ctx)
        check_cases(ctx, fails, cases, search_plan(ctx, cases))
        budget_part(ctx, fails, cases)
        stateful_part(ctx, fails)
    report(ctx, fails)
