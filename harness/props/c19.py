"""C19 -- no-assumption bounds on the risk difference are valid and sharp."""
import itertools
import json
import math
from fractions import Fraction

import numpy as np
import pandas as pd

from common import coq_eval, frac, close, qlit, TOL_ARITH

PROP_FILE = 'theories/Properties/C19.v'
MODEL_FILES = ['theories/Model/RdBounds.v']
GEN_GROUPS = ['rdbounds', 'basefit']
RULE = ('all 2x2 tables with every cell >= 1 and n <= N (N = 9 quick / 12 thorough), every completion of the '
        'unobserved potential outcomes enumerated in Coq for n <= 8; plus random larger frames with rows missing '
        'exposure/outcome, reference level 0 or 1, shuffled and re-indexed, every frame carrying a bystander column with its own NaNs; non-trivial = distinct (a,b,c,d,missing pattern, reference)')
TRUSTED = ['pandas boolean masks / dropna used by RiskDifference.fit (modelled by Model.RdBounds.of_rows)']


def make_frame(rows, rng, index_kind, store=None, codes=None):
    cz = codes or (0, 1)           # the two exposure levels may carry any codes (calendar periods 202001 / 202002, site ids, ...)
    df = pd.DataFrame({'e': [np.nan if r[0] is None else float(cz[int(r[0])]) for r in rows],
                       'y': [np.nan if r[1] is None else float(r[1]) for r in rows]})
    # compact storage of the 0/1 codes where the column has no missing value (a cell count may exceed the type's range)
    for col, j in (('e', 0), ('y', 1)):
        if store and store.get(col) == 'Int64' and not (col == 'e' and codes):
            df[col] = df[col].astype('Int64')          # pandas' nullable integers (convert_dtypes(), read_csv(dtype_backend=...)): hold <NA>
        elif store and store.get(col) in ('float16', 'float32') and not (col == 'e' and codes):
            df[col] = df[col].astype(store[col])           # half / single precision hold 0, 1 and NaN exactly (a memory-saving downcast)
        elif store and store.get(col) and not any(r[j] is None for r in rows) and not (col == 'e' and codes):
            df[col] = df[col].astype(store[col])
    # a bystander column the analysis does not name, with missing values of its own (most real frames have some)
    df['cd4'] = [np.nan if (i * 7 + len(rows)) % 3 == 0 else 100.0 + i for i in range(len(rows))]
    if index_kind == 'shift':
        df.index = df.index + 100
    elif index_kind == 'str':
        df.index = ['r%d' % i for i in range(len(df))]
    elif index_kind == 'dup':
        df.index = [i // 2 for i in range(len(df))]
    return df


SHOWN = [0]


def run_impl(rows, reference, index_kind='range', rng=None, show=None, store=None, codes=None):
    from zepid import RiskDifference
    df = make_frame(rows, rng, index_kind, store, codes)
    snap = df.copy(deep=True)
    rd = RiskDifference(reference=(codes or (0, 1))[reference])
    try:
        rd.fit(df, exposure='e', outcome='y')
    except ValueError as e:
        return {'error': 'ValueError'}
    SHOWN[0] += 1
    if show is None:
        show = SHOWN[0] if SHOWN[0] % 2 == 0 else 0
    if show:
        # the documented display call between fit() and reading the results must not alter them
        import io
        import contextlib
        with contextlib.redirect_stdout(io.StringIO()):
            rd.summary(decimal=[0, 2, 3][show // 2 % 3])
    res = rd.results
    nonref = [i for i in res.index if not str(i).startswith('Ref:')][0]
    out = {'lower': float(res.loc[nonref, 'LowerBound']), 'upper': float(res.loc[nonref, 'UpperBound']),
           'rd': float(res.loc[nonref, 'RiskDifference']),
           'a': rd._a_list[0], 'b': rd._b_list[0], 'c': rd._c, 'd': rd._d, 'n': rd.n,
           'ri': float(rd.risks[1]), 'r0': float(rd.risks[0]), 'mutated': not snap.equals(df), 'show': show}
    return out


def coq_rows(rows, reference):
    def ob(v, flip):
        if v is None:
            return 'None'
        b = bool(v) != flip
        return 'Some %s' % ('true' if b else 'false')
    flip = (reference == 1)
    return '[' + '; '.join('(%s, %s)' % (ob(r[0], flip), ob(r[1], False)) for r in rows) + ']'


def gen_cases(ctx):
    cases = []
    N = 9 if ctx.quick else 12
    for a, b, c, d in itertools.product(range(1, N), repeat=4):
        if a + b + c + d <= N:
            rows = [(1, 1)] * a + [(1, 0)] * b + [(0, 1)] * c + [(0, 0)] * d
            cases.append({'rows': rows, 'reference': 0, 'index': 'range', 'kind': 'table'})
    n_rand = 60 if ctx.quick else 600
    for k in range(n_rand):
        r = ctx.rng
        a, b, c, d = [r.randint(1, 40) for _ in range(4)]
        rows = [(1, 1)] * a + [(1, 0)] * b + [(0, 1)] * c + [(0, 0)] * d
        miss = r.choice(['none', 'e', 'y', 'both'])
        if miss in ('e', 'both'):
            rows += [(None, r.randint(0, 1)) for _ in range(r.randint(1, 6))]
        if miss in ('y', 'both'):
            rows += [(r.randint(0, 1), None) for _ in range(r.randint(1, 6))]
        if miss == 'both':
            rows += [(None, None)] * r.randint(0, 3)
        r.shuffle(rows)
        cases.append({'rows': rows, 'reference': r.choice([0, 0, 1]), 'index': r.choice(['range', 'shift', 'str', 'dup']),
                      'kind': 'random', 'miss': miss, 'codes': r.choice([None, None, (202001, 202002), (7, 3), (1000000, 1000001)]),
                      'store': ({'e': r.choice([None, 'int8', 'uint8', 'bool', 'int64']), 'y': r.choice([None, 'int8', 'uint8', 'bool', 'int64'])}
                                if len(cases) % 4 else {'e': 'Int64', 'y': 'Int64'})})
    # tables whose cell counts exceed 127 / 255, stored in every integer width
    for k in range(6 if ctx.quick else 40):
        r = ctx.rng
        a, b, c, d = [r.randint(130, 700) for _ in range(4)]
        rows = [(1, 1)] * a + [(1, 0)] * b + [(0, 1)] * c + [(0, 0)] * d
        r.shuffle(rows)
        st = [('int8', 'int8'), ('uint8', 'uint8'), ('int16', 'int8'), ('int8', None), (None, 'uint8'), ('bool', 'bool')][k % 6]
        cases.append({'rows': rows, 'reference': r.choice([0, 1]), 'index': 'range', 'kind': 'large-compact', 'store': {'e': st[0], 'y': st[1]}})
    # half-precision storage of the 0/1/NaN columns with cells beyond 2048 (where float16 stops counting in steps of one)
    for k in range(2 if ctx.quick else 8):
        r = ctx.rng
        a, b, c, d = [r.randint(2049, 2600) | 1 for _ in range(4)]
        rows = [(1, 1)] * a + [(1, 0)] * b + [(0, 1)] * c + [(0, 0)] * d + [(r.randint(0, 1), None) for _ in range(r.randint(3, 20))]
        r.shuffle(rows)
        st = [('float16', 'float16'), (None, 'float16'), ('float32', 'float16'), ('float16', 'float32')][k % 4]
        cases.append({'rows': rows, 'reference': r.choice([0, 1]), 'index': 'range', 'kind': 'large-half-precision', 'miss': 'y',
                      'store': {'e': st[0], 'y': st[1]}})
    return cases


def check_cases(ctx, cases):
    impl = []
    for cs in cases:
        impl.append(run_impl(cs['rows'], cs['reference'], cs['index'], show=cs.get('show'), store=cs.get('store'), codes=cs.get('codes')))
        cs['show'] = impl[-1].get('show', 0)
    side = None
    if ctx.gen.get('rdbounds', {}).get('ok'):
        side = {s['name']: s for s in json.load(open(ctx_side()))['rdbounds']}
    exprs = []
    for cs, im in zip(cases, impl):
        rows = coq_rows(cs['rows'], cs['reference'])
        ncomplete = sum(1 for r in cs['rows'] if r[0] is not None and r[1] is not None)
        rng = 'Some (rd_range us)' if ncomplete <= 8 else 'None'
        twin = '(@nil (list Z), @nil (list Z))'
        if side and 'error' not in im:
            def call(name):
                args = []
                for inp in side[name]['inputs']:
                    if inp not in im:
                        return None
                    args.append(qlit(im[inp]))
                return '%s_Q %s' % (name, ' '.join(args))
            lo, hi = call('rdbounds_fr_lower'), call('rdbounds_fr_upper')
            if lo and hi:
                twin = '(Qoflat (%s), Qoflat (%s))' % (lo, hi)
            else:
                ctx.broken_ties.append('correspondence: translated bound expression has an input the harness cannot supply: %s'
                                       % side['rdbounds_fr_lower']['inputs'])
                side = None
        exprs.append('let us := of_rows %s in (Qpair (lower us), Qpair (upper us), '
                     'match %s with Some (l, h) => [Qpair l; Qpair h] | None => [] end, %s)' % (rows, rng, twin))
    imports = ['Zepid.Base.QUtil', 'Zepid.Model.RdBounds'] + (['ZepidGen.Gen_rdbounds_Q'] if side else [])
    res, errs = coq_eval(ctx, 'c19', imports, exprs, shard=100)
    if errs:
        ctx.broken_ties.append('coq evaluation of cases failed: %s' % errs[0][1][-400:])
    fails = []
    for cs, im, r in zip(cases, impl, res):
        ctx.evaluations += 1
        if r is None:
            continue
        lo, hi, rng, twin = frac(r[0]), frac(r[1]), r[2], r[3]
        a = sum(1 for x in cs['rows'] if x[0] is not None and x[1] is not None)
        ctx.count('kind:' + cs['kind'])
        ctx.count('index:' + cs['index'])
        ctx.count('n<=8' if a <= 8 else 'n>8')
        if 'error' in im:
            ctx.count('impl-error')
            fails.append((cs, im, 'raised %s on a table with all cells positive' % im['error'], 'raises'))
            continue
        ctx.nontriv([im['a'], im['b'], im['c'], im['d'], cs.get('miss'), cs['reference']])
        ctx.programs += 1
        ctx.sample({'rows': len(cs['rows']), 'table': [im['a'], im['b'], im['c'], im['d']], 'reference': cs['reference'],
                    'impl': [im['lower'], im['upper']], 'spec': [str(lo), str(hi)]})
        why = None
        if not close(im['lower'], lo, TOL_ARITH) or not close(im['upper'], hi, TOL_ARITH):
            why = ('bounds', 'LowerBound/UpperBound %.6g/%.6g differ from the sharp bounds %s/%s (table a=%d b=%d c=%d d=%d)'
                   % (im['lower'], im['upper'], lo, hi, im['a'], im['b'], im['c'], im['d']))
        elif rng and (frac(rng[0]) != lo or frac(rng[1]) != hi):
            why = ('range', 'closed form differs from exhaustive range over completions')
        elif abs((im['upper'] - im['lower']) - 1) > 1e-9:
            why = ('width', 'interval width %.6g != 1' % (im['upper'] - im['lower']))
        elif not (im['lower'] - 1e-9 <= im['rd'] <= im['upper'] + 1e-9):
            why = ('contains', 'reported RD %.6g outside [%.6g, %.6g]' % (im['rd'], im['lower'], im['upper']))
        elif im['mutated']:
            why = ('mutated', 'input frame modified')
        if rng and why is None and not (float(frac(rng[0])) - 1e-9 <= im['lower'] and im['upper'] <= float(frac(rng[1])) + 1e-9):
            why = ('range', 'impl interval not equal to range over completions')
        if twin and twin[0] and why is None:
            ctx.disagreements_checked += 1
            tl, th = frac(twin[0][0]), frac(twin[1][0])
            if not close(im['lower'], tl, TOL_ARITH) or not close(im['upper'], th, TOL_ARITH):
                ctx.broken_ties.append('correspondence: translated expression evaluates to %s/%s, implementation returned %r/%r'
                                       % (tl, th, im['lower'], im['upper']))
        if why:
            fails.append((cs, im, why[1], why[0]))
    return fails


def ctx_side():
    import os
    from common import COQ
    return os.path.join(COQ, 'gen', 'sidecar.json')


def run(ctx):
    cases = gen_cases(ctx)
    fails = check_cases(ctx, cases)
    if fails:
        fails.sort(key=lambda f: len(f[0]['rows']))
        cs, im, what, key = fails[0]
        ctx.violation('RiskDifference.%s' % key, what + ' [%d failing cases]' % len(fails),
                      {'case': cs, 'impl': im, 'n_failing': len(fails)})


def replay(ctx, payload):
    fails = check_cases(ctx, [payload['case']])
    if fails:
        cs, im, what, key = fails[0]
        ctx.violation('RiskDifference.%s' % key, what, {'case': cs, 'impl': im})
