"""C10 -- incomplete rows are handled exactly as documented."""
import re
from fractions import Fraction

import numpy as np
import pandas as pd

from common import coq_eval, frac, close, qlit, TOL_FIT
import datagen
import est_common as ec

PROP_FILE = 'theories/Properties/C10.v'
MODEL_FILES = ['theories/Base/Rows.v', 'theories/Model/Estimators.v', 'theories/Model/Gate.v', 'theories/Model/Frames.v']
GEN_GROUPS = ['gate']
RULE = ('random mixed/categorical frames with missing values in exposure, covariates and outcome (none / completely at random / '
        'depending on treatment and covariates): every keep-missing-outcome estimator on the frame vs the frame with rows missing '
        'exposure or a covariate deleted; every drop-all estimator vs its complete-case run; the rows actually analysed vs the '
        'Coq gate; IPTW and TMLE with saturated treatment and missingness models vs the Coq-evaluated standardisation of '
        'observed-outcome means over all retained rows; a third of the deletion frames each under plain column names and under two '
        'schemes of overlapping names (a covariate name contained in the outcome name, ...); non-trivial = distinct (estimator, data, pattern)')
TRUSTED = ['pandas dropna / isna semantics used by check_input_data (modelled by Model.Gate, compared on every case)',
           'saturated GLM fits return cell means/proportions (validated per case)']

IMPORTS = ec.IMPORTS + ['Zepid.Model.Gate']


def punch(df, rng, cols, frac_=0.08):
    df = df.copy()
    n = len(df)
    for c in cols:
        k = max(1, int(n * frac_))
        idx = rng.sample(range(n), k)
        df[c] = df[c].astype(float)
        df.loc[df.index[idx], c] = np.nan
    return df


NAME_SCHEMES = [
    None,
    # a covariate whose name is contained in the outcome's name (cd4 / cd4_wk45), and other overlapping names
    {'Y': 'cd4_wk45', 'W0': 'cd4', 'W1': 'wk', 'C0': 'c', 'C1': 'cd', 'A': 'art'},
    {'Y': 'dead', 'W0': 'dead_prev', 'W1': 'ad', 'C0': 'treat_grp', 'C1': 'e', 'A': 'treat'},
]


def rename(text, names):
    return re.sub(r'\b(W0|W1|C0|C1|A|Y)\b', lambda m: names.get(m.group(1), m.group(1)), text) if names else text


def estimates(kind, df, meta, names=None):
    """names: optional logical -> actual column names (the estimators must not care what the columns are called)"""
    from zepid.causal.ipw import IPTW, StochasticIPTW
    from zepid.causal.gformula import TimeFixedGFormula
    from zepid.causal.doublyrobust import AIPTW, TMLE, StochasticTMLE
    from zepid.causal.snm import GEstimationSNM
    if names:
        df = df.rename(columns=names)
    A, Y = rename('A', names), rename('Y', names)
    rhs = rename(meta['rhs'], names)
    arhs = A + ' + ' + rhs
    binary = meta['outcome'] == 'binary'
    pk = ec.should_poke(df)       # displays / diagnostics / plots between specification and fit() on half the frames
    if kind == 'IPTW':
        o = IPTW(df, A, Y)
        o.treatment_model(rhs, print_results=False)
        if o._miss_flag:
            o.missing_model(arhs, print_results=False)
        o.marginal_structural_model(A)
        if pk:
            ec.poke(o)
        o.fit()
        t = o.risk_difference['RD'] if binary else o.average_treatment_effect['ATE']
        return [float(t.iloc[1])], o.df
    if kind == 'AIPTW':
        o = AIPTW(df, A, Y)
        o.exposure_model(rhs, print_results=False)
        if o._miss_flag:
            o.missing_model(arhs, print_results=False)
        o.outcome_model(arhs, print_results=False)
        if pk:
            ec.poke(o)
        o.fit()
        return [float(o.risk_difference if binary else o.average_treatment_effect),
                float(o.risk_difference_se if binary else o.average_treatment_effect_se)], o.df
    if kind == 'TMLE':
        o = TMLE(df, A, Y)
        o.exposure_model(rhs, print_results=False)
        if o._miss_flag:
            o.missing_model(arhs, print_results=False)
        o.outcome_model(arhs, print_results=False)
        if pk:
            ec.poke(o)
        o.fit()
        return [float(o.risk_difference if binary else o.average_treatment_effect),
                float(o.risk_difference_se if binary else o.average_treatment_effect_se)], o.df
    if kind == 'TimeFixedGFormula':
        o = TimeFixedGFormula(df, A, Y, outcome_type='binary' if binary else 'normal')
        o.outcome_model(arhs, print_results=False)
        if pk:
            ec.poke(o)
        o.fit('all')
        r1 = float(o.marginal_outcome)
        if pk:
            ec.poke(o)
        o.fit('none')
        return [r1, float(o.marginal_outcome), float(len(o.gf))], o.gf
    if kind == 'GEstimationSNM':
        o = GEstimationSNM(df, exposure=A, outcome=Y)
        o.exposure_model(rhs, print_results=False)
        o.structural_nested_model(A)
        if o._miss_flag:
            o.missing_model(arhs, print_results=False)
        if pk:
            ec.poke(o)
        o.fit()
        return [float(x) for x in o.psi], o.df
    if kind == 'StochasticIPTW':
        o = StochasticIPTW(df, A, Y)
        o.treatment_model(rhs, print_results=False)
        if pk:
            ec.poke(o)
        o.fit(p=0.4)
        return [float(o.marginal_outcome)], o.df
    if kind == 'StochasticTMLE':
        o = StochasticTMLE(df, A, Y)
        o.exposure_model(rhs)
        o.outcome_model(arhs)
        if pk:
            ec.poke(o)
        o.fit(p=1.0, samples=3, seed=5)
        return [float(o.marginal_outcome)], o.df
    raise AssertionError(kind)


KEEP = ['IPTW', 'AIPTW', 'TMLE', 'TimeFixedGFormula', 'GEstimationSNM']
DROPALL = ['StochasticIPTW', 'StochasticTMLE']


def coq_raw(df, covs):
    def o(v, f):
        if v is None or v != v:
            return 'None'
        return 'Some ' + (f(v) if not isinstance(v, str) else '1')       # a recorded label only has to be "present" for the gate
    rows = []
    for i, (_, r) in enumerate(df.iterrows()):
        rows.append('{| rid := %d%%nat; rx := %s; rc := [%s]; ry := %s |}' % (
            i, o(r['A'], lambda v: 'true' if v == 1 else 'false'),
            '; '.join(o(r[c], lambda v: qlit(Fraction(float(v)).limit_denominator(10 ** 6))) for c in covs),
            o(r['Y'], lambda v: qlit(Fraction(float(v)).limit_denominator(10 ** 6)))))
    return '[' + ';\n'.join(rows) + ']'


def deletion_part(ctx, fails):
    n = 9 if ctx.quick else 60
    exprs, refs = [], []
    for i in range(n):
        otype = ['binary', 'normal'][i % 2]
        pattern = ['none', 'mcar', 'mar'][i % 3]
        df, meta = datagen.mixed_frame(ctx.rng, n=ctx.rng.randint(70, 110), outcome=otype,
                                       missing=None if pattern == 'none' else pattern)
        covs = meta['covs']
        dfm = punch(df, ctx.rng, ['A'] + covs[:ctx.rng.randint(1, len(covs))])
        if i % 3 == 2:
            # a non-numeric bystander / covariate with entries of its own missing (None in an object column): such rows are
            # incomplete like any other
            site = [['north', 'south', 'east'][k % 3] for k in range(len(dfm))]
            for k in ctx.rng.sample(range(len(dfm)), max(2, len(dfm) // 15)):
                site[k] = None
            dfm['site'] = pd.Series(site, index=dfm.index, dtype=object)
            covs = covs + ['site']
        dfm['rowid'] = list(dfm.index)        # a complete bystander column carrying the harness's row ids into the analysed frame
        deleted = dfm.dropna(subset=['A'] + covs)
        cc = dfm.dropna()
        names = NAME_SCHEMES[(i // 2) % len(NAME_SCHEMES)]
        payload = {'part': 'deletion', 'data': {c: [None if (isinstance(v, float) and v != v) else v for v in dfm[c].tolist()] for c in dfm.columns},
                   'meta': meta, 'names': names}
        ctx.count('column-names:' + ('plain' if not names else names['Y'] + '/' + names['W0']))
        ctx.evaluations += 1
        ctx.count('pattern:' + pattern)
        ctx.nontriv([otype, pattern, dfm['Y'].fillna(-9).tolist()[:10]])
        kept = {}
        for kind in KEEP + DROPALL:
            if kind.startswith('Stochastic') and otype != 'binary' and kind == 'StochasticIPTW':
                pass
            ref_df = deleted if kind in KEEP else cc
            try:
                a, adf = estimates(kind, dfm, meta, names)
                b, _ = estimates(kind, ref_df.reset_index(drop=True) if ctx.rng.random() < 0.5 else ref_df, meta, names)
            except Exception as e:   # noqa
                fails.append((len(dfm), '%s.missing.raises' % kind, '%s raised %s: %s (pattern %s)' % (kind, type(e).__name__, str(e)[:100], pattern), payload))
                continue
            ctx.programs += 1
            ctx.disagreements_checked += 1
            if any(abs(x - y) > 1e-7 * max(1, abs(y)) or (x != x) != (y != y) for x, y in zip(a, b)):
                what = 'after deleting the rows missing exposure or a covariate' if kind in KEEP else 'on the complete cases'
                fails.append((len(dfm), '%s.incomplete-rows-influence' % kind, '%s: %r on the full frame, %r %s (pattern %s)' % (kind, a, b, what, pattern), payload))
            kept[kind] = [int(x) for x in adf['rowid']] if 'rowid' in adf.columns else None
        exprs.append('let rows := %s in (kept_ids false rows, kept_ids true rows, miss_flag rows)' % coq_raw(dfm, covs))
        refs.append((kept, payload, len(dfm), list(dfm.index)))
    res, errs = coq_eval(ctx, 'c10gate', IMPORTS, exprs, shard=4)
    if errs:
        ctx.broken_ties.append('coq evaluation failed: ' + errs[0][1][-300:])
    for (kept, payload, size, index), r in zip(refs, res):
        if r is None:
            continue
        keepY, comp = [index[i] for i in r[0]], [index[i] for i in r[1]]
        for kind, ids in kept.items():
            if ids is None:
                continue
            ctx.disagreements_checked += 1
            exp = keepY if kind in KEEP else comp
            if ids != exp:
                fails.append((size, '%s.gate' % kind, '%s analyses rows %r..., the documented gate keeps %r...' % (kind, ids[:8], exp[:8]), payload))


def saturated_part(ctx, fails):
    """IPTW and TMLE, saturated treatment and missingness models, outcomes missing depending on A and L"""
    from zepid.causal.ipw import IPTW
    from zepid.causal.doublyrobust import TMLE
    n = 8 if ctx.quick else 60
    exprs, refs = [], []
    for i in range(n):
        otype = 'binary'
        df, meta = datagen.cat_frame(ctx.rng, n_cov=ctx.rng.choice([1, 2]), arities=None, cell=(4, 7), outcome=otype)
        # remove outcomes in a way that depends on A and L but keeps both outcome values in every cell
        df = df.copy()
        for (s, a), g in df.groupby(['S', 'A']):
            ones, zeros = list(g.index[g['Y'] == 1]), list(g.index[g['Y'] == 0])
            k = ctx.rng.randint(0, 2) + (1 if a == 1 else 0)
            pool = (ones[1:] + zeros[1:])
            ctx.rng.shuffle(pool)
            for idx in pool[:k]:
                df.loc[idx, 'Y'] = np.nan
        if df['Y'].isna().sum() == 0:
            df.loc[df.index[0], 'Y'] = np.nan
        payload = {'part': 'saturated', 'data': {c: [None if (isinstance(v, float) and v != v) else v for v in df[c].tolist()] for c in df.columns}, 'meta': meta}
        ctx.evaluations += 1
        ctx.count('saturated-missing')
        ctx.nontriv(['sat', df['Y'].fillna(-9).tolist(), df['A'].tolist()])
        out = {}
        try:
            ip = IPTW(df, 'A', 'Y')
            ip.treatment_model(meta['sat_L'], stabilized=bool(i % 2), print_results=False)
            ip.missing_model('A * (' + meta['sat_L'] + ')', stabilized=bool(i % 2), print_results=False)
            ip.marginal_structural_model('A')
            ip.fit()
            out['IPTW'] = (float(ip.risk_difference['RD'].iloc[0]) + float(ip.risk_difference['RD'].iloc[1]), float(ip.risk_difference['RD'].iloc[0]))
            tm = TMLE(df, 'A', 'Y')
            tm.exposure_model(meta['sat_L'], print_results=False)
            tm.missing_model('A * (' + meta['sat_L'] + ')', print_results=False)
            tm.outcome_model(ctx.rng.choice(['A', meta['sat_AL']]), print_results=False)
            tm.fit()
            pr = tm._verif_probe_
            out['TMLE'] = (float(np.mean(pr['Qstar1'])), float(np.mean(pr['Qstar0'])))
        except Exception as e:   # noqa
            fails.append((len(df), 'saturated-missing.raises', 'raised %s: %s' % (type(e).__name__, str(e)[:100]), payload))
            continue
        ctx.programs += 2
        Y = [None if y != y else Fraction(int(y)) for y in np.asarray(ip.df['Y'], dtype=float)]
        exprs.append('let l := %s in Qflat [std TAll true l; std TAll false l]' % ec.coq_rows(np.asarray(ip.df['S']), np.asarray(ip.df['A']).astype(int), Y))
        refs.append((out, payload, len(df)))
    res, errs = coq_eval(ctx, 'c10sat', IMPORTS, exprs, shard=4)
    if errs:
        ctx.broken_ties.append('coq evaluation failed: ' + errs[0][1][-300:])
    for (out, payload, size), r in zip(refs, res):
        if r is None:
            continue
        s1, s0 = frac(r[0]), frac(r[1])
        for kind, (m1, m0) in out.items():
            ctx.disagreements_checked += 1
            if not close(m1, s1, TOL_FIT) or not close(m0, s0, TOL_FIT):
                fails.append((size, '%s.missing.saturated' % kind, '%s risks %r/%r, but the observed-outcome stratum means standardised over all '
                              'retained rows are %s/%s' % (kind, m1, m0, s1, s0), payload))
        ctx.sample({'iptw_risks': out.get('IPTW'), 'tmle_risks': out.get('TMLE'), 'std': [str(s1), str(s0)]}, cap=3)


def measures_part(ctx, fails):
    from props import c07
    frames = [c07.gen_frame(ctx.rng) for _ in range(8 if ctx.quick else 80)]
    c07.frame_part_list(ctx, fails, frames)


def outcome_rows_part(ctx, fails):
    """rows with a MISSING OUTCOME are kept by AIPTW / TMLE, but the outcome model is fitted on the observed outcomes only: what
    such rows carry in their covariates must not reach the fitted outcome model.  The covariate of those rows is rescaled and the
    outcome-model predictions on the rows with an observed outcome are compared; formulas include patsy's data-dependent
    transforms (spline knots, centring), which take their state from the rows handed to the model."""
    from zepid.causal.doublyrobust import AIPTW, TMLE
    n = 3 if ctx.quick else 20
    forms = ['A + bs(W0, df=4, lower_bound=-40, upper_bound=40)', 'A + W0', 'A + cr(W0, df=3)', 'A + center(W0) + I(center(W0)**2)']
    for i in range(n):
        otype = ['binary', 'normal'][i % 2]
        df, meta = datagen.mixed_frame(ctx.rng, n=ctx.rng.randint(150, 260), outcome=otype, missing='mar', n_cont=1, n_cat=1)
        miss = df['Y'].isna().values
        if miss.sum() < 5:
            continue
        alt = df.copy()
        alt.loc[miss, 'W0'] = alt.loc[miss, 'W0'] * 3.0 + 2.0        # only rows WITHOUT an outcome change
        payload = {'part': 'outcome-rows', 'frame': datagen.pack_frame(df)}
        ctx.evaluations += 1
        for form in forms[:2] if ctx.quick and i else forms:
            for cls in (TMLE, AIPTW):
                name = cls.__name__
                try:
                    preds = []
                    for d in (df, alt):
                        o = cls(d, 'A', 'Y')
                        o.exposure_model('C0', print_results=False)
                        o.outcome_model(form, print_results=False)
                        q1 = np.asarray(o.QA1W if name == 'TMLE' else o.df['_pY1_'], dtype=float)
                        keep = np.asarray(o.df['Y'].notna()) if name == 'AIPTW' else np.asarray(o.df[o._missing_indicator] == 1)
                        preds.append(q1[keep])
                except Exception as e:   # noqa
                    fails.append((len(df), '%s.outcome-model.raises' % name, '%s.outcome_model(%r) raised %s: %s' % (name, form, type(e).__name__, str(e)[:100]), payload))
                    continue
                ctx.programs += 1
                ctx.disagreements_checked += 1
                ctx.count('outcome-rows:' + form.split('+')[1].strip().split('(')[0])
                dev = float(np.max(np.abs(preds[0] - preds[1]))) if len(preds[0]) == len(preds[1]) else float('inf')
                if dev > 1e-8 * max(1.0, float(np.max(np.abs(preds[0])))):
                    fails.append((len(df), '%s.outcome-model.uses-rows-without-outcome' % name,
                                  '%s.outcome_model(%r): predictions for the rows WITH an observed outcome move by %.3g when only the covariate of '
                                  'the rows WITHOUT an outcome is changed: those rows reach the fitted outcome model' % (name, form, dev), payload))


def run(ctx):
    fails = []
    deletion_part(ctx, fails)
    saturated_part(ctx, fails)
    measures_part(ctx, fails)
    outcome_rows_part(ctx, fails)
    # rows with a missing outcome are RETAINED by TimeFixedGFormula: a stochastic plan treats a share of all retained rows (p = 1:
    # everybody), whichever `predict_missing` is asked for -- the degenerate-plan comparison of props/c14 on frames with missing outcomes
    from props import c14
    c14.degenerate_part(ctx, fails, only_missing=True)
    report(ctx, fails)


def report(ctx, fails):
    fails.sort(key=lambda f: f[0])
    seen = set()
    for size, key, what, payload in fails:
        if key in seen:
            continue
        seen.add(key)
        n = sum(1 for f in fails if f[1] == key)
        ctx.violation(key, what + ' [%d failing cases]' % n, payload)


def replay(ctx, payload):
    run(ctx)
