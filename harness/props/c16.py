"""C16 -- generalize/transport estimators standardise to the stated target population
(and, as `aipsw_dr_part`, the AIPSW clauses of C02: exact finite-sample double robustness)."""
import itertools
import math
from fractions import Fraction

import numpy as np
import pandas as pd

from common import coq_eval, frac, close, qlit, qlist, TOL_ARITH, TOL_FIT
import est_common as ec

PROP_FILE = 'theories/Properties/C16.v'
MODEL_FILES = ['theories/Model/Generalize.v']
GEN_GROUPS = ['gener']
RULE = ('combined frames = study sample (S=1) stacked on a sample of the target (S=0): 1-2 categorical effect modifiers of '
        'arity 2-3, every stratum has >=2 sampled rows in each arm (both outcome values present when binary) and >=1 '
        'non-sampled row; binary or normal outcome; optionally the same allocation fraction in every stratum (balanced). '
        'Every frame is run under generalize in {True,False} x stabilized in {True,False} x with/without treatment_model '
        'for IPSW and AIPSW (GTransportFormula: generalize only), with saturated formulas, TWICE: treatment/outcome of the '
        'non-sampled rows NaN, then filled with junk (random 0/1 treatments, random outcomes). Compared: both runs with '
        'each other, with the Coq-evaluated specification gstd (sample cell means standardised over all / non-sampled '
        'rows; RD, RR), and with the Coq-evaluated model fed the fitted probabilities/predictions the code used (exact '
        'rationals of the floats). Oracles validated: fitted sampling/treatment probabilities and outcome predictions '
        'equal the Coq-evaluated cell proportions/means within 1e-6. non-trivial = distinct (frame, estimator, config)')
TRUSTED = ['statsmodels GLM (Binomial/Gaussian) with a saturated patsy design returns the cell proportions / cell means of the '
           'rows it was fitted on (oracle hypotheses sat_S, sat_A, sat_Q; validated on every case against Coq-evaluated cells)',
           'patsy drops rows with NaN in a model variable (treatment/outcome of non-sampled rows) and predicts for all rows',
           'fitted values are constant within a modifier stratum (checked on every case; the Coq case carries one value per stratum)']

IMPORTS = ['Zepid.Base.QSum', 'Zepid.Base.QUtil', 'Zepid.Model.Generalize']
WITHIN_TOL = 1e-12
EXACT_N = 36


# ------------------------------------------------------------------------------------------------ data
INDEX_KINDS = ['range', 'stacked', 'shuffle', 'shift']


def make_frame(rng, outcome=None, balanced=None, big=False, idx=None):
    """returns (df_clean, meta).  Columns W0[,W1], S, A, Y, K (stratum code; never given to a model)."""
    n_cov = rng.choice([1, 2, 2])
    arities = [rng.choice([2, 3]) for _ in range(n_cov)]
    strata = list(itertools.product(*[range(k) for k in arities]))
    outcome = outcome or rng.choice(['binary', 'binary', 'normal'])
    balanced = rng.random() < 0.3 if balanced is None else balanced
    hi = (5 if big else 4) if len(strata) <= 4 else 3
    rows = []
    for k, lv in enumerate(strata):
        base, eff = rng.uniform(-1, 1), rng.uniform(-0.8, 1.2)
        n1 = rng.randint(2, hi)
        n0 = n1 if balanced else rng.randint(2, hi)
        for a, m in ((1, n1), (0, n0)):
            if outcome == 'binary':
                p = 1 / (1 + math.exp(-(base + eff * a)))
                ys = [1.0 if rng.random() < p else 0.0 for _ in range(m)]
                if sum(ys) == 0:
                    ys[rng.randrange(m)] = 1.0
                if sum(ys) == m:
                    ys[rng.randrange(m)] = 0.0
            else:
                ys = [round(rng.gauss(2 + base + eff * a, 1.0), 2) for _ in range(m)]
            rows += [list(lv) + [1, float(a), y, k] for y in ys]
        for _ in range(rng.randint(1, hi + 1)):
            rows.append(list(lv) + [0, float('nan'), float('nan'), k])
    rng.shuffle(rows)
    cols = ['W%d' % i for i in range(n_cov)] + ['S', 'A', 'Y', 'K']
    df = pd.DataFrame(rows, columns=cols)
    idx = idx or rng.choice(INDEX_KINDS)
    if idx == 'stacked':
        # study sample and target stacked with pd.concat without ignore_index: labels repeat across the two parts
        cnt = {0: 0, 1: 0}
        ix = []
        for s_ in df['S']:
            ix.append(cnt[int(s_)])
            cnt[int(s_)] += 1
        df.index = ix
    elif idx == 'shift':
        df.index = range(500, 500 + len(df))
    elif idx == 'shuffle':
        ix = list(range(len(df)))
        rng.shuffle(ix)
        df.index = ix
    sat = ' * '.join('C(W%d)' % i for i in range(n_cov))
    subs = ['1', 'W0']
    if n_cov == 2:
        subs += ['C(W0)', 'C(W1)', 'C(W0) + C(W1)', 'W0 + W1']
    meta = {'n_cov': n_cov, 'arities': arities, 'n': len(df), 'n_strata': len(strata), 'outcome': outcome,
            'balanced': balanced, 'sat_W': sat, 'sat_AW': 'A * ' + sat, 'sub_W': subs,
            'sub_AW': ['A'] + ['A + ' + s for s in subs[1:]] + (['A * C(W0)'] if n_cov == 2 else []), 'index': idx}
    return df, meta


def junk_frame(df, rng, meta, fill_a=True):
    d = df.copy()
    out = d['S'] == 0
    m = int(out.sum())
    if meta['outcome'] == 'binary':
        d.loc[out, 'Y'] = [float(rng.choice([0, 1, 1, 1])) for _ in range(m)]
    else:
        d.loc[out, 'Y'] = [round(rng.uniform(-50, 90), 2) for _ in range(m)]
    if fill_a:
        d.loc[out, 'A'] = [float(rng.choice([0, 1, 1])) for _ in range(m)]
    return d


def raw_rows(df):
    """Coq list of raw rows; NaN treatment/outcome (non-sampled rows) are written as false / 0"""
    out = []
    for s, k, a, y in zip(df['S'], df['K'], df['A'], df['Y']):
        a_ = bool(a == 1)
        y_ = Fraction(0) if y != y else Fraction(str(y))
        out.append('GR %d %s %s %s' % (int(k), 'true' if s == 1 else 'false', 'true' if a_ else 'false', qlit(y_)))
    return '[' + '; '.join(out) + ']'


# ------------------------------------------------------------------------------------------------ running zEpid
REFIT = [0]


class IptwSpy:
    """records what iptw_calculator returned to the generalize classes (denominator / numerator probabilities)"""

    def __enter__(self):
        import zepid.causal.generalize.estimators as E
        self.E, self.orig, self.calls = E, E.iptw_calculator, []

        def wrapped(*a, **kw):
            d, n, w = self.orig(*a, **kw)
            self.calls.append((np.asarray(d, dtype=float), n if np.isscalar(n) else np.asarray(n, dtype=float),
                               np.asarray(w, dtype=float)))
            return d, n, w
        E.iptw_calculator = wrapped
        return self

    def __exit__(self, *exc):
        self.E.iptw_calculator = self.orig
        return False


def table(values, K, mask, n_strata):
    """collapse per-row values to one value per stratum (rows selected by mask); returns (list, max spread)"""
    values, K, mask = np.asarray(values, dtype=float), np.asarray(K), np.asarray(mask, dtype=bool)
    tab, spread = [], 0.0
    for k in range(n_strata):
        v = values[mask & (K == k)]
        v = v[~np.isnan(v)]
        if len(v) == 0:
            tab.append(None)
            continue
        tab.append(float(v[0]))
        spread = max(spread, float(np.max(np.abs(v - v[0]))) / max(1.0, abs(float(v[0]))))
    return tab, spread


def const(v):
    v = np.asarray(v, dtype=float).ravel()
    v = v[~np.isnan(v)]
    return float(v[0]), float(np.max(np.abs(v - v[0])))


UNREACHED = [0]
SHOWN = [0]


def run_est(kind, df, meta, gen, stab, rx, fS=None, fA=None, fQ=None):
    """one estimator run -> {'rd','rr', tables ps/pa/q1/q0 (per stratum), nS, nA, spread} or {'error': ...}"""
    from zepid.causal.generalize import IPSW, GTransportFormula, AIPSW
    fS, fA, fQ = fS or meta['sat_W'], fA or meta['sat_W'], fQ or meta['sat_AW']
    ns = meta['n_strata']
    K = df['K'].values
    smp = (df['S'] == 1).values
    res = {'ps': None, 'pa': None, 'q1': None, 'q0': None, 'nS': None, 'nA': None, 'spread': 0.0}
    otype = meta['outcome']
    # the flag as computed from data ((df.S == 1).any(), an element of a boolean array) is a numpy.bool_, not the singleton True
    gen = np.bool_(gen) if len(df) % 2 == 0 else bool(gen)
    # a truncation bound that no fitted probability reaches (cells hold at least one row of each kind, so every saturated
    # probability is >= 1/n) must not change anything: passed on every third run
    UNREACHED[0] += 1
    bkw = {'bound': 1e-6} if UNREACHED[0] % 3 == 1 else {}
    try:
        with IptwSpy() as spy:
            if kind == 'IPSW':
                dfc = df.copy()
                e = IPSW(dfc, exposure='A', outcome='Y', selection='S', generalize=gen)
                ec.scramble(dfc)          # the caller's own frame changes after construction: the estimator must not care
                # the two models may be specified in either order (fit() only needs both): treatment model first on alternate runs
                if rx and UNREACHED[0] % 2 == 0:
                    e.treatment_model(fA, stabilized=stab, print_results=False, **bkw)
                    e.sampling_model(fS, stabilized=stab, print_results=False, **bkw)
                else:
                    e.sampling_model(fS, stabilized=stab, print_results=False, **bkw)
                    if rx:
                        e.treatment_model(fA, stabilized=stab, print_results=False, **bkw)
                e.fit()
                REFIT[0] += 1
                if REFIT[0] % 2 == 0:
                    # the property holds for the estimator, not for its first fit(): refit, and refit after re-specifying
                    e.fit()
                    if rx and REFIT[0] % 4 == 0:
                        e.treatment_model(fA, stabilized=stab, print_results=False)
                        e.fit()
                Ks = K[smp]
                allm = np.ones(len(Ks), dtype=bool)
                res['ps'], sp = table(e.sample['__denom__'], Ks, allm, ns)
                res['spread'] = max(res['spread'], sp)
                if stab:
                    res['nS'], sp = const(e.sample['__numer__'])
                    res['spread'] = max(res['spread'], sp)
                if rx:
                    d, n, w = spy.calls[-1]
                    res['pa'], sp = table(d, Ks, allm, ns)
                    res['spread'] = max(res['spread'], sp)
                    if stab:
                        res['nA'], sp = const(n)
                        res['spread'] = max(res['spread'], sp)
            elif kind == 'GT':
                dfc = df.copy()
                e = GTransportFormula(dfc, exposure='A', outcome='Y', selection='S', outcome_type=otype, generalize=gen)
                ec.scramble(dfc)
                e.outcome_model(fQ, print_results=False)
                e.fit()
                d1, d0 = df.copy(), df.copy()
                d1['A'], d0['A'] = 1, 0
                allm = np.ones(len(K), dtype=bool)
                res['q1'], sp1 = table(e._outcome_model.predict(d1), K, allm, ns)
                res['q0'], sp0 = table(e._outcome_model.predict(d0), K, allm, ns)
                res['spread'] = max(sp1, sp0)
            else:
                dfc = df.copy()
                e = AIPSW(dfc, exposure='A', outcome='Y', selection='S', generalize=gen)
                ec.scramble(dfc)
                if rx and UNREACHED[0] % 2 == 0:
                    e.treatment_model(fA, stabilized=stab, print_results=False, **bkw)
                    e.sampling_model(fS, stabilized=stab, print_results=False)
                else:
                    e.sampling_model(fS, stabilized=stab, print_results=False)
                    if rx:
                        e.treatment_model(fA, stabilized=stab, print_results=False, **bkw)
                e.outcome_model(fQ, outcome_type=otype, print_results=False)
                e.fit()
                REFIT[0] += 1
                if REFIT[0] % 2 == 0:
                    e.fit()
                allm = np.ones(len(K), dtype=bool)
                res['ps'], sp = table(e.df['__denom__'], K, allm, ns)
                res['spread'] = max(res['spread'], sp)
                if stab:
                    res['nS'], sp = const(np.asarray(e.df['__numer__'], dtype=float)[smp])
                    res['spread'] = max(res['spread'], sp)
                if rx:
                    d, n, w = spy.calls[-1]
                    Kd = K if len(d) == len(K) else K[smp]     # the treatment model may be fitted on the sample only
                    res['pa'], sp = table(d, Kd, np.ones(len(Kd), dtype=bool), ns)
                    res['spread'] = max(res['spread'], sp)
                    if stab:
                        res['nA'], sp = const(n)
                        res['spread'] = max(res['spread'], sp)
                res['q1'], sp1 = table(e._YA1, K, allm, ns)
                res['q0'], sp0 = table(e._YA0, K, allm, ns)
                res['spread'] = max(res['spread'], sp1, sp0)
        SHOWN[0] += 1
        if SHOWN[0] % 2 == 0:
            # the documented display call between fit() and reading the results must not alter them
            import io
            import contextlib
            with contextlib.redirect_stdout(io.StringIO()):
                e.summary(decimal=[0, 2, 3][SHOWN[0] // 2 % 3])
        res['rd'], res['rr'] = float(e.risk_difference), float(e.risk_ratio)
    except Exception as ex:   # noqa
        return {'error': '%s: %s' % (type(ex).__name__, str(ex)[:160])}
    return res


def tab_q(t, default=Fraction(1, 2)):
    return qlist([default if x is None else x for x in (t or [])])


def cfg_coq(gen, stab, rx, nS, nA):
    b = lambda x: 'true' if x else 'false'   # noqa: E731
    return 'Cfg %s %s %s %s %s %s' % (b(gen), b(stab), b(rx), b(stab), qlit(nS if nS is not None else Fraction(1, 2)),
                                      qlit(nA if nA is not None else Fraction(1, 2)))


def model_expr(kind, fid, gen, stab, rx, res):
    rows = 'attach_all %s %s %s %s rows_%d' % (tab_q(res['ps']), tab_q(res['pa']), tab_q(res['q1']), tab_q(res['q0']), fid)
    if kind == 'IPSW':
        return 'Qflat (ipsw_out (%s) (%s))' % (cfg_coq(gen, stab, rx, res['nS'], res['nA']), rows)
    if kind == 'GT':
        return 'Qflat (gt_out %s (%s))' % ('true' if gen else 'false', rows)
    return 'Qflat (aipsw_out (%s) (%s))' % (cfg_coq(gen, stab, rx, res['nS'], res['nA']), rows)


def payload_of(df, meta, kind, gen, stab, rx, extra=None):
    p = {'data': {c: [None if (isinstance(v, float) and v != v) else v for v in df[c].tolist()] for c in df.columns},
         'index': [int(i) for i in df.index], 'meta': meta, 'estimator': kind, 'generalize': gen, 'stabilized': stab,
         'treatment_model': rx}
    p.update(extra or {})
    return p


def frame_of(payload):
    d = pd.DataFrame({c: [float('nan') if v is None else v for v in vals] for c, vals in payload['data'].items()})
    d.index = payload['index']
    return d


def rel_close(x, y, tol):
    return abs(x - y) <= tol * max(1.0, abs(x), abs(y))


# ------------------------------------------------------------------------------------------------ the C16 run
def c16_cases(ctx, n_frames):
    cases = []
    for fid in range(n_frames):
        df, meta = make_frame(ctx.rng, idx=INDEX_KINDS[fid % len(INDEX_KINDS)])
        dj = junk_frame(df, ctx.rng, meta)
        cases.append((fid, df, dj, meta))
    return cases


def std_part(ctx, fails, cases=None):
    cases = cases or c16_cases(ctx, 14 if ctx.quick else 150)
    pre = 'Open Scope Q_scope.\n' + ''.join('Definition rows_%d : list graw := %s.\n' % (fid, raw_rows(dj)) for fid, df, dj, meta in cases)
    exprs, work = [], []
    for fid, df, dj, meta in cases:
        # specification and cells, evaluated in Coq from the raw rows (junk variant: it must not matter)
        exprs.append('(Qflat (gstd_out true (bare rows_%d)), Qflat (gstd_out false (bare rows_%d)), '
                     'map (fun p => (Z.of_nat (fst p), Qflat (snd p))) (cells_out (bare rows_%d)))' % (fid, fid, fid))
        work.append(('spec', fid, None))
        ctx.count('frame:strata=%d' % meta['n_strata'])
        ctx.count('frame:outcome=' + meta['outcome'])
        ctx.count('frame:balanced=%s' % meta['balanced'])
        ctx.count('frame:index=%s' % meta['index'])
        for kind in ('IPSW', 'GT', 'AIPSW'):
            configs = [(gen, stab, rx) for gen in (True, False)
                       for stab, rx in ([(None, None)] if kind == 'GT' else itertools.product((True, False), (True, False)))]
            # exact-rational evaluation of the model costs ~n/40 s per configuration: all of them on small frames,
            # a random third on the larger ones (specification, junk and oracle comparisons are made for all)
            with_model = set(configs) if meta['n'] <= EXACT_N else set(ctx.rng.sample(configs, max(1, len(configs) // 3)))
            for gen, stab, rx in configs:
                r0 = run_est(kind, df, meta, gen, stab, rx)
                r1 = run_est(kind, dj, meta, gen, stab, rx)
                ctx.evaluations += 2
                if kind == 'AIPSW' and 'error' not in r0:
                    # a target cohort with the treatment on file and the outcome never measured: A recorded, Y missing outside the
                    # study sample -- nothing recorded there may matter
                    da = df.copy()
                    da.loc[da['S'] == 0, 'A'] = dj.loc[dj['S'] == 0, 'A']
                    r2 = run_est(kind, da, meta, gen, stab, rx)
                    ctx.evaluations += 1
                    ctx.disagreements_checked += 1
                    ctx.count('AIPSW: non-sampled rows with the treatment recorded and the outcome missing')
                    if 'error' in r2 or not (rel_close(r2['rd'], r0['rd'], 1e-9) and rel_close(r2['rr'], r0['rr'], 1e-9)):
                        fails.append((meta['n'], 'AIPSW.non-sampled-treatment-recorded', 'AIPSW(generalize=%s, stabilized=%s, treatment_model=%s): RD/RR %s with the '
                                      'treatment recorded (outcome missing) for the non-sampled rows, %r/%r with nothing recorded there'
                                      % (gen, stab, rx, r2.get('error') or '%r/%r' % (r2['rd'], r2['rr']), r0['rd'], r0['rr']),
                                      payload_of(da, meta, kind, gen, stab, rx)))
                work.append(('est', fid, (kind, gen, stab, rx, r0, r1)))
                exprs.append(model_expr(kind, fid, gen, stab, rx, r0) if 'error' not in r0 and (gen, stab, rx) in with_model
                             else 'Qflat [0]')
    res, errs = coq_eval(ctx, 'c16', IMPORTS, exprs, shard=5, preamble=pre)
    if errs:
        ctx.broken_ties.append('coq evaluation failed: ' + errs[0][1][-400:])
    by_fid = {fid: (df, dj, meta) for fid, df, dj, meta in cases}
    spec = {}
    for (what, fid, info), r in zip(work, res):
        if what == 'spec' and r is not None:
            spec[fid] = {True: [frac(x) for x in r[0]], False: [frac(x) for x in r[1]],
                         'cells': {int(k): [frac(x) for x in v] for k, v in r[2]}}
    for (what, fid, info), r in zip(work, res):
        if what != 'est' or fid not in spec:
            continue
        kind, gen, stab, rx, r0, r1 = info
        df, dj, meta = by_fid[fid]
        check_case(ctx, fails, kind, gen, stab, rx, r0, r1, r, spec[fid], df, dj, meta)


def check_case(ctx, fails, kind, gen, stab, rx, r0, r1, model, spec, df, dj, meta):
    n = meta['n']
    tgt = 'generalize' if gen else 'transport'
    cfgs = '%s(generalize=%s, stabilized=%s, treatment_model=%s)' % (kind, gen, stab, rx)
    pay = payload_of(dj, meta, kind, gen, stab, rx)
    ctx.count('%s:%s' % (kind, tgt))
    if kind != 'GT':
        ctx.count('%s:stab=%s,rx=%s' % (kind, stab, rx))
    for tag, rr_ in (('nan', r0), ('junk', r1)):
        if 'error' in rr_:
            fails.append((n, '%s.raises' % kind, '%s on a %d-row frame (%s non-sampled values) raised %s' % (cfgs, n, tag, rr_['error']),
                          payload_of(df if tag == 'nan' else dj, meta, kind, gen, stab, rx)))
    if 'error' in r0 or 'error' in r1:
        return
    ctx.programs += 1
    ctx.nontriv([df['K'].tolist(), df['S'].tolist(), dj['A'].tolist(), dj['Y'].tolist(), kind, gen, stab, rx])
    s = spec[gen]
    # (1) nothing stored in the non-sampled rows' outcome / treatment may change the result
    ctx.disagreements_checked += 1
    if not (rel_close(r0['rd'], r1['rd'], 1e-9) and rel_close(r0['rr'], r1['rr'], 1e-9)):
        only_y = run_est(kind, junk_only_y(df, dj), meta, gen, stab, rx)
        which = 'outcome' if ('error' in only_y or not rel_close(only_y['rd'], r0['rd'], 1e-9)) else 'treatment'
        fails.append((n, '%s.outside-%s-changes-result' % (kind, which),
                      '%s: RD %r with NaN in the non-sampled rows, %r after writing junk %s values there (%d rows)'
                      % (cfgs, r0['rd'], r1['rd'], which, n), pay))
    # (2) the nuisance values the code used must not depend on them either (they are the theorems' oracle hypotheses)
    for nm in ('ps', 'pa', 'q1', 'q0'):
        if r0[nm] is None:
            continue
        bad = [k for k, (x, y) in enumerate(zip(r0[nm], r1[nm])) if x is not None and y is not None and abs(x - y) > 1e-7]
        if bad:
            model_name = {'ps': 'sampling_model', 'pa': 'treatment_model', 'q1': 'outcome_model', 'q0': 'outcome_model'}[nm]
            k = bad[0]
            fails.append((n, '%s.%s.fit-includes-nonsample-rows' % (kind, model_name),
                          '%s: the fitted %s value of stratum %d is %r with NaN treatment/outcome in the non-sampled rows and %r '
                          'once values are recorded there: the model is fitted on rows outside the study sample'
                          % (cfgs, model_name, k, r0[nm][k], r1[nm][k]), pay))
    if max(r0['spread'], r1['spread']) > WITHIN_TOL:
        ctx.broken_ties.append('%s: fitted values vary within a stratum by %g (harness assumption)' % (cfgs, max(r0['spread'], r1['spread'])))
    # (3) oracle validation: saturated fits are the Coq-evaluated cell proportions / means (NaN run)
    for k, cell in spec['cells'].items():
        want = {'ps': cell[0], 'pa': cell[1], 'q1': cell[2], 'q0': cell[3]}
        for nm, q in want.items():
            if r0[nm] is None or r0[nm][k] is None:
                continue
            ctx.oracle_checks += 1
            if not close(r0[nm][k], q, TOL_FIT):
                fails.append((n, 'oracle.%s.%s.not-cell-value' % (kind, nm),
                              '%s: saturated fit gave %r in stratum %d, the cell value is %s' % (cfgs, r0[nm][k], k, q), pay))
    for nm in ('nS', 'nA'):
        if r0[nm] is not None and not (0 < r0[nm] < 1):
            fails.append((n, 'oracle.%s.%s.not-in-unit-interval' % (kind, nm), '%s: stabilising numerator %r' % (cfgs, r0[nm]), pay))
    # (4) correspondence: the Coq model fed the code's own fitted values reproduces the code's RD / RR
    if model is not None and len(model) == 4:
        m = [frac(x) for x in model]
        ctx.disagreements_checked += 1
        if not (close(r0['rd'], m[2], TOL_ARITH) and close(r0['rr'], m[3], TOL_ARITH)):
            fails.append((n, '%s.model-mismatch.%s' % (kind, tgt),
                          '%s: code RD=%r RR=%r, model on the code\'s fitted values RD=%s RR=%s'
                          % (cfgs, r0['rd'], r0['rr'], m[2] and float(m[2]), m[3] and float(m[3])), pay))
    elif model is None:
        ctx.broken_ties.append('no Coq value for the model of ' + cfgs)
    else:
        ctx.count('model-correspondence skipped (n > %d)' % EXACT_N)
    # (5) THE PROPERTY: the estimate is the sample cell means standardised to the stated target
    applies = kind != 'IPSW' or rx or meta['balanced']
    if not applies:
        ctx.count('IPSW:no-treatment-model,unbalanced (correspondence only)')
        return
    ctx.sample({'estimator': cfgs, 'rows': n, 'strata': meta['n_strata'], 'impl_rd': r0['rd'], 'impl_rr': r0['rr'],
                'spec_rd': str(s[2]), 'spec_rr': str(s[3])}, cap=4)
    for tag, rr_ in (('nan', r0), ('junk', r1)):
        ctx.disagreements_checked += 1
        if close(rr_['rd'], s[2], TOL_FIT) and close(rr_['rr'], s[3], TOL_FIT):
            continue
        o = spec[not gen]
        swapped = close(rr_['rd'], o[2], TOL_FIT) and close(rr_['rr'], o[3], TOL_FIT)
        fails.append((n, '%s.%s.%s' % (kind, tgt, 'standardized-to-other-target' if swapped else 'not-standardized'),
                      '%s (%s non-sampled values): RD=%r RR=%r; sample cell means standardised to the %s give RD=%s RR=%s'
                      % (cfgs, tag, rr_['rd'], rr_['rr'], 'whole target population' if gen else 'non-sampled rows',
                         float(s[2]), float(s[3])), pay))


def clean_frame(d):
    c = d.copy()
    c.loc[c['S'] == 0, ['A', 'Y']] = float('nan')
    return c


def junk_only_y(df, dj):
    d = df.copy()
    d['Y'] = dj['Y']
    return d


# ------------------------------------------------------------------------------------------------ C02: AIPSW
DR_KNOWN_KEY = 'AIPSW.stabilized.wrong-outcome-model'


def aipsw_dr_part(ctx, fails, n_frames=None):
    """Exact double robustness of AIPSW (C02): one side saturated, the other a random strict sub-model.
    side 'Q' = outcome model saturated, sampling/treatment models wrong; side 'W' = the reverse."""
    n_frames = n_frames or (10 if ctx.quick else 120)
    cases = []
    for fid in range(n_frames):
        df, meta = make_frame(ctx.rng)
        # every frame records OUTCOMES for the non-sampled rows, every second frame (deterministically, so that no seed
        # leaves the share empty) also TREATMENTS -- both drawn from a mechanism unlike the sample's; with the treatment
        # missing patsy drops those rows from any model that mentions A, with both recorded nothing protects a model
        # that is not restricted to the study sample
        recorded = fid % 2 == 0
        d = junk_frame(df, ctx.rng, meta, fill_a=recorded)
        ctx.count('AIPSW-DR:non-sampled rows carry %s' % ('outcome and treatment' if recorded else 'outcome only (treatment NaN)'))
        cases.append((fid, d, meta, recorded))
    _aipsw_dr_cases(ctx, fails, cases, None)


def aipsw_dr_replay(ctx, fails, payload):
    """re-run exactly the configuration stored in a replay payload of aipsw_dr_part (used by c02.replay)"""
    d = frame_of(payload)
    fixed = (payload['generalize'], payload['stabilized'], payload['treatment_model'], payload['side'],
             payload['fS'], payload['fA'], payload['fQ'])
    _aipsw_dr_cases(ctx, fails, [(0, d, payload['meta'], payload.get('recorded_A', False))], fixed)


def _aipsw_dr_cases(ctx, fails, cases, fixed):
    exprs, work = [], []
    pre = 'Open Scope Q_scope.\n' + ''.join('Definition rows_%d : list graw := %s.\n' % (fid, raw_rows(d)) for fid, d, meta, rec in cases)
    for fid, d, meta, recorded in cases:
        exprs.append('(Qflat (gstd_out true (bare rows_%d)), Qflat (gstd_out false (bare rows_%d)), '
                     'map (fun p => (Z.of_nat (fst p), Qflat (snd p))) (cells_out (bare rows_%d)))' % (fid, fid, fid))
        work.append(('spec', fid, None))
        combos = [(gen, stab, side) for gen in (True, False) for stab in (True, False) for side in ('Q', 'W')]
        if fixed:
            combos = [(fixed[0], fixed[1], fixed[3])]
        extra = ctx.rng.choice(combos)
        for gen, stab, side in combos:
            with_model = meta['n'] <= EXACT_N or (side == 'W' and stab) or (gen, stab, side) == extra or bool(fixed)
            rx = True if side == 'W' else ctx.rng.random() < 0.7
            fS = meta['sat_W'] if side == 'W' else ctx.rng.choice(meta['sub_W'])
            fA = meta['sat_W'] if side == 'W' else ctx.rng.choice(meta['sub_W'])
            fQ = meta['sat_AW'] if side == 'Q' else ctx.rng.choice(meta['sub_AW'])
            if fixed:
                rx, fS, fA, fQ = fixed[2], fixed[4], fixed[5], fixed[6]
            r = run_est('AIPSW', d, meta, gen, stab, rx, fS=fS, fA=fA, fQ=fQ)
            ctx.evaluations += 1
            if recorded:      # the same specification on the frame with nothing recorded outside the study sample
                r['clean'] = run_est('AIPSW', clean_frame(d), meta, gen, stab, rx, fS=fS, fA=fA, fQ=fQ)
                ctx.evaluations += 1
            work.append(('est', fid, (gen, stab, rx, side, fS, fA, fQ, r)))
            exprs.append(model_expr('AIPSW', fid, gen, stab, rx, r) if 'error' not in r and with_model else 'Qflat [0]')
    res, errs = coq_eval(ctx, 'c02aipsw', IMPORTS, exprs, shard=4, preamble=pre)
    if errs:
        ctx.broken_ties.append('coq evaluation failed: ' + errs[0][1][-400:])
    by_fid = {fid: (d, meta, rec) for fid, d, meta, rec in cases}
    spec = {}
    for (what, fid, info), r in zip(work, res):
        if what == 'spec' and r is not None:
            spec[fid] = {True: [frac(x) for x in r[0]], False: [frac(x) for x in r[1]],
                         'cells': {int(k): [frac(x) for x in v] for k, v in r[2]}}
    for (what, fid, info), model in zip(work, res):
        if what != 'est' or fid not in spec:
            continue
        gen, stab, rx, side, fS, fA, fQ, r = info
        d, meta, recorded = by_fid[fid]
        n = meta['n']
        cfgs = ('AIPSW(generalize=%s) sampling_model(%r, stabilized=%s) %s outcome_model(%r) [%s side saturated%s]'
                % (gen, fS, stab, 'treatment_model(%r, stabilized=%s)' % (fA, stab) if rx else 'no treatment_model', fQ,
                   'outcome' if side == 'Q' else 'weight', ', outcome and treatment recorded for the non-sampled rows' if recorded else ''))
        pay = payload_of(d, meta, 'AIPSW', gen, stab, rx, {'side': side, 'fS': fS, 'fA': fA, 'fQ': fQ, 'recorded_A': recorded,
                                                            'part': 'aipsw_dr'})
        ctx.count('AIPSW-DR:%s-sat,stab=%s,%s' % (side, stab, 'generalize' if gen else 'transport'))
        if 'error' in r:
            fails.append((n, 'AIPSW.dr.raises', cfgs + ' raised ' + r['error'], pay))
            continue
        ctx.programs += 1
        ctx.nontriv([d['K'].tolist(), d['S'].tolist(), d['Y'].tolist(), gen, stab, rx, side, fS, fA, fQ])
        s = spec[fid][gen]
        ctx.sample({'estimator': cfgs, 'rows': n, 'impl_rd': r['rd'], 'spec_rd': str(s[2])}, cap=4)
        if r['spread'] > WITHIN_TOL:
            ctx.broken_ties.append('%s: fitted values vary within a stratum by %g' % (cfgs, r['spread']))
        # correspondence: the faithful model reproduces the code in EVERY configuration (also the refuted one)
        if model is not None and len(model) == 4:
            m = [frac(x) for x in model]
            ctx.disagreements_checked += 1
            if not (close(r['rd'], m[2], TOL_ARITH) and close(r['rr'], m[3], TOL_ARITH)):
                fails.append((n, 'AIPSW.dr.model-mismatch', '%s: code RD=%r RR=%r, model on the code\'s fitted values RD=%s RR=%s'
                              % (cfgs, r['rd'], r['rr'], m[2] and float(m[2]), m[3] and float(m[3])), pay))
        elif model is None:
            ctx.broken_ties.append('no Coq value for the model of ' + cfgs)
        # whatever is recorded for the non-sampled rows must leave every fitted nuisance value and the result unchanged
        # (checked for saturated AND misspecified models alike: double robustness would otherwise hide a polluted fit)
        rc = r.get('clean')
        if rc is not None and 'error' not in rc:
            ctx.disagreements_checked += 1
            for nm, mname in (('ps', 'sampling_model'), ('pa', 'treatment_model'), ('q1', 'outcome_model'), ('q0', 'outcome_model')):
                if r[nm] is None or rc[nm] is None:
                    continue
                bad = [k for k, (x, y) in enumerate(zip(rc[nm], r[nm])) if x is not None and y is not None and abs(x - y) > 1e-7 * max(1.0, abs(x))]
                if bad:
                    k = bad[0]
                    fails.append((n, 'AIPSW.%s.fit-includes-nonsample-rows' % mname,
                                  '%s: the fitted %s value of stratum %d is %r with NaN outside the study sample and %r once outcome and '
                                  'treatment are recorded there' % (cfgs, mname, k, rc[nm][k], r[nm][k]), pay))
            if not (rel_close(rc['rd'], r['rd'], 1e-9) and rel_close(rc['rr'], r['rr'], 1e-9)):
                fails.append((n, 'AIPSW.dr.outside-values-change-result',
                              '%s: RD %r with NaN in the non-sampled rows, %r with recorded values there' % (cfgs, rc['rd'], r['rd']), pay))
        elif rc is not None:
            fails.append((n, 'AIPSW.dr.raises', cfgs + ' on the frame with NaN outside the sample raised ' + rc['error'], pay))
        # oracle validation of the saturated side (hypotheses of aipsw_Qsat / aipsw_wsat)
        sat_ok = True
        for k, cell in spec[fid]['cells'].items():
            want = {'q1': cell[2], 'q0': cell[3]} if side == 'Q' else {'ps': cell[0], 'pa': cell[1]}
            for nm, q in want.items():
                ctx.oracle_checks += 1
                if r[nm] is None or r[nm][k] is None or not close(r[nm][k], q, TOL_FIT):
                    sat_ok = False
                    if nm == 'pa' and recorded:
                        continue      # reported below through the estimate, under its own key
                    fails.append((n, 'oracle.AIPSW.%s.not-cell-value' % nm,
                                  '%s: saturated fit gave %r in stratum %d, the cell value is %s' % (cfgs, r[nm] and r[nm][k], k, q), pay))
        # the property
        ctx.disagreements_checked += 1
        if close(r['rd'], s[2], TOL_FIT) and close(r['rr'], s[3], TOL_FIT):
            continue
        what_ = ('%s: RD=%r RR=%r, the nonparametric standardised estimate is RD=%s RR=%s (%d rows)'
                 % (cfgs, r['rd'], r['rr'], float(s[2]), float(s[3]), n))
        if side == 'W' and recorded and not sat_ok:
            key = 'AIPSW.treatment_model.fit-includes-nonsample-rows'
        elif side == 'Q' and recorded and not sat_ok:
            key = 'AIPSW.outcome_model.fit-includes-nonsample-rows'
        elif side == 'W' and stab and sat_ok:
            key = DR_KNOWN_KEY
        else:
            key = 'AIPSW.dr.%s-saturated.%s.%s' % ('outcome' if side == 'Q' else 'weights', 'stabilized' if stab else 'unstabilized',
                                                   'generalize' if gen else 'transport')
        fails.append((n, key, what_, pay))


# ------------------------------------------------------------------------------------------------ entry points
def arm_part(ctx, fails):
    """sampled rows that belong to NEITHER arm of the contrast (treatment not recorded, or a third arm coded 2) count for the
    sampling model only: the two risks are the weighted means over the rows with A == 1 and over the rows with A == 0 (the arm
    definition of the model, Base.Rows.arm), with the weights the object exposes"""
    from zepid.causal.generalize import IPSW
    for i in range(3 if ctx.quick else 20):
        df, meta = make_frame(ctx.rng, outcome='binary')
        extra = df[df['S'] == 1].sample(n=max(2, int((df['S'] == 1).sum()) // 4), random_state=i)
        extra = extra.copy()
        extra['A'] = [float('nan'), 2.0][i % 2]
        d = pd.concat([df, extra], ignore_index=True)
        payload = {'part': 'arms', 'frame': {c: [None if (isinstance(v, float) and v != v) else v for v in d[c].tolist()] for c in d.columns}}
        ctx.evaluations += 1
        ctx.count('arms: sampled rows outside the contrast (%s)' % ('unrecorded treatment' if i % 2 == 0 else 'third arm'))
        for gen in (True, False):
            for stab in (True, False):
                try:
                    e = IPSW(d, exposure='A', outcome='Y', selection='S', generalize=gen)
                    e.sampling_model(meta['sat_W'], stabilized=stab, print_results=False)
                    e.fit()
                    smp = e.sample
                    w = np.asarray(e.ipsw, dtype=float)
                    y = np.asarray(smp['Y'], dtype=float)
                    a = np.asarray(smp['A'], dtype=float)
                    r1 = float(np.sum(w[a == 1] * y[a == 1]) / np.sum(w[a == 1]))
                    r0 = float(np.sum(w[a == 0] * y[a == 0]) / np.sum(w[a == 0]))
                except Exception as ex:   # noqa
                    fails.append((len(d), 'IPSW.arms.raises', 'IPSW with sampled rows outside the contrast raised %s: %s' % (type(ex).__name__, str(ex)[:100]), payload))
                    continue
                ctx.programs += 1
                ctx.disagreements_checked += 1
                if not (rel_close(float(e.risk_difference), r1 - r0, 1e-9) and rel_close(float(e.risk_ratio), r1 / r0, 1e-9)):
                    fails.append((len(d), 'IPSW.arms.not-the-two-arms', 'IPSW(generalize=%s, stabilized=%s): RD=%r RR=%r, but the weighted risks of the '
                                  'rows with A==1 and of the rows with A==0 give RD=%r RR=%r (%d sampled rows belong to neither arm)'
                                  % (gen, stab, float(e.risk_difference), float(e.risk_ratio), r1 - r0, r1 / r0, len(extra)), payload))


def run(ctx):
    fails = []
    std_part(ctx, fails)
    arm_part(ctx, fails)
    report(ctx, fails)


def report(ctx, fails):
    fails.sort(key=lambda f: f[0])
    seen = set()
    for size, key, what, payload in fails:
        if key in seen:
            continue
        seen.add(key)
        cnt = sum(1 for f in fails if f[1] == key)
        ctx.violation(key, what + ' [%d failing cases]' % cnt, payload)


def replay(ctx, payload):
    fails = []
    if payload and payload.get('data'):
        d = frame_of(payload)
        meta = payload['meta']
        clean = d.copy()
        clean.loc[clean['S'] == 0, ['A', 'Y']] = float('nan')
        if payload.get('part') == 'aipsw_dr':
            aipsw_dr_replay(ctx, fails, payload)
        else:
            std_part(ctx, fails, cases=[(0, clean, d, meta)])
    else:
        std_part(ctx, fails)
    arm_part(ctx, fails)
    report(ctx, fails)
