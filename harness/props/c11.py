"""C11 -- calls never modify the caller's data; refitting is history-independent; results before the required
specifications raise.

The theorems (Properties/C11.v) settle the intended object semantics (Model/History.v).  The deciding part is here:
random call histories on the real classes.  Every executed history is also written as a Coq call list and evaluated
with the model (eval_history, vm_compute); the model's answer says (a) which calls must raise, (b) which specification
is in force per slot, (c) the call list of the equivalent FRESH object (normal form).  The driver then
  * compares the caller's DataFrames / arrays / lists with a deep snapshot after EVERY call  (<Class>.<method>.mutates-input),
  * builds the fresh object from the model's normal form and compares every public attribute and the summary() text
    (<Class>.history-dependent),
  * compares raise / no-raise per call with the model  (<Class>.<method>.no-guard, <Class>.<method>.raises),
  * checks that summary()/diagnostics and guarded (raising) calls leave every public attribute alone
    (<Class>.<method>.changes-state).
"""
import contextlib
import copy
import io
import json
import math
import random
import time
import warnings

import numpy as np
import pandas as pd

from common import coq_eval

PROP_FILE = 'theories/Properties/C11.v'
MODEL_FILES = ['theories/Model/History.v']
GEN_GROUPS = []
RULE = ('per class 12 (quick) / 120 (thorough) random call histories of length 1-8 drawn from ctx.rng: styles guard (fit/summary '
        'before the required specifications), toggle (specify with bound / user learner, fit, specify again without, fit), respecify (other formula / bound / stabilized flag / distribution), repeat (fit two or three times in a row, with or without one respecification in between), refit (other plan: '
        "'all' then 'none', p=0.8 then p=0.1, other seed, other solver), random; summary() and every diagnostic/plot method interleaved "
        '(Agg backend, stdout captured); data n=40-160 rows, binary/normal/poisson outcome, missing outcomes, range/shifted/shuffled/str '
        'index; every class with a weights= argument (IPTW, StochasticIPTW, TimeFixedGFormula under all three standardize targets, '
        'SurvivalGFormula, AIPTW, GEstimationSNM, IPSW, GTransportFormula) gets a non-constant positive integer weight column in every '
        'second history.  The caller\'s objects are compared with a deep snapshot (values incl. NaN positions, columns, dtypes, index, ndarray '
        'writeable flag) after the constructor and after every call.  Fresh-object comparison: every public attribute (DataFrames by '
        'column name, arrays, scalars, fitted-model params) exact or 1e-9 relative, plus the summary() text.  Model-vs-implementation: '
        'raise/no-raise per call, specification in force per slot (stored formula strings where the class keeps them).  Not counted '
        'as violations (reported in the evidence notes): diagnostics that raise under the installed library versions; summary() that '
        'prints without raising when the models ARE specified but fit() was not called; second fit() on the zepid.base effect-measure '
        'classes (the property scopes refit independence to the causal estimator classes); MonteCarloGFormula.add_covariate_model '
        'called twice for one covariate (the API appends by name).  non-trivial = a history whose fit() completed at least once and '
        'that contains a respecification, a refit, or a guarded call')
TRUSTED = ['the snapshot/compare code of harness/props/c11.py (pandas .copy(deep=True), numpy array_equal with NaN positions)',
           'the mapping of executed Python calls to Model.History op lists (cross-checked per history against an independent Python '
           'mirror of the model)',
           'statsmodels/patsy fits are deterministic functions of their inputs (the fresh object is expected to reproduce them bit '
           'for bit or to 1e-9)',
           'numpy global random state: histories and fresh objects call np.random.seed(seed) immediately before a stochastic fit']

RTOL = 1e-9


# ================================================================================================ quiet execution
@contextlib.contextmanager
def quiet():
    import matplotlib
    matplotlib.use('Agg', force=False)
    import matplotlib.pyplot as plt
    buf = io.StringIO()
    with warnings.catch_warnings():
        warnings.simplefilter('ignore')
        with contextlib.redirect_stdout(buf):
            try:
                yield buf
            finally:
                plt.close('all')


def errstr(e):
    return '%s: %s' % (type(e).__name__, str(e).replace('\n', ' ')[:160])


# ================================================================================================ snapshots of user data
def _obj_equal(x, y):
    if x is y:
        return True
    try:
        if isinstance(x, float) and isinstance(y, float) and x != x and y != y:
            return True
        if x is pd.NA or y is pd.NA:
            return x is y
        return bool(x == y) and type(x) is type(y)
    except Exception:   # noqa
        return False


def arr_same(x, y):
    """exact equality of two ndarrays incl. dtype, shape and NaN positions"""
    if x.dtype != y.dtype or x.shape != y.shape:
        return False
    if x.dtype.kind in 'fc':
        return bool(np.array_equal(x, y, equal_nan=True))
    if x.dtype.kind == 'O':
        return all(_obj_equal(a, b) for a, b in zip(x.ravel().tolist(), y.ravel().tolist()))
    return bool(np.array_equal(x, y))


def snapshot(v):
    if isinstance(v, pd.DataFrame):
        return {'kind': 'DataFrame', 'columns': list(v.columns), 'dtypes': [str(t) for t in v.dtypes],
                'index': np.array(v.index, copy=True), 'index_dtype': str(v.index.dtype), 'index_name': v.index.name,
                'values': [np.array(v.iloc[:, j].to_numpy(), copy=True) for j in range(v.shape[1])]}
    if isinstance(v, pd.Series):
        return {'kind': 'Series', 'name': v.name, 'dtype': str(v.dtype), 'index': np.array(v.index, copy=True),
                'index_dtype': str(v.index.dtype), 'values': np.array(v.to_numpy(), copy=True)}
    if isinstance(v, np.ndarray):
        return {'kind': 'ndarray', 'dtype': str(v.dtype), 'shape': v.shape, 'writeable': bool(v.flags.writeable),
                'values': np.array(v, copy=True)}
    return {'kind': type(v).__name__, 'values': copy.deepcopy(v)}


def changed(v, s):
    """None if the user's object v still equals its snapshot s, else a description of the first difference"""
    if s['kind'] == 'DataFrame':
        if not isinstance(v, pd.DataFrame):
            return 'no longer a DataFrame'
        if list(v.columns) != s['columns']:
            return 'columns %r -> %r' % (s['columns'], list(v.columns))
        if [str(t) for t in v.dtypes] != s['dtypes']:
            return 'dtypes %r -> %r' % (s['dtypes'], [str(t) for t in v.dtypes])
        if str(v.index.dtype) != s['index_dtype'] or v.index.name != s['index_name'] or not arr_same(np.array(v.index), s['index']):
            return 'index changed'
        for j, c in enumerate(s['columns']):
            if not arr_same(np.array(v.iloc[:, j].to_numpy()), s['values'][j]):
                a, b = np.array(v.iloc[:, j].to_numpy()), s['values'][j]
                k = next((i for i in range(len(a)) if not _obj_equal(a[i].item() if hasattr(a[i], 'item') else a[i],
                                                                      b[i].item() if hasattr(b[i], 'item') else b[i])), 0)
                return 'column %r row %d: %r -> %r' % (c, k, b[k], a[k])
        return None
    if s['kind'] == 'Series':
        if not isinstance(v, pd.Series):
            return 'no longer a Series'
        if v.name != s['name'] or str(v.dtype) != s['dtype']:
            return 'name/dtype changed'
        if str(v.index.dtype) != s['index_dtype'] or not arr_same(np.array(v.index), s['index']):
            return 'index changed'
        if not arr_same(np.array(v.to_numpy()), s['values']):
            return 'values changed'
        return None
    if s['kind'] == 'ndarray':
        if not isinstance(v, np.ndarray):
            return 'no longer an ndarray'
        if str(v.dtype) != s['dtype'] or v.shape != s['shape']:
            return 'dtype/shape %s%r -> %s%r' % (s['dtype'], s['shape'], v.dtype, v.shape)
        if bool(v.flags.writeable) != s['writeable']:
            return 'writeable flag %r -> %r' % (s['writeable'], bool(v.flags.writeable))
        if not arr_same(v, s['values']):
            d = np.flatnonzero(~((v == s['values']) | ((v != v) & (s['values'] != s['values']))).ravel()) if v.dtype.kind in 'fiub' else [0]
            k = int(d[0]) if len(d) else 0
            return 'element %d: %r -> %r' % (k, s['values'].ravel()[k], v.ravel()[k])
        return None
    if type(v).__name__ != s['kind']:
        return 'type %s -> %s' % (s['kind'], type(v).__name__)
    try:
        same = (v == s['values'])
        same = bool(same) if not hasattr(same, 'all') else bool(same.all())
    except Exception:   # noqa
        same = False
    return None if same else 'value %r -> %r' % (s['values'], v)


def inputs_changed(inputs, snaps):
    for k in inputs:
        d = changed(inputs[k], snaps[k])
        if d is not None:
            return '%s: %s' % (k, d)
    return None


# ================================================================================================ public state of an object
def canon_val(v, depth=0):
    if v is None or isinstance(v, (bool, str)):
        return v
    if isinstance(v, (int, np.integer)):
        return int(v)
    if isinstance(v, (float, np.floating)):
        return float(v)
    if isinstance(v, np.ndarray):
        return ('nd', np.array(v, copy=True))
    if isinstance(v, pd.Series):
        return ('series', np.array(v.index, copy=True), np.array(v.to_numpy(), copy=True))
    if isinstance(v, pd.DataFrame):
        return ('frame', np.array(v.index, copy=True), {str(c): np.array(v[c].to_numpy(), copy=True) for c in v.columns})
    if isinstance(v, (list, tuple)) and depth < 4:
        return ('seq', [canon_val(x, depth + 1) for x in v])
    if isinstance(v, dict) and depth < 4:
        return ('dict', {str(k): canon_val(x, depth + 1) for k, x in v.items()})
    if hasattr(v, 'params') and not callable(getattr(v, 'params')):
        try:
            return ('model', np.array(np.asarray(v.params, dtype=float), copy=True))
        except Exception:   # noqa
            return ('obj', type(v).__name__)
    if hasattr(v, 'x') and hasattr(v, 'success'):      # scipy OptimizeResult
        return ('opt', np.array(np.asarray(v.x, dtype=float), copy=True))
    return ('obj', type(v).__name__)


def pubstate(obj):
    return {k: canon_val(v) for k, v in vars(obj).items() if not k.startswith('_')}


def _num_diff(a, b):
    a, b = np.asarray(a), np.asarray(b)
    if a.shape != b.shape:
        return 'shape %r vs %r' % (a.shape, b.shape)
    if a.dtype.kind in 'fiub' and b.dtype.kind in 'fiub':
        af, bf = a.astype(float), b.astype(float)
        nan = np.isnan(af) != np.isnan(bf)
        if nan.any():
            k = int(np.flatnonzero(nan.ravel())[0])
            return 'NaN pattern differs at %d (%r vs %r)' % (k, af.ravel()[k], bf.ravel()[k])
        with np.errstate(invalid='ignore'):
            bad = ~(np.isnan(af) | (af == bf) | (np.abs(af - bf) <= RTOL * np.maximum(1.0, np.maximum(np.abs(af), np.abs(bf)))))
        if bad.any():
            k = int(np.flatnonzero(bad.ravel())[0])
            return 'element %d: %r vs %r' % (k, af.ravel()[k], bf.ravel()[k])
        return None
    fa, fb = a.ravel().tolist(), b.ravel().tolist()
    for k, (x, y) in enumerate(zip(fa, fb)):
        if isinstance(x, float) and isinstance(y, float):
            if (x != x) != (y != y) or (x == x and abs(x - y) > RTOL * max(1.0, abs(x), abs(y))):
                return 'element %d: %r vs %r' % (k, x, y)
        elif not _obj_equal(x, y) and not (x == y):
            return 'element %d: %r vs %r' % (k, x, y)
    return None


def val_diff(a, b):
    """None if two canonical values agree (exact or 1e-9), else text"""
    if isinstance(a, tuple) and isinstance(b, tuple) and a and b and a[0] == b[0]:
        t = a[0]
        if t in ('nd', 'model', 'opt'):
            return _num_diff(a[1], b[1])
        if t == 'series':
            return _num_diff(a[1], b[1]) and 'index: ' + str(_num_diff(a[1], b[1])) or _num_diff(a[2], b[2])
        if t == 'frame':
            d = _num_diff(a[1], b[1])
            if d:
                return 'index: ' + d
            if set(a[2]) != set(b[2]):
                return 'columns %r vs %r' % (sorted(set(a[2]) - set(b[2])), sorted(set(b[2]) - set(a[2])))
            for c in a[2]:
                d = _num_diff(a[2][c], b[2][c])
                if d:
                    return 'column %s %s' % (c, d)
            return None
        if t == 'seq':
            if len(a[1]) != len(b[1]):
                return 'length %d vs %d' % (len(a[1]), len(b[1]))
            for k, (x, y) in enumerate(zip(a[1], b[1])):
                d = val_diff(x, y)
                if d:
                    return '[%d] %s' % (k, d)
            return None
        if t == 'dict':
            if set(a[1]) != set(b[1]):
                return 'keys differ'
            for k in a[1]:
                d = val_diff(a[1][k], b[1][k])
                if d:
                    return '[%s] %s' % (k, d)
            return None
        if t == 'obj':
            return None if a[1] == b[1] else 'type %s vs %s' % (a[1], b[1])
    if isinstance(a, float) and isinstance(b, (float, int)) or isinstance(b, float) and isinstance(a, (float, int)):
        a, b = float(a), float(b)
        if (a != a) and (b != b):
            return None
        if (a != a) != (b != b) or abs(a - b) > RTOL * max(1.0, abs(a), abs(b)):
            return '%r vs %r' % (a, b)
        return None
    if isinstance(a, tuple) or isinstance(b, tuple):
        return 'kind %s vs %s' % (a[0] if isinstance(a, tuple) else type(a).__name__, b[0] if isinstance(b, tuple) else type(b).__name__)
    return None if a == b else '%r vs %r' % (a, b)


STORED = ('df', 'gf', 'sample', 'target')     # the object's own working copies of the caller's frame


CDIAG_SEQ = [-1]


def state_diffs(sa, sb):
    """differing public attributes of two pubstate dicts: (results, latent).  `latent` = differences confined to the object's
    own working frame (scratch columns such as _ipfw_); they are not results and not the caller's data"""
    strict, latent = [], []
    for k in sorted(set(sa) | set(sb)):
        if k not in sa or k not in sb:
            strict.append('%s: attribute exists only on one side' % k)
            continue
        d = val_diff(sa[k], sb[k])
        if d:
            if k in STORED and isinstance(sa[k], tuple) and sa[k][0] == 'frame':
                latent.append('%s: %s' % (k, d))
            else:
                strict.append('%s: %s' % (k, d))
    return strict, latent


# ================================================================================================ data
def _expit(x):
    return 1.0 / (1.0 + np.exp(-x))


def set_index(df, kind, rng):
    n = len(df)
    if kind == 'shift':
        df.index = range(1000, 1000 + n)
    elif kind == 'shuffle':
        ix = list(range(n))
        rng.shuffle(ix)
        df.index = ix
    elif kind == 'str':
        df.index = ['id%04d' % i for i in range(n)]
    return df


def gen_frame(rng, cfg):
    """point-exposure data: W0 W1 (continuous), C0 (binary), C1 (ternary), A, Y [, fw]"""
    n = cfg.get('n') or rng.randint(40, 120)
    rs = np.random.RandomState(rng.randrange(2 ** 31))
    W0, W1 = np.round(rs.normal(size=n), 3), np.round(rs.normal(size=n), 3)
    C0, C1 = rs.binomial(1, 0.5, size=n), rs.randint(0, 3, size=n)
    lin = 0.5 * W0 - 0.4 * W1 + 0.5 * (C0 - 0.5) + 0.25 * (C1 - 1)
    A = rs.binomial(1, _expit(0.8 * lin + rng.uniform(-0.3, 0.3)))
    A[:2] = [0, 1]
    ylin = 0.6 * lin + rng.uniform(-0.5, 0.9) * A + rng.uniform(-0.3, 0.3)
    out = cfg.get('outcome', 'binary')
    if out == 'binary':
        Y = rs.binomial(1, _expit(ylin)).astype(float)
        Y[2:6] = [0., 1., 0., 1.]
    elif out == 'normal':
        Y = np.round(5 + 2 * ylin + rs.normal(size=n), 3)
    else:
        Y = rs.poisson(np.exp(0.4 + 0.4 * ylin)).astype(float)
        Y[2] = 3.0
    df = pd.DataFrame({'W0': W0, 'W1': W1, 'C0': C0, 'C1': C1, 'A': A, 'Y': Y})
    if cfg.get('fw'):
        df['fw'] = rs.randint(1, 4, size=n)
        df.loc[df.index[:4], 'fw'] = [1, 2, 3, 2]
    if cfg.get('missing'):
        if cfg['missing'] == 'mcar':
            m = rs.binomial(1, 0.15, size=n)
        else:
            m = rs.binomial(1, _expit(-1.6 + 0.5 * A + 0.4 * W0))
        m[:8] = 0
        m[8:11] = 1
        df.loc[m == 1, 'Y'] = np.nan
    set_index(df, cfg.get('index', 'range'), rng)
    return df


def gen_ipmw(rng, cfg):
    n = rng.randint(60, 140)
    rs = np.random.RandomState(rng.randrange(2 ** 31))
    L = np.round(rs.normal(size=n), 3)
    A = rs.binomial(1, _expit(0.4 * L))
    B = rs.binomial(1, _expit(0.3 * L + 0.3 * A)).astype(float)
    C = rs.binomial(1, _expit(-0.2 * L + 0.4 * B)).astype(float)
    mb = rs.binomial(1, _expit(-1.5 + 0.5 * A + 0.3 * L))
    mb[:6] = [0, 0, 0, 0, 1, 1]
    mc = np.where(mb == 1, 1, rs.binomial(1, _expit(-1.5 + 0.4 * L)))
    mc[:4] = [0, 0, 1, 1]
    df = pd.DataFrame({'L': L, 'A': A, 'B': B, 'C': C})
    if cfg['monotone']:
        df.loc[mb == 1, 'B'] = np.nan
        df.loc[mc == 1, 'C'] = np.nan
    else:
        df.loc[mb == 1, 'B'] = np.nan
        set_index(df, cfg.get('index', 'range'), rng)
    return df


def gen_long(rng, cfg):
    """person-period data: id, t (1..T), A, W, C0, d (event in the period); rows shuffled"""
    N, T = rng.randint(25, 50), rng.randint(3, 5)
    ids = rng.sample(range(1, 900), N)
    rows = []
    for k, i in enumerate(ids):
        a = k % 2 if k < 4 else int(rng.random() < 0.5)
        w = round(rng.gauss(0, 1), 3)
        c0 = int(rng.random() < 0.5)
        for t in range(1, T + 1):
            h = min(0.6, max(0.03, 0.12 + 0.08 * a + 0.05 * w + 0.02 * t))
            ev = rng.random() < h
            rows.append({'id': i, 't': t, 'A': a, 'W': w, 'C0': c0, 'd': float(ev)})
            if ev or rng.random() < 0.12 + 0.08 * c0:
                break
    rng.shuffle(rows)
    df = pd.DataFrame(rows)
    if cfg.get('fw'):                                   # non-constant positive integer weights, constant within id
        wid = {i: 1 + k % 3 if k < 6 else rng.randint(1, 3) for k, i in enumerate(ids)}
        df['fw'] = [wid[i] for i in df['id']]
    set_index(df, cfg.get('index', 'range'), rng)
    return df


def gen_mc(rng, cfg):
    n, T = rng.randint(40, 60), rng.randint(3, 4)
    ids = rng.sample(range(1, 5 * n), n)
    py, pc = rng.uniform(0.08, 0.2), rng.uniform(0.04, 0.12)
    rows = []
    for pid in ids:
        W = rng.randint(0, 1)
        lagA, lagL1 = 0, rng.randint(0, 1)
        for t in range(T):
            L1 = int(rng.random() < 0.25 + 0.35 * lagL1 + 0.1 * W)
            A = int(rng.random() < 0.2 + 0.3 * L1 + 0.25 * lagA)
            Y = int(rng.random() < py + 0.08 * L1 - 0.04 * A + 0.03 * W)
            C = int(rng.random() < pc + 0.04 * L1)
            rows.append({'id': pid, 't_in': t, 't_out': t + 1, 'W': W, 'L1': L1, 'A': A, 'Y': Y, 'lag_A': lagA, 'lag_L1': lagL1})
            if Y == 1 or C == 1:
                break
            lagA, lagL1 = A, L1
    rng.shuffle(rows)
    df = pd.DataFrame(rows)
    set_index(df, cfg.get('index', 'range'), rng)
    return df


def gen_wide(rng, cfg):
    """two time points, survival-type outcomes (NaN after the event)"""
    n = rng.randint(80, 160)
    rows = []
    for i in range(n):
        l0 = int(rng.random() < 0.5)
        a0 = i % 2 if i < 8 else int(rng.random() < 0.35 + 0.3 * l0)
        y0 = int(rng.random() < 0.15 + 0.1 * l0 - 0.05 * a0) if i >= 8 else 0
        if y0:
            rows.append([a0, l0, 1.0, np.nan, np.nan, np.nan])
            continue
        l1 = int(rng.random() < 0.3 + 0.3 * l0 - 0.1 * a0)
        a1 = (i // 2) % 2 if i < 8 else int(rng.random() < 0.3 + 0.3 * l1 + 0.2 * a0)
        y1 = int(rng.random() < 0.2 + 0.15 * l1 - 0.08 * a1)
        rows.append([a0, l0, 0.0, float(a1), float(l1), float(y1)])
    df = pd.DataFrame(rows, columns=['A0', 'L0', 'Y0', 'A1', 'L1', 'Y1'])
    set_index(df, cfg.get('index', 'range'), rng)
    return df


def gen_general(rng, cfg):
    """trial sample (S=1: A, Y observed) + target rows (S=0: A, Y missing)"""
    n = rng.randint(90, 160)
    rs = np.random.RandomState(rng.randrange(2 ** 31))
    W0 = np.round(rs.normal(size=n), 3)
    C0 = rs.binomial(1, 0.5, size=n)
    S = rs.binomial(1, _expit(0.3 + 0.5 * W0 - 0.4 * C0))
    S[:6] = [1, 1, 1, 1, 0, 0]
    A = rs.binomial(1, _expit(0.2 * W0 + 0.2 * C0)).astype(float)
    A[:4] = [0, 1, 0, 1]
    if cfg.get('outcome', 'binary') == 'binary':
        Y = rs.binomial(1, _expit(-0.3 + 0.6 * A + 0.4 * W0 - 0.3 * C0)).astype(float)
        Y[:4] = [0, 0, 1, 1]
    else:
        Y = np.round(2 + 0.8 * A + 0.5 * W0 + rs.normal(size=n), 3)
    df = pd.DataFrame({'W0': W0, 'C0': C0, 'S': S, 'A': A, 'Y': Y})
    if cfg.get('fw'):
        df['fw'] = rs.randint(1, 4, size=n)
        df.loc[df.index[:4], 'fw'] = [1, 2, 3, 2]
    df.loc[df['S'] == 0, ['A', 'Y']] = np.nan
    set_index(df, cfg.get('index', 'range'), rng)
    return df


def gen_measure(rng, cfg):
    """exposure e (2-3 levels), binary outcome y, person-time t, a test/disease pair; some missing values"""
    n = rng.randint(40, 120)
    rs = np.random.RandomState(rng.randrange(2 ** 31))
    lev = cfg.get('levels', 2)
    e = rs.randint(0, lev, size=n).astype(float)
    y = rs.binomial(1, 0.35 + 0.1 * (e > 0)).astype(float)
    e[:2 * lev] = list(range(lev)) * 2
    y[:2 * lev] = [0.] * lev + [1.] * lev
    t = np.round(rs.uniform(0.5, 20, size=n), 2)
    test = rs.binomial(1, 0.3 + 0.4 * y).astype(float)
    test[:4], y[-4:] = [0, 1, 0, 1], [0, 0, 1, 1]
    test[-4:] = [0, 1, 0, 1]
    df = pd.DataFrame({'e': e, 'y': y, 't': t, 'test': test})
    if cfg.get('missing'):
        df.loc[rs.binomial(1, 0.08, size=n) == 1, 'e'] = np.nan
        df.loc[rs.binomial(1, 0.08, size=n) == 1, 'y'] = np.nan
        df.iloc[:2 * lev, 0] = list(range(lev)) * 2
        df.iloc[:2 * lev, 1] = [0.] * lev + [1.] * lev
    set_index(df, cfg.get('index', 'range'), rng)
    return df


# ================================================================================================ estimator families
RHS = ['W0 + W1 + C0', 'W0 + C0', 'W0 + W1 + C0 + C(C1)', 'W0 + I(W0**2) + C0', 'C0 + W1', 'W1']
BOUNDS = [False, False, 0.1, 0.25, [0.1, 0.8], [0.2, 0.9]]
INDEXES = ['range', 'range', 'shift', 'shuffle', 'str']


class Fam:
    name = ''
    slots = []            # method name per specification slot (index = Coq slot number)
    required = []         # slot numbers fit() needs
    once_slots = []       # slots whose API is additive (specified at most once per history)
    diags = []            # (method label, required slots, needs a completed fit, callable(obj))
    summary = True
    causal = True         # refit independence is part of the property for this class
    bound_off = False     # the "no truncation" value of the class's bound argument
    weight = 1            # relative number of histories

    def gen_cfg(self, rng):
        return {}

    def slot_ok(self, slot, cfg):
        return True

    def in_force(self, obj):
        return {}

    def spec_text(self, slot, spec):
        return None

    def fit_method(self, args):
        return args.get('method', 'fit')

    def do_summary(self, obj):
        obj.summary()


def _model_bound(rng, a=False):
    return {'model': ('A + ' if a else '') + rng.choice(RHS), 'bound': rng.choice(BOUNDS), 'custom': rng.random() < 0.15}


def _learner(binary=True):
    from sklearn.linear_model import LogisticRegression, LinearRegression
    return LogisticRegression(penalty=None, solver='lbfgs', max_iter=500) if binary else LinearRegression()


class FamIPTW(Fam):
    name = 'IPTW'
    slots = ['treatment_model', 'missing_model', 'marginal_structural_model']
    required = [0, 2]
    diags = [('run_diagnostics', [0], False, lambda o: o.run_diagnostics()),
             ('positivity', [0], False, lambda o: o.positivity()),
             ('standardized_mean_differences', [0], False, lambda o: o.standardized_mean_differences()),
             ('plot_kde', [0], False, lambda o: o.plot_kde()),
             ('plot_boxplot', [0], False, lambda o: o.plot_boxplot()),
             ('plot_love', [0], False, lambda o: o.plot_love()),
             # the non-default options of the diagnostics (weights = IPTW x missingness weights; log-odds scale)
             ('run_diagnostics(iptw_only=False)', [0, 1], False, lambda o: o.run_diagnostics(iptw_only=False)),
             ('positivity(iptw_only=False)', [0, 1], False, lambda o: o.positivity(iptw_only=False)),
             ('standardized_mean_differences(iptw_only=False)', [0, 1], False, lambda o: o.standardized_mean_differences(iptw_only=False)),
             ('plot_love(iptw_only=False)', [0, 1], False, lambda o: o.plot_love(iptw_only=False)),
             ('plot_kde(logit)', [0], False, lambda o: o.plot_kde(measure='logit')),
             ('plot_boxplot(logit)', [0], False, lambda o: o.plot_boxplot(measure='logit'))]

    def gen_cfg(self, rng):
        return {'outcome': rng.choice(['binary', 'binary', 'normal']), 'missing': rng.choice([None, 'mar', 'mcar']),
                'standardize': rng.choice(['population', 'population', 'exposed', 'unexposed']), 'index': rng.choice(INDEXES),
                'fw': rng.random() < 0.4}

    def slot_ok(self, slot, cfg):
        return slot != 1 or bool(cfg['missing'])

    def gen_inputs(self, rng, cfg):
        return {'df': gen_frame(rng, cfg)}

    def construct(self, inp, cfg):
        from zepid.causal.ipw import IPTW
        return IPTW(inp['df'], treatment='A', outcome='Y', standardize=cfg['standardize'], weights='fw' if cfg['fw'] else None)

    def gen_spec(self, rng, slot, cfg):
        if slot == 0:
            stab = rng.random() < 0.6
            return {'den': rng.choice(RHS), 'num': rng.choice(['1', '1', 'C0']) if stab else '1', 'stabilized': stab, 'bound': rng.choice(BOUNDS)}
        if slot == 1:
            stab = rng.random() < 0.5
            return {'den': 'A + ' + rng.choice(RHS), 'num': rng.choice([None, 'A + C0']) if stab else None, 'stabilized': stab,
                    'bound': rng.choice(BOUNDS)}
        return {'model': rng.choice(['A', 'A', 'A + C0', 'A + C0 + A:C0'])}

    def do_spec(self, o, slot, s, inp):
        if slot == 0:
            o.treatment_model(s['den'], model_numerator=s['num'], stabilized=s['stabilized'], bound=s['bound'], print_results=False)
        elif slot == 1:
            o.missing_model(s['den'], model_numerator=s['num'], stabilized=s['stabilized'], bound=s['bound'], print_results=False)
        else:
            o.marginal_structural_model(s['model'])

    def gen_fit(self, rng, cfg):
        return {'dist': rng.choice(['gaussian', 'gaussian', 'poisson'])} if cfg['outcome'] == 'normal' else {}

    def do_fit(self, o, a, inp):
        o.fit(continuous_distribution=a.get('dist', 'gaussian'))

    def in_force(self, o):
        return {0: getattr(o, '_IPTW__mdenom', None), 2: o.ms_model}

    def spec_text(self, slot, s):
        return {0: s.get('den'), 2: s.get('model')}.get(slot)


PLANS = [{'p': 0.8}, {'p': 0.1}, {'p': 0.5}, {'p': [0.75, 0.9], 'cond': True}, {'p': [0.2, 0.6], 'cond': True}]


class FamStochIPTW(Fam):
    name = 'StochasticIPTW'
    slots = ['treatment_model']
    required = [0]

    def gen_cfg(self, rng):
        return {'outcome': rng.choice(['binary', 'normal']), 'missing': rng.choice([None, None, 'mcar']), 'index': rng.choice(INDEXES),
                'fw': rng.random() < 0.4}

    def gen_inputs(self, rng, cfg):
        return {'df': gen_frame(rng, cfg), 'p_pair': [0.75, 0.9], 'conditional': ["df['C0']==1", "df['C0']==0"],
                'p_arr': np.array([0.2, 0.6])}

    def construct(self, inp, cfg):
        from zepid.causal.ipw import StochasticIPTW
        return StochasticIPTW(inp['df'], treatment='A', outcome='Y', weights='fw' if cfg['fw'] else None)

    def gen_spec(self, rng, slot, cfg):
        return {'model': rng.choice(RHS)}

    def do_spec(self, o, slot, s, inp):
        o.treatment_model(s['model'], print_results=False)

    def gen_fit(self, rng, cfg):
        return dict(rng.choice(PLANS))

    def do_fit(self, o, a, inp):
        if a.get('cond'):
            o.fit(p=inp['p_pair'] if a['p'][0] == 0.75 else inp['p_arr'], conditional=inp['conditional'])
        else:
            o.fit(p=a['p'])


class FamIPMW(Fam):
    name = 'IPMW'
    slots = ['regression_models']
    required = [0]
    summary = False

    def gen_cfg(self, rng):
        mono = rng.random() < 0.4
        return {'monotone': mono, 'stabilized': rng.random() < 0.5, 'index': 'range' if mono else rng.choice(INDEXES)}

    def gen_inputs(self, rng, cfg):
        return {'df': gen_ipmw(rng, cfg), 'missing_variable': ['B', 'C'] if cfg['monotone'] else 'B',
                'models': ['L + A', 'L + B'], 'models2': ['A', 'L + A + B']}

    def construct(self, inp, cfg):
        from zepid.causal.ipw import IPMW
        return IPMW(inp['df'], missing_variable=inp['missing_variable'], stabilized=cfg['stabilized'], monotone=True)

    def gen_spec(self, rng, slot, cfg):
        if cfg['monotone']:
            return {'which': rng.choice(['models', 'models2']), 'num': rng.choice(['1', 'A']) if cfg['stabilized'] else '1'}
        return {'den': rng.choice(['L + A', 'L', 'A + L + C']), 'num': rng.choice(['1', 'A']) if cfg['stabilized'] else '1'}

    def do_spec(self, o, slot, s, inp):
        if 'which' in s:
            o.regression_models(inp[s['which']], model_numerator=[s['num'], s['num']] if s['num'] != '1' else '1', print_results=False)
        else:
            o.regression_models(s['den'], model_numerator=s['num'], print_results=False)

    def gen_fit(self, rng, cfg):
        return {}

    def do_fit(self, o, a, inp):
        o.fit()


class FamIPCW(Fam):
    name = 'IPCW'
    slots = ['regression_models']
    required = [0]
    summary = False

    def gen_cfg(self, rng):
        return {'index': rng.choice(INDEXES)}

    def gen_inputs(self, rng, cfg):
        return {'df': gen_long(rng, cfg)}

    def construct(self, inp, cfg):
        from zepid.causal.ipw import IPCW
        return IPCW(inp['df'], idvar='id', time='t', event='d')

    def gen_spec(self, rng, slot, cfg):
        return {'den': rng.choice(['t + A + W + C0', 't + C0', 't + I(t**2) + A + C0']), 'num': rng.choice(['t', '1', 't + A'])}

    def do_spec(self, o, slot, s, inp):
        o.regression_models(model_denominator=s['den'], model_numerator=s['num'], print_results=False)

    def gen_fit(self, rng, cfg):
        return {}

    def do_fit(self, o, a, inp):
        o.fit()


class FamIPCWflat(FamIPCW):
    name = 'IPCW'
    label = 'IPCW(flat_df=True)'

    def gen_inputs(self, rng, cfg):
        n = rng.randint(40, 80)
        rs = np.random.RandomState(rng.randrange(2 ** 31))
        df = pd.DataFrame({'id': rng.sample(range(1, 999), n), 't': rs.randint(1, 5, size=n).astype(float) + np.round(rs.uniform(0, 0.9, size=n), 1),
                           'd': rs.binomial(1, 0.4, size=n), 'A': rs.binomial(1, 0.5, size=n), 'W': np.round(rs.normal(size=n), 3),
                           'C0': rs.binomial(1, 0.5, size=n)})
        return {'df': set_index(df, cfg.get('index', 'range'), rng)}

    def construct(self, inp, cfg):
        from zepid.causal.ipw import IPCW
        return IPCW(inp['df'], idvar='id', time='t', event='d', flat_df=True)

    def gen_spec(self, rng, slot, cfg):
        return {'den': rng.choice(['t_enter + A + W + C0', 't_enter + C0']), 'num': rng.choice(['t_enter', '1'])}


class FamTimeFixed(Fam):
    name = 'TimeFixedGFormula'
    slots = ['outcome_model']
    required = [0]
    summary = False
    diags = [('run_diagnostics', [0], False, lambda o: o.run_diagnostics()), ('plot_kde', [0], False, lambda o: o.plot_kde())]

    def gen_cfg(self, rng):
        out = rng.choice(['binary', 'binary', 'normal', 'poisson'])
        fw = rng.random() < 0.4
        return {'outcome': out, 'missing': rng.choice([None, None, 'mar']), 'index': rng.choice(INDEXES), 'fw': fw,
                'standardize': rng.choice(['population', 'population', 'exposed', 'unexposed'])}

    def gen_inputs(self, rng, cfg):
        return {'df': gen_frame(rng, cfg), 'conditional': ["g['C0']==1", "g['C0']==0"], 'p_pair': [0.75, 0.9]}

    def construct(self, inp, cfg):
        from zepid.causal.gformula import TimeFixedGFormula
        return TimeFixedGFormula(inp['df'], exposure='A', outcome='Y', outcome_type=cfg['outcome'], standardize=cfg['standardize'],
                                 weights='fw' if cfg['fw'] else None)

    def gen_spec(self, rng, slot, cfg):
        return {'model': 'A + ' + rng.choice(RHS + ['W0 + A:W0'])}

    def do_spec(self, o, slot, s, inp):
        o.outcome_model(s['model'], print_results=False)

    def gen_fit(self, rng, cfg):
        k = rng.random()
        if k < 0.65:
            return {'treatment': rng.choice(['all', 'none', 'all', 'none', "g['W0'] > 0", "(g['C0']==1) | (g['W1']<0)"]),
                    'predict_missing': rng.random() < 0.8}
        a = dict(rng.choice(PLANS))
        a.update({'method': 'fit_stochastic', 'seed': rng.choice([0, 0, 1, rng.randrange(10 ** 6), 2 ** 32 - 1, None, None]), 'samples': rng.choice([5, 10]),
                  'gseed': rng.randrange(10 ** 6)})   # boundary seeds are valid seeds; None = the caller seeds the global generator
        return a

    def do_fit(self, o, a, inp):
        if a.get('method') == 'fit_stochastic':
            if a['seed'] is None:
                np.random.seed(a['gseed'])
            if a.get('cond'):
                o.fit_stochastic(p=inp['p_pair'] if a['p'][0] == 0.75 else list(a['p']), conditional=inp['conditional'], samples=a['samples'], seed=a['seed'])
            else:
                o.fit_stochastic(p=a['p'], samples=a['samples'], seed=a['seed'])
        else:
            o.fit(a['treatment'], predict_missing=a['predict_missing'])


class FamSurvival(Fam):
    name = 'SurvivalGFormula'
    slots = ['outcome_model']
    required = [0]
    summary = False
    diags = [('plot', [0], True, lambda o: o.plot())]

    def gen_cfg(self, rng):
        return {'index': rng.choice(INDEXES), 'fw': rng.random() < 0.4}

    def gen_inputs(self, rng, cfg):
        return {'df': gen_long(rng, cfg)}

    def construct(self, inp, cfg):
        from zepid.causal.gformula import SurvivalGFormula
        return SurvivalGFormula(inp['df'], idvar='id', exposure='A', outcome='d', time='t', weights='fw' if cfg['fw'] else None)

    def gen_spec(self, rng, slot, cfg):
        return {'model': rng.choice(['A + t + W', 'A + t', 'A + t + I(t**2) + W + C0', 'A*t + W'])}

    def do_spec(self, o, slot, s, inp):
        o.outcome_model(s['model'], print_results=False)

    def gen_fit(self, rng, cfg):
        return {'treatment': rng.choice(['all', 'none', 'natural', "g['W'] > 0"])}

    def do_fit(self, o, a, inp):
        o.fit(a['treatment'])


class FamMonteCarlo(Fam):
    name = 'MonteCarloGFormula'
    slots = ['exposure_model', 'outcome_model', 'censoring_model', 'add_covariate_model']
    required = [0, 1]
    once_slots = [3]
    summary = False

    def gen_cfg(self, rng):
        return {'index': rng.choice(['range', 'shuffle', 'shift'])}

    def gen_inputs(self, rng, cfg):
        return {'df': gen_mc(rng, cfg), 'lags': {'A': 'lag_A', 'L1': 'lag_L1'}}

    def construct(self, inp, cfg):
        from zepid.causal.gformula import MonteCarloGFormula
        return MonteCarloGFormula(inp['df'], idvar='id', exposure='A', outcome='Y', time_in='t_in', time_out='t_out')

    def gen_spec(self, rng, slot, cfg):
        if slot == 0:
            return {'model': rng.choice(['L1 + lag_A + W', 'L1 + W', 'L1 + lag_A + lag_L1']), 'restriction': rng.choice([None, None, "g['lag_A']==0"])}
        if slot == 1:
            return {'model': rng.choice(['A + L1 + W + t_in', 'A + L1', 'A + L1 + lag_A + W'])}
        if slot == 2:
            return {'model': rng.choice(['L1 + A', 'L1 + A + lag_A', 'W'])}
        return {'model': rng.choice(['lag_L1 + lag_A + W', 'lag_L1'])}

    def do_spec(self, o, slot, s, inp):
        if slot == 0:
            o.exposure_model(s['model'], restriction=s['restriction'], print_results=False)
        elif slot == 1:
            o.outcome_model(s['model'], print_results=False)
        elif slot == 2:
            o.censoring_model(s['model'], print_results=False)
        else:
            o.add_covariate_model(label=1, covariate='L1', model=s['model'], print_results=False)

    def gen_fit(self, rng, cfg):
        return {'treatment': rng.choice(['all', 'none', 'natural', "((g['L1']==1) | (g['lag_A']==1))"]), 'sample': rng.choice([60, 100]),
                't_max': rng.choice([None, None, 2]), 'seed': rng.randrange(10 ** 6), 'low_memory': rng.random() < 0.5}

    def do_fit(self, o, a, inp):
        np.random.seed(a['seed'])
        o.fit(a['treatment'], lags=inp['lags'], sample=a['sample'], t_max=a['t_max'], low_memory=a['low_memory'])


class FamICG(Fam):
    name = 'IterativeCondGFormula'
    slots = ['outcome_model']
    required = [0]
    summary = False

    def gen_cfg(self, rng):
        return {'index': rng.choice(INDEXES)}

    def gen_inputs(self, rng, cfg):
        df = gen_wide(rng, cfg)
        n = len(df)
        rs = np.random.RandomState(rng.randrange(2 ** 31))
        return {'df': df, 'models_a': ['A0 + L0', 'A1 + A0 + L1'], 'models_b': ['A0', 'A1 + L1'], 'plan_list': [1, 0],
                'plan_arr': rs.binomial(1, 0.5, size=(n, 2)), 'plan_row': np.array([[0, 1]])}

    def construct(self, inp, cfg):
        from zepid.causal.gformula import IterativeCondGFormula
        return IterativeCondGFormula(inp['df'], exposures=['A0', 'A1'], outcomes=['Y0', 'Y1'])

    def gen_spec(self, rng, slot, cfg):
        return {'which': rng.choice(['models_a', 'models_b'])}

    def do_spec(self, o, slot, s, inp):
        o.outcome_model(inp[s['which']], print_results=False)

    def gen_fit(self, rng, cfg):
        return {'plan': rng.choice(['11', '00', '10', 'plan_list', 'plan_arr', 'plan_row'])}

    def do_fit(self, o, a, inp):
        p = a['plan']
        o.fit(treatments=inp[p] if p in inp else [int(c) for c in p])

    def in_force(self, o):
        return {0: None if o._modelform is None else ' | '.join(o._modelform)}

    def spec_text(self, slot, s):
        return ' | '.join({'models_a': ['A0 + L0', 'A1 + A0 + L1'], 'models_b': ['A0', 'A1 + L1']}[s['which']])


class FamAIPTW(Fam):
    name = 'AIPTW'
    slots = ['exposure_model', 'outcome_model', 'missing_model']
    required = [0, 1]
    diags = [('run_diagnostics', [0, 1], True, lambda o: o.run_diagnostics()),
             ('positivity', [0], False, lambda o: o.positivity()),
             ('standardized_mean_differences', [0], False, lambda o: o.standardized_mean_differences()),
             ('plot_kde', [0], False, lambda o: o.plot_kde('exposure')),
             ('plot_kde_outcome', [0, 1], False, lambda o: o.plot_kde('outcome')),
             ('plot_love', [0], False, lambda o: o.plot_love())]
    cls = 'AIPTW'

    def gen_cfg(self, rng):
        return {'outcome': rng.choice(['binary', 'binary', 'normal']), 'missing': rng.choice([None, 'mar', 'mcar']),
                'index': rng.choice(INDEXES), 'alpha': rng.choice([0.05, 0.05, 0.1]), 'fw': rng.random() < 0.4 and self.name == 'AIPTW'}

    def slot_ok(self, slot, cfg):
        return slot != 2 or bool(cfg['missing'])

    def gen_inputs(self, rng, cfg):
        return {'df': gen_frame(rng, cfg)}

    def construct(self, inp, cfg):
        from zepid.causal.doublyrobust import AIPTW
        return AIPTW(inp['df'], exposure='A', outcome='Y', alpha=cfg['alpha'], weights='fw' if cfg['fw'] else None)

    def gen_spec(self, rng, slot, cfg):
        if slot == 0:
            return _model_bound(rng)
        if slot == 1:
            return {'model': 'A + ' + rng.choice(RHS), 'dist': rng.choice(['gaussian', 'gaussian', 'poisson']) if cfg['outcome'] == 'normal' else 'gaussian',
                    'custom': rng.random() < 0.15}
        return _model_bound(rng, a=True)

    def do_spec(self, o, slot, s, inp):
        if slot == 0:
            o.exposure_model(s['model'], custom_model=_learner() if s['custom'] else None, bound=s['bound'], print_results=False)
        elif slot == 1:
            o.outcome_model(s['model'], custom_model=_learner(self.cfg['outcome'] == 'binary') if s['custom'] else None,
                            continuous_distribution=s['dist'], print_results=False)
        else:
            o.missing_model(s['model'], custom_model=_learner() if s['custom'] else None, bound=s['bound'], print_results=False)

    def gen_fit(self, rng, cfg):
        return {}

    def do_fit(self, o, a, inp):
        o.fit()

    def in_force(self, o):
        return {0: o._exp_model, 1: o._out_model, 2: getattr(o, '_miss_model', None)}

    def spec_text(self, slot, s):
        return {0: 'A ~ ', 1: 'Y ~ ', 2: '__missing_indicator__ ~ '}[slot] + s['model']


class FamTMLE(FamAIPTW):
    name = 'TMLE'
    diags = [('run_diagnostics', [0, 1], True, lambda o: o.run_diagnostics()),
             ('positivity', [0], False, lambda o: o.positivity()),
             ('standardized_mean_differences', [0], False, lambda o: o.standardized_mean_differences()),
             ('plot_kde', [0, 1], False, lambda o: o.plot_kde('exposure')),
             ('plot_kde_outcome', [0, 1], False, lambda o: o.plot_kde('outcome')),
             ('plot_love', [0], False, lambda o: o.plot_love())]

    def construct(self, inp, cfg):
        from zepid.causal.doublyrobust import TMLE
        return TMLE(inp['df'], exposure='A', outcome='Y', alpha=cfg['alpha'])

    def gen_spec(self, rng, slot, cfg):
        s = FamAIPTW.gen_spec(self, rng, slot, cfg)
        if slot == 1:
            s['bound'] = rng.choice([False, False, 0.01, [0.02, 0.97]]) if cfg['outcome'] == 'normal' else False
        return s

    def do_spec(self, o, slot, s, inp):
        if slot == 1:
            o.outcome_model(s['model'], custom_model=_learner(self.cfg['outcome'] == 'binary') if s['custom'] else None, bound=s['bound'],
                            continuous_distribution=s['dist'], print_results=False)
        else:
            FamAIPTW.do_spec(self, o, slot, s, inp)


class FamStochTMLE(Fam):
    name = 'StochasticTMLE'
    slots = ['exposure_model', 'outcome_model']
    required = [0, 1]
    diags = [('run_diagnostics', [0, 1], True, lambda o: o.run_diagnostics())]

    def gen_cfg(self, rng):
        return {'outcome': rng.choice(['binary', 'binary', 'normal']), 'missing': rng.choice([None, None, 'mcar']),
                'index': rng.choice(INDEXES), 'alpha': rng.choice([0.05, 0.1]), 'fw': False}

    def gen_inputs(self, rng, cfg):
        return {'df': gen_frame(rng, cfg), 'p_pair': [0.75, 0.9], 'conditional': ["df['C0']==1", "df['C0']==0"], 'p_arr': np.array([0.2, 0.6])}

    def construct(self, inp, cfg):
        from zepid.causal.doublyrobust import StochasticTMLE
        return StochasticTMLE(inp['df'], exposure='A', outcome='Y', alpha=cfg['alpha'])

    def gen_spec(self, rng, slot, cfg):
        if slot == 0:
            return _model_bound(rng)
        return {'model': 'A + ' + rng.choice(RHS), 'dist': rng.choice(['gaussian', 'poisson']) if cfg['outcome'] == 'normal' else 'gaussian',
                'bound': rng.choice([False, False, 0.01]) if cfg['outcome'] == 'normal' else False, 'custom': rng.random() < 0.15}

    def do_spec(self, o, slot, s, inp):
        if slot == 0:
            o.exposure_model(s['model'], custom_model=_learner() if s['custom'] else None, bound=s['bound'])
        else:
            o.outcome_model(s['model'], custom_model=_learner(self.cfg['outcome'] == 'binary') if s['custom'] else None, bound=s['bound'],
                            continuous_distribution=s['dist'])

    def gen_fit(self, rng, cfg):
        a = dict(rng.choice(PLANS))
        # seed=None: the caller seeds numpy's global generator himself (gseed) -- an earlier seeded fit must not stick to the object
        a.update({'samples': rng.choice([5, 12]), 'seed': rng.choice([0, 0, 1, rng.randrange(10 ** 6), 2 ** 32 - 1, None, None]),
                  'gseed': rng.randrange(10 ** 6)})
        return a

    def do_fit(self, o, a, inp):
        if a['seed'] is None:
            np.random.seed(a['gseed'])
        if a.get('cond'):
            o.fit(p=inp['p_pair'] if a['p'][0] == 0.75 else inp['p_arr'], conditional=inp['conditional'], samples=a['samples'], seed=a['seed'])
        else:
            o.fit(p=a['p'], samples=a['samples'], seed=a['seed'])

    def in_force(self, o):
        return {0: o._g_model, 1: o._q_model}

    def spec_text(self, slot, s):
        return {0: 'A ~ ', 1: 'Y ~ '}[slot] + s['model']


class FamSNM(Fam):
    name = 'GEstimationSNM'
    slots = ['exposure_model', 'structural_nested_model', 'missing_model']
    required = [0, 1]

    def gen_cfg(self, rng):
        return {'outcome': rng.choice(['normal', 'normal', 'binary']), 'missing': rng.choice([None, 'mar', 'mcar']), 'index': rng.choice(INDEXES),
                'fw': rng.random() < 0.4}

    def slot_ok(self, slot, cfg):
        return slot != 2 or bool(cfg['missing'])

    def gen_inputs(self, rng, cfg):
        return {'df': gen_frame(rng, cfg), 'start': [0.0, 0.0], 'alpha': np.array([0.0, 0.0])}

    def construct(self, inp, cfg):
        from zepid.causal.snm import GEstimationSNM
        return GEstimationSNM(inp['df'], exposure='A', outcome='Y', weights='fw' if cfg['fw'] else None)

    def gen_spec(self, rng, slot, cfg):
        if slot == 0:
            return {'model': rng.choice(RHS)}
        if slot == 1:
            return {'model': rng.choice(['A', 'A', 'A + A:C0'])}
        stab = rng.random() < 0.5
        return {'den': 'A + ' + rng.choice(RHS), 'num': rng.choice([None, 'A']) if stab else None, 'stabilized': stab, 'bound': rng.choice(BOUNDS)}

    def do_spec(self, o, slot, s, inp):
        if slot == 0:
            o.exposure_model(s['model'], print_results=False)
        elif slot == 1:
            o.structural_nested_model(s['model'])
        else:
            o.missing_model(s['den'], model_numerator=s['num'], stabilized=s['stabilized'], bound=s['bound'], print_results=False)

    def gen_fit(self, rng, cfg):
        return {'solver': rng.choice(['closed'] * 5 + ['search', 'search-default'])}

    def do_fit(self, o, a, inp):
        if a['solver'] == 'search':
            npsi = 2 if ':' in (o._snm_ or '') else 1
            o.fit(solver='search', starting_value=inp['start'][:npsi], alpha_value=inp['alpha'][:npsi] if npsi == 2 else 0, maxiter=200)
        elif a['solver'] == 'search-default':
            o.fit(solver='search', maxiter=40)        # the documented default start (zeros), whatever was fitted before
        else:
            o.fit()

    def in_force(self, o):
        return {0: o._treatment_model, 1: o._snm_}

    def spec_text(self, slot, s):
        return s.get('model')


class FamIPSW(Fam):
    name = 'IPSW'
    bound_off = None
    slots = ['sampling_model', 'treatment_model']
    required = [0]

    def gen_cfg(self, rng):
        return {'generalize': rng.random() < 0.5, 'outcome': 'binary', 'index': rng.choice(INDEXES), 'fw': rng.random() < 0.4}

    def gen_inputs(self, rng, cfg):
        return {'df': gen_general(rng, cfg)}

    def construct(self, inp, cfg):
        from zepid.causal.generalize import IPSW
        return IPSW(inp['df'], exposure='A', outcome='Y', selection='S', generalize=cfg['generalize'], weights='fw' if cfg['fw'] else None)

    def gen_spec(self, rng, slot, cfg):
        stab = rng.random() < 0.6
        # stabilized=False with a bound is not generated for sampling_model: the constant integer numerator 1 is truncated to 0 by
        # probability_bounds (int array), every weight becomes 0 and fit() raises ZeroDivisionError -- a truncation defect (C17), not C11
        return {'den': rng.choice(['W0 + C0', 'W0', 'W0 + I(W0**2) + C0']), 'num': rng.choice(['1', '1', 'C0']) if stab else '1',
                'stabilized': stab, 'bound': rng.choice([None, None, 0.1, [0.1, 0.9]]) if (stab or slot == 1) else None}

    def do_spec(self, o, slot, s, inp):
        m = o.sampling_model if slot == 0 else o.treatment_model
        m(s['den'], model_numerator=s['num'], bound=s['bound'], stabilized=s['stabilized'], print_results=False)

    def gen_fit(self, rng, cfg):
        return {}

    def do_fit(self, o, a, inp):
        o.fit()


class FamGTransport(Fam):
    name = 'GTransportFormula'
    slots = ['outcome_model']
    required = [0]

    def gen_cfg(self, rng):
        out = rng.choice(['binary', 'binary', 'normal'])
        return {'generalize': rng.random() < 0.5, 'outcome': out, 'index': rng.choice(INDEXES), 'fw': rng.random() < 0.4}

    def gen_inputs(self, rng, cfg):
        return {'df': gen_general(rng, cfg)}

    def construct(self, inp, cfg):
        from zepid.causal.generalize import GTransportFormula
        return GTransportFormula(inp['df'], exposure='A', outcome='Y', selection='S', outcome_type=cfg['outcome'], generalize=cfg['generalize'],
                                 weights='fw' if cfg['fw'] else None)

    def gen_spec(self, rng, slot, cfg):
        return {'model': rng.choice(['A + W0 + C0', 'A + W0', 'A + W0 + A:W0 + C0'])}

    def do_spec(self, o, slot, s, inp):
        o.outcome_model(s['model'], print_results=False)

    def gen_fit(self, rng, cfg):
        return {}

    def do_fit(self, o, a, inp):
        o.fit()


class FamAIPSW(Fam):
    name = 'AIPSW'
    bound_off = None
    slots = ['sampling_model', 'outcome_model', 'treatment_model']
    required = [0, 1]

    def gen_cfg(self, rng):
        return {'generalize': rng.random() < 0.5, 'outcome': rng.choice(['binary', 'binary', 'normal']), 'index': rng.choice(INDEXES)}

    def gen_inputs(self, rng, cfg):
        return {'df': gen_general(rng, cfg)}

    def construct(self, inp, cfg):
        from zepid.causal.generalize import AIPSW
        return AIPSW(inp['df'], exposure='A', outcome='Y', selection='S', generalize=cfg['generalize'])

    def gen_spec(self, rng, slot, cfg):
        if slot == 1:
            return {'model': rng.choice(['A + W0 + C0', 'A + W0', 'A + W0 + A:W0 + C0'])}
        stab = rng.random() < 0.6
        s = {'den': rng.choice(['W0 + C0', 'W0', 'W0 + I(W0**2) + C0']), 'num': rng.choice(['1', '1', 'C0']) if stab else '1', 'stabilized': stab}
        if slot == 2:
            s['bound'] = rng.choice([None, None, 0.1, [0.1, 0.9]])
        return s

    def do_spec(self, o, slot, s, inp):
        if slot == 0:
            o.sampling_model(s['den'], model_numerator=s['num'], stabilized=s['stabilized'], print_results=False)
        elif slot == 1:
            o.outcome_model(s['model'], outcome_type=self.cfg['outcome'], print_results=False)
        else:
            o.treatment_model(s['den'], model_numerator=s['num'], bound=s['bound'], stabilized=s['stabilized'], print_results=False)

    def gen_fit(self, rng, cfg):
        return {}

    def do_fit(self, o, a, inp):
        o.fit()


class FamMeasure(Fam):
    """zepid.base effect-measure classes: no specification slots; fit(df, ...) is the only mutating call"""
    causal = False
    slots = []
    required = []
    weight = 0.5

    def __init__(self, name, kind):
        self.name, self.kind = name, kind
        self.diags = [('plot', [], True, lambda o: o.plot())] if kind in ('risk', 'rate') and name != 'NNT' else []

    def gen_cfg(self, rng):
        return {'levels': rng.choice([2, 2, 3]), 'missing': rng.random() < 0.5, 'index': rng.choice(INDEXES), 'alpha': rng.choice([0.05, 0.1])}

    def gen_inputs(self, rng, cfg):
        return {'df': gen_measure(rng, cfg)}

    def construct(self, inp, cfg):
        import zepid
        c = getattr(zepid, self.name)
        return c(alpha=cfg['alpha']) if self.kind == 'test' else c(reference=0, alpha=cfg['alpha'])

    def gen_fit(self, rng, cfg):
        return {}

    def do_fit(self, o, a, inp):
        if self.kind == 'risk':
            o.fit(inp['df'], exposure='e', outcome='y')
        elif self.kind == 'rate':
            o.fit(inp['df'], exposure='e', outcome='y', time='t')
        else:
            o.fit(inp['df'], test='test', disease='y')


def families():
    fams = [FamIPTW(), FamStochIPTW(), FamIPMW(), FamIPCW(), FamIPCWflat(), FamTimeFixed(), FamSurvival(), FamMonteCarlo(), FamICG(),
            FamAIPTW(), FamTMLE(), FamStochTMLE(), FamSNM(), FamIPSW(), FamGTransport(), FamAIPSW()]
    for n in ('RiskRatio', 'RiskDifference', 'NNT', 'OddsRatio'):
        fams.append(FamMeasure(n, 'risk'))
    for n in ('IncidenceRateRatio', 'IncidenceRateDifference'):
        fams.append(FamMeasure(n, 'rate'))
    for n in ('Sensitivity', 'Specificity', 'Diagnostics'):
        fams.append(FamMeasure(n, 'test'))
    return fams


# ================================================================================================ histories
def gen_history(fam, rng, cfg, style=None):
    avail = [s for s in range(len(fam.slots)) if fam.slot_ok(s, cfg)]
    req = [s for s in fam.required]
    opt = [s for s in avail if s not in req]
    used_once = set()

    last = {}

    def spec(s):
        if s in fam.once_slots:
            used_once.add(s)
        new = fam.gen_spec(rng, s, cfg)
        if s in last and rng.random() < 0.65:            # respecification: change ONE aspect of the specification in force
            old = dict(last[s])
            keys = [k for k in ('bound', 'stabilized', 'custom', 'model', 'den', 'dist', 'which', 'num', 'restriction') if k in old]
            k = rng.choice(keys)
            if k in ('bound', 'custom') and old[k]:
                old[k] = None if (k == 'bound' and new.get('bound', False) is None) else False     # switch truncation / learner OFF again
                if k == 'bound' and new.get('bound') is None:
                    old[k] = None
            elif k == 'stabilized':
                old[k] = not old[k]
                if not old[k]:
                    old['num'] = None if old.get('num') is None else '1'
                    if fam.name == 'IPSW' and s == 0:
                        old['bound'] = None
            else:
                old[k] = new[k]
                if k == 'num' and not old.get('stabilized', True):
                    old['num'] = None if new['num'] is None else '1'
            new = old
        last[s] = new
        return ['spec', s, new]

    def fit():
        return ['fit', fam.gen_fit(rng, cfg)]

    def pure():
        if fam.diags and (not fam.summary or rng.random() < 0.6):
            return ['diag', rng.randrange(len(fam.diags))]
        return ['summary'] if fam.summary else None

    def optional():
        c = [s for s in opt if s not in used_once]
        return spec(rng.choice(c)) if c else None

    ops = []
    if not fam.slots:                                  # effect-measure classes: one fit per object
        style = rng.choice(['guard', 'plain'])
        if style == 'guard':
            ops.append(pure())
        ops.append(fit())
        for _ in range(rng.randint(0, 3)):
            ops.append(pure())
        return style, [o for o in ops if o][:8]
    style = style or rng.choice(['guard', 'respec', 'refit', 'repeat', 'toggle', 'random', 'random'])
    order = list(req)
    rng.shuffle(order)
    if style == 'repeat':
        # fit() two or three times in a row, with or without one respecification in between: a refit must not compound anything
        for sl in order:
            ops.append(spec(sl))
        if opt and rng.random() < 0.35:
            ops.append(optional())
        first = fit()
        ops.append(first)
        ops.append(list(first) if rng.random() < 0.7 else fit())
        if rng.random() < 0.5:
            ops.append(spec(rng.choice(req)))
        ops.append(list(first) if rng.random() < 0.7 else fit())
        if fam.summary and rng.random() < 0.4:
            ops.append(['summary'])
        return style, [o for o in ops if o][:8]
    if style == 'toggle':
        # documented pattern: specify with truncation / a user learner / stabilisation, fit, specify again WITHOUT them, fit
        rich = {}
        for sl in order + [x for x in opt if rng.random() < 0.5]:
            new = fam.gen_spec(rng, sl, cfg)
            for _ in range(30):
                if 'bound' not in new or new['bound']:
                    break
                new = fam.gen_spec(rng, sl, cfg)
            if 'custom' in new:
                new['custom'] = rng.random() < 0.6
            rich[sl] = new
            ops.append(['spec', sl, new])
            if sl in fam.once_slots:
                used_once.add(sl)
        ops.append(fit())
        tog = [sl for sl in rich if sl not in fam.once_slots and (rich[sl].get('bound') or rich[sl].get('custom'))]
        rng.shuffle(tog)
        for sl in tog[:rng.randint(1, max(1, len(tog)))]:
            off = dict(rich[sl])
            if off.get('bound'):
                off['bound'] = fam.bound_off
            if off.get('custom'):
                off['custom'] = False
            ops.append(['spec', sl, off])
        ops.append(fit() if rng.random() < 0.5 else list(ops[len(rich)]))
        if fam.summary and rng.random() < 0.5:
            ops.append(['summary'])
        return style, ops[:8]
    if style == 'guard':
        k = rng.randrange(len(order))                  # strict subset of the required slots first
        for s in order[:k]:
            ops.append(spec(s))
        if opt and rng.random() < 0.4:
            ops.append(optional())
        ops.append(rng.choice([fit(), fit(), ['summary'] if fam.summary else fit(), pure() or fit()]))
        for s in order[k:]:
            ops.append(spec(s))
        ops.append(fit())
    else:
        for s in order:
            ops.append(spec(s))
            if opt and rng.random() < 0.3:
                ops.append(optional())
        if rng.random() < 0.15:
            ops.append(pure())
        ops.append(fit())
    ops = [o for o in ops if o]
    target = rng.randint(max(1, len(ops)), 8) if len(ops) < 8 else 8
    while len(ops) < target:
        r = rng.random()
        if style == 'respec':
            nxt = spec(rng.choice(req)) if r < 0.45 else fit() if r < 0.75 else (optional() if r < 0.85 else pure())
        elif style == 'refit':
            nxt = fit() if r < 0.6 else (pure() if r < 0.8 else spec(rng.choice(req)))
        else:
            nxt = spec(rng.choice(req)) if r < 0.3 else fit() if r < 0.6 else (optional() if r < 0.72 else pure())
        if nxt:
            ops.append(nxt)
    ops = ops[:8]
    if ops[-1][0] == 'spec' and rng.random() < 0.75:
        ops = ops[:7] + [fit()] if len(ops) == 8 else ops + [fit()]
    if rng.random() < 0.1:
        ops = ops[:rng.randint(1, len(ops))]             # short histories, including ones that stop before any fit
    return style, ops


class Coding:
    """integer tokens for specifications / fit arguments of one case"""

    def __init__(self):
        self.spec_ids, self.fit_ids, self.specs, self.fits = {}, {}, {}, {}

    def spec(self, slot, s):
        k = json.dumps([slot, s], sort_keys=True)
        if k not in self.spec_ids:
            self.spec_ids[k] = len(self.spec_ids) + 1
            self.specs[self.spec_ids[k]] = (slot, s)
        return self.spec_ids[k]

    def fit(self, a):
        k = json.dumps(a, sort_keys=True)
        if k not in self.fit_ids:
            self.fit_ids[k] = len(self.fit_ids) + 1
            self.fits[self.fit_ids[k]] = a
        return self.fit_ids[k]

    def coded(self, ops):
        out = []
        for o in ops:
            if o[0] == 'spec':
                out.append((0, o[1], self.spec(o[1], o[2])))
            elif o[0] == 'fit':
                out.append((1, self.fit(o[1]), 0))
            elif o[0] == 'summary':
                out.append((2, 0, 0))
            else:
                out.append((3, o[1], 0))
        return out

    def decode(self, coded):
        out = []
        for k, a, b in coded:
            if k == 0:
                out.append(['spec', a, self.specs[b][1]])
            elif k == 1:
                out.append(['fit', self.fits[a]])
            elif k == 2:
                out.append(['summary'])
            else:
                out.append(['diag', a])
        return out


USER_TOKEN = 7


def coq_expr(fam, coded):
    def nl(xs):
        return '[' + '; '.join('%d%%nat' % x for x in xs) + ']'
    ops = []
    for k, a, b in coded:
        ops.append({0: 'Specify %d%%nat %d%%Z' % (a, b), 1: 'Fit %d%%Z' % a, 2: 'Summary', 3: 'Diagnostics %d%%nat' % a}[k])
    dtab = '[' + '; '.join('(%s, %s)' % (nl(d[1]), 'true' if d[2] else 'false') for d in fam.diags) + ']'
    return 'eval_history %d%%nat %s %s %d%%Z [%s]' % (len(fam.slots), nl(fam.required), dtab, USER_TOKEN, '; '.join(ops))


def py_model(fam, coded):
    """independent Python mirror of Model.History.eval_history (cross-check of the mapping; used while shrinking)"""
    n = len(fam.slots)
    specs, results, outs = [None] * n, None, []
    at_fit = None
    for k, a, b in coded:
        if k == 0:
            specs[a] = b
            outs.append(0)
        elif k == 1:
            if all(specs[s] is not None for s in fam.required):
                results = (USER_TOKEN, list(specs), a)
                at_fit = (list(specs), a)
                outs.append(0)
            else:
                outs.append(1)
        elif k == 2:
            outs.append(0 if results is not None else 1)
        else:
            _, dreq, dres, _ = fam.diags[a]
            outs.append(0 if all(specs[s] is not None for s in dreq) and (not dres or results is not None) else 1)
    last = None
    for i, (k, a, b) in enumerate(coded):
        if k == 1:
            last = i
    def canon(tbl):
        return [(0, s, tbl[s]) for s in range(n) if tbl[s] is not None]
    def table(cs):
        t = [None] * n
        for k, a, b in cs:
            if k == 0:
                t[a] = b
        return t
    if last is None:
        nf = canon(specs)
    else:
        nf = canon(table(coded[:last])) + [(1, coded[last][1], 0)] + canon(specs)
    return {'user': USER_TOKEN, 'outs': outs, 'specs': specs, 'results': results, 'nf': nf}


def parse_model(r):
    """coq_eval result -> same shape as py_model"""
    def opt(x):
        return None if x is None else x[1]
    user, outs, specs, res, nf, res_nf = r
    res = None if res is None else (res[1][0], [opt(x) for x in res[1][1]], res[1][2])
    res_nf = None if res_nf is None else (res_nf[1][0], [opt(x) for x in res_nf[1][1]], res_nf[1][2])
    return {'user': user, 'outs': list(outs), 'specs': [opt(x) for x in specs], 'results': res, 'nf': [tuple(x) for x in nf],
            'results_nf': res_nf}


# ================================================================================================ execution
def op_method(fam, op):
    if op[0] == 'spec':
        return fam.slots[op[1]]
    if op[0] == 'fit':
        return fam.fit_method(op[1])
    if op[0] == 'summary':
        return 'summary'
    return fam.diags[op[1]][0]


def apply_op(fam, obj, op, inputs):
    if op[0] == 'spec':
        fam.do_spec(obj, op[1], op[2], inputs)
    elif op[0] == 'fit':
        fam.do_fit(obj, op[1], inputs)
    elif op[0] == 'summary':
        fam.do_summary(obj)
    else:
        fam.diags[op[1]][3](obj)


def build(fam, case):
    fam.cfg = case['cfg']
    inputs = fam.gen_inputs(random.Random(case['data_seed']), case['cfg'])
    snaps = {k: snapshot(v) for k, v in inputs.items()}
    return inputs, snaps


def run_ops(fam, case, ops, watch=True):
    """execute a call list on a new object.  Returns dict: obj, events [(method, error or None)], problems [(key, what)],
    stopped (index of the call after which the history was abandoned, or None)"""
    inputs, snaps = build(fam, case)
    out = {'obj': None, 'events': [], 'problems': [], 'stopped': None, 'inputs': inputs, 'n': len(inputs['df']), 'latent': set()}
    try:
        with quiet():
            obj = fam.construct(inputs, case['cfg'])
    except Exception as e:   # noqa
        out['problems'].append(('%s.__init__.raises' % fam.name, 'constructor raised %s' % errstr(e)))
        out['stopped'] = -1
        return out
    out['obj'] = obj
    d = inputs_changed(inputs, snaps)
    if d:
        out['problems'].append(('%s.__init__.mutates-input' % fam.name, 'the constructor changed the caller\'s %s' % d))
        snaps = {k: snapshot(v) for k, v in inputs.items()}
    for i, op in enumerate(ops):
        m = op_method(fam, op)
        before = pubstate(obj) if watch else None
        err = None
        try:
            with quiet():
                apply_op(fam, obj, op, inputs)
        except Exception as e:   # noqa
            err = errstr(e)
        out['events'].append((m, err))
        d = inputs_changed(inputs, snaps)
        if d:
            out['problems'].append(('%s.%s.mutates-input' % (fam.name, m), 'call %d (%s) changed the caller\'s %s' % (i, m, d)))
            snaps = {k: snapshot(v) for k, v in inputs.items()}
        if watch and (op[0] in ('summary', 'diag') or (err is not None and op[0] == 'fit')):
            d, lat = state_diffs(before, pubstate(obj))
            if d:
                kind = 'a raising' if err else 'the'
                out['problems'].append(('%s.%s.changes-state' % (fam.name, m), '%s call %d (%s) changed the public attribute %s' % (kind, i, m, d[0])))
            for x in lat:
                if op[0] == 'diag' and ': column ' in x and err is None:
                    # a display / diagnostic that REWRITES a column the estimator had stored before the call (new scratch columns
                    # are 'columns .. vs ..'): every later diagnostic and weight read-out is then history-dependent
                    out['problems'].append(('%s.%s.rewrites-stored-column' % (fam.name, m), 'call %d (%s) changed values the estimator had '
                                            'stored in its working frame: %s' % (i, m, x[:160])))
                else:
                    out['latent'].add('%s.%s writes the object\'s working frame (%s)' % (fam.name, m, x[:120]))
    return out


def summary_text(fam, obj):
    try:
        with quiet() as buf:
            fam.do_summary(obj)
        return buf.getvalue()
    except Exception as e:   # noqa
        return 'RAISED ' + errstr(e)


def describe(fam, case, ops):
    def one(o):
        if o[0] == 'spec':
            return '%s(%s)' % (fam.slots[o[1]], ', '.join('%s=%r' % kv for kv in sorted(o[2].items())))
        if o[0] == 'fit':
            return '%s(%s)' % (fam.fit_method(o[1]), ', '.join('%s=%r' % kv for kv in sorted(o[1].items()) if kv[0] != 'method'))
        if o[0] == 'summary':
            return 'summary()'
        return fam.diags[o[1]][0] + '()'
    return '%s[%s] ' % (fam.name, ', '.join('%s=%r' % kv for kv in sorted(case['cfg'].items()))) + '; '.join(one(o) for o in ops)


def check_history(fam, case, ops, model, coding, info=None):
    """run one history against the model's prediction.  Returns list of (key, what)."""
    probs = []
    h = run_ops(fam, case, ops)
    probs += h['problems']
    if h['stopped'] is not None:
        return probs, h
    ready = [None] * len(fam.slots)
    fitted = False
    broken = False
    for i, (op, (m, err), code) in enumerate(zip(ops, h['events'], model['outs'])):
        have_req = all(ready[s] is not None for s in fam.required)
        if op[0] == 'spec':
            if err:
                probs.append(('%s.%s.raises' % (fam.name, m), 'call %d %s raised %s on valid input' % (i, m, err)))
                broken = True
                break
            ready[op[1]] = True
        elif op[0] == 'fit':
            if code == 1 and not err:
                probs.append(('%s.%s.no-guard' % (fam.name, m), 'call %d %s returned without raising although the required %s not specified'
                              % (i, m, ' / '.join(fam.slots[s] for s in fam.required if ready[s] is None) + ' was')))
                broken = True
                break
            if code == 0 and err:
                probs.append(('%s.%s.raises' % (fam.name, m), 'call %d %s raised %s although every required model was specified' % (i, m, err)))
                broken = True
                break
            fitted = fitted or code == 0
        elif op[0] == 'summary':
            if code == 1 and not err:
                if not have_req and fam.causal:
                    probs.append(('%s.summary.no-guard' % fam.name, 'call %d summary() printed without raising although %s not specified'
                                  % (i, ' / '.join(fam.slots[s] for s in fam.required if ready[s] is None) + ' was')))
                elif info is not None:
                    info['summary-before-fit-silent'].add(fam.name)
            if code == 0 and err and info is not None:
                info['diagnostic-raises'].setdefault('%s.summary' % fam.name, err)
        else:
            if info is not None:
                if code == 0 and err:
                    info['diagnostic-raises'].setdefault('%s.%s' % (fam.name, m), err)
                if code == 1 and not err:
                    info['diagnostic-without-models-silent'].add('%s.%s' % (fam.name, m))
    if broken:
        return probs, h
    # ---- specification in force, as far as the class keeps the text
    for slot, text in fam.in_force(h['obj']).items():
        sid = model['specs'][slot]
        exp = None if sid is None else fam.spec_text(slot, coding.specs[sid][1])
        if (sid is None) != (text is None) or (exp is not None and text != exp):
            probs.append(('%s.%s.spec-in-force' % (fam.name, fam.slots[slot]), 'after the history the object holds %r for %s, the model says %r is in force'
                          % (text, fam.slots[slot], exp)))
    # ---- the fresh object of the model's normal form
    nf_ops = coding.decode(model['nf'])
    f = run_ops(fam, case, nf_ops, watch=False)
    exp_nf = py_model(fam, model['nf'])['outs']
    bad = [(o[0], e[1]) for o, e, c in zip(nf_ops, f['events'], exp_nf) if o[0] in ('spec', 'fit') and bool(e[1]) != bool(c)]
    if f['stopped'] is not None or bad:
        probs.append(('%s.fresh-object.raises' % fam.name, 'the fresh object given only the last specifications behaved unlike the model: %r'
                      % (bad[:1] or f['problems'][:1],)))
        return probs, h
    if fam.causal or sum(1 for o in ops if o[0] == 'fit') <= 1:
        ds, lat = state_diffs(pubstate(h['obj']), pubstate(f['obj']))
        d = ds[0] if ds else None
        attr = d.split(':', 1)[0] if d else None
        for x in lat:
            h['latent'].add('%s: working frame differs from the fresh object (%s)' % (fam.name, x[:120]))
        if d is None and fam.summary and model['results'] is not None:
            ta, tb = summary_text(fam, h['obj']), summary_text(fam, f['obj'])
            if ta != tb:
                la, lb = ta.splitlines(), tb.splitlines()
                k = next((j for j in range(min(len(la), len(lb))) if la[j] != lb[j]), min(len(la), len(lb)))
                d = 'summary() text line %d: %r vs %r' % (k, la[k] if k < len(la) else None, lb[k] if k < len(lb) else None)
                if ta.startswith('RAISED') or tb.startswith('RAISED'):
                    attr = 'summary[raises]'
                else:
                    sa_, sb_ = (la[k] if k < len(la) else ''), (lb[k] if k < len(lb) else '')
                    j = next((i for i in range(min(len(sa_), len(sb_))) if sa_[i] != sb_[i]), 0)
                    lab = sa_[:j].split(':')[-2].split('  ')[-1].strip() if ':' in sa_[:j] else sa_.split(':')[0].strip()
                    attr = 'summary[%s]' % (lab or 'text')
        if d:
            probs.append(('%s.history-dependent.%s' % (fam.name, attr), 'object after the history vs a fresh object: %s  (fresh object given only [%s])'
                          % (d, '; '.join(describe(fam, case, [o]).split('] ', 1)[1] for o in nf_ops))))
    return probs, h


# classes whose constructor accepts `weights=` (non-constant positive integer column 'fw')
WEIGHTED = ('IPTW', 'StochasticIPTW', 'TimeFixedGFormula', 'SurvivalGFormula', 'AIPTW', 'GEstimationSNM', 'IPSW', 'GTransportFormula')


# ================================================================================================ the run
IMPORTS = ['Zepid.Model.History']
_PATCH_NOTE = []


def _maybe_patch():
    """development switch, OFF by default: C11_PATCH=1 applies the proposed one-line repairs IN THIS PROCESS ONLY (nothing in
    /repo is touched) to show that the reported history dependences disappear with them"""
    import os
    if os.environ.get('C11_PATCH') != '1' or _PATCH_NOTE:
        return
    import inspect
    import sys as _sys
    import zepid.causal.doublyrobust  # noqa
    import zepid.causal.gformula  # noqa
    import zepid.causal.snm  # noqa

    def patch(modname, clsname, meth, edits):
        mod = _sys.modules[modname]
        cls = getattr(mod, clsname)
        src = 'if True:\n' + inspect.getsource(getattr(cls, meth))
        for old, new in edits:
            assert old in src, (clsname, meth, old)
            src = src.replace(old, new, 1)
        src = src.replace('self.__mweight', 'self._%s__mweight' % clsname)
        ns = {}
        exec(compile(src, '<c11 patch %s.%s>' % (clsname, meth), 'exec'), mod.__dict__, ns)
        setattr(cls, meth, ns[meth])

    for cname, mod in (('AIPTW', 'zepid.causal.doublyrobust.AIPW'), ('TMLE', 'zepid.causal.doublyrobust.TMLE')):
        patch(mod, cname, 'exposure_model', [('        if custom_model is None:', '        self._exp_model_custom = False\n        if custom_model is None:')])
        patch(mod, cname, 'outcome_model', [('        if custom_model is None:', '        self._out_model_custom = False\n        if custom_model is None:')])
        patch(mod, cname, 'missing_model', [('        if custom_model is None:', '        self._miss_model_custom = False\n        if custom_model is None:')])
    patch('zepid.causal.doublyrobust.TMLE', 'StochasticTMLE', 'exposure_model',
          [('        if custom_model is None:', '        self._specified_bound_ = None\n        self._exp_model_custom = False\n        if custom_model is None:')])
    patch('zepid.causal.snm.g_estimation', 'GEstimationSNM', 'fit',
          [("        if solver == 'closed':", "        if solver == 'closed':\n            self._scipy_solver_obj = None\n            self._alphas = None")])
    patch('zepid.causal.gformula.TimeFixed', 'TimeFixedGFormula', 'fit_stochastic',
          [('        if self._outcome_model is None:', '        self.predicted_df = None\n        if self._outcome_model is None:')])
    _PATCH_NOTE.append('C11_PATCH=1: proposed repairs applied in-process (AIPTW/TMLE/StochasticTMLE custom/bound flags, GEstimationSNM.fit, '
                       'TimeFixedGFormula.fit_stochastic)')


def new_info():
    return {'summary-before-fit-silent': set(), 'diagnostic-raises': {}, 'diagnostic-without-models-silent': set(),
            'base-refit': {}, 'notes': [], 'latent': set()}


def make_cases(ctx, fams, per_class):
    cases = []
    for fam in fams:
        k = max(2, int(round(per_class * fam.weight)))
        styles = ['guard', 'repeat', 'refit', 'toggle', 'respec', 'random', 'repeat', 'random']
        for j in range(k):
            cfg = fam.gen_cfg(ctx.rng)
            if 'fw' in cfg and fam.name in WEIGHTED:
                cfg['fw'] = (j % 2 == 1)                  # every style is seen with and without a caller-supplied weight column
            style, ops = gen_history(fam, ctx.rng, cfg, style=styles[j % len(styles)] if fam.slots else None)
            cases.append({'fam': fams.index(fam), 'name': fam.name, 'data_seed': ctx.rng.randrange(2 ** 31), 'cfg': cfg, 'ops': ops, 'style': style})
    return cases


def evaluate_models(ctx, fams, cases, tag):
    """Coq evaluation of every history + comparison with the Python mirror"""
    codings, exprs, mirrors = [], [], []
    for c in cases:
        fam = fams[c['fam']]
        cd = Coding()
        coded = cd.coded(c['ops'])
        codings.append(cd)
        exprs.append(coq_expr(fam, coded))
        mirrors.append(py_model(fam, coded))
    res, errs = coq_eval(ctx, tag, IMPORTS, exprs, shard=max(20, len(exprs) // 12 + 1))
    if errs:
        ctx.broken_ties.append('coq evaluation of the history model failed: ' + errs[0][1][-400:])
    models = []
    for c, r, mir in zip(cases, res, mirrors):
        if r is None:
            models.append(None)
            continue
        m = parse_model(r)
        ctx.disagreements_checked += 1
        if m['results'] != m['results_nf']:
            ctx.broken_ties.append('model: result of a history differs from the result of its normal form (theorem C11_refit_history_independent '
                                   'contradicted by evaluation) on %s' % (exprs[cases.index(c)][:300],))
        if any(m[k] != mir[k] for k in ('user', 'outs', 'specs', 'results', 'nf')):
            ctx.broken_ties.append('harness: the Python mirror of Model.History disagrees with the Coq evaluation on %s: %r vs %r'
                                   % (exprs[cases.index(c)][:300], {k: m[k] for k in mir}, mir))
        if m['user'] != USER_TOKEN:
            ctx.broken_ties.append('model: the caller\'s frame token changed')
        models.append(m)
    return codings, models


def trivial(case, model):
    ops = case['ops']
    nfit = sum(1 for o, c in zip(ops, model['outs']) if o[0] == 'fit' and c == 0)
    respec = len([o for o in ops if o[0] == 'spec']) > len({o[1] for o in ops if o[0] == 'spec'})
    return not (nfit >= 1 and (respec or nfit >= 2 or 1 in model['outs']))


def shrink(fam, case, key):
    """greedy removal of calls while the same key is still reported (model = Python mirror; confirmed in Coq afterwards)"""
    ops = list(case['ops'])
    def fails(cand):
        cd = Coding()
        m = py_model(fam, cd.coded(cand))
        try:
            probs, _ = check_history(fam, case, cand, m, cd)
        except Exception:   # noqa
            return False
        return any(k == key for k, _ in probs)
    changed_ = True
    rounds = 0
    while changed_ and len(ops) > 1 and rounds < 8:
        changed_ = False
        rounds += 1
        for i in range(len(ops)):
            cand = ops[:i] + ops[i + 1:]
            if cand and fails(cand):
                ops = cand
                changed_ = True
                break
    return ops


def history_part(ctx, fails, info, cases=None):
    fams = families()
    if cases is None:
        cases = make_cases(ctx, fams, 12 if ctx.quick else 120)
    codings, models = evaluate_models(ctx, fams, cases, 'c11h')
    per_fam = {}
    for c, cd, m in zip(cases, codings, models):
        fam = fams[c['fam']]
        ctx.evaluations += 1
        if m is None:
            continue
        t = time.time()
        try:
            probs, h = check_history(fam, c, c['ops'], m, cd, info)
        except Exception as e:   # noqa
            import traceback
            probs, h = [('%s.harness' % fam.name, 'driver error %s %s' % (errstr(e), traceback.format_exc()[-600:]))], {'n': 0, 'events': []}
        per_fam[fam.name] = per_fam.get(fam.name, 0.0) + time.time() - t
        ctx.programs += 1
        for x in h.get('latent', ()):
            info['latent'].add(x)
        ctx.disagreements_checked += len(c['ops'])
        lab = getattr(fam, 'label', fam.name)
        ctx.count('class:' + lab)
        ctx.count('style:' + c['style'])
        if 'fw' in c['cfg']:
            ctx.count('weights=' + ('fw column' if c['cfg']['fw'] else 'None'))
        ctx.count('length:%d' % len(c['ops']))
        for o in c['ops']:
            ctx.count('call:' + o[0])
        ctx.count('calls-raising(model)', sum(m['outs']))
        if not trivial(c, m):
            ctx.nontriv([c['name'], c['data_seed'], c['ops']])
        ctx.sample({'class': fam.name, 'history': describe(fam, c, c['ops'])[:400], 'model_outcomes': m['outs'], 'in_force': m['specs'],
                    'fresh_object_calls': len(m['nf'])}, cap=4)
        for key, what in probs:
            fails.append((len(c['ops']) * 1000 + h.get('n', 0), key, '%s  [history: %s]' % (what, describe(fam, c, c['ops'])[:700]),
                          {'part': 'history', 'case': c}))
    ctx.extra['seconds_per_class'] = {k: round(v, 1) for k, v in per_fam.items()}
    return fams


def shrink_failures(ctx, fams, fails):
    """replace the smallest failing history of each key by a shrunk one (then confirm the shrunk histories in Coq)"""
    fails.sort(key=lambda f: f[0])
    seen, shrunk = set(), []
    for size, key, what, payload in list(fails):
        if key in seen or payload.get('part') != 'history' or key.endswith('.harness'):
            continue
        seen.add(key)
        c = payload['case']
        fam = fams[c['fam']]
        try:
            ops = shrink(fam, c, key)
        except Exception:   # noqa
            continue
        if len(ops) < len(c['ops']):
            c2 = dict(c, ops=ops, style=c['style'] + '+shrunk')
            shrunk.append((key, c2))
    if not shrunk:
        return
    cases = [c for _, c in shrunk]
    codings, models = evaluate_models(ctx, fams, cases, 'c11s')
    for (key, c), cd, m in zip(shrunk, codings, models):
        if m is None:
            continue
        fam = fams[c['fam']]
        probs, h = check_history(fam, c, c['ops'], m, cd)
        for k, what in probs:
            if k == key:
                fails.append((len(c['ops']) * 1000 + h.get('n', 0) - 500, key, '%s  [history: %s]' % (what, describe(fam, c, c['ops'])[:700]),
                              {'part': 'history', 'case': c}))
                break


def report(ctx, fails):
    fails.sort(key=lambda f: f[0])
    seen = set()
    for size, key, what, payload in fails:
        if key in seen:
            continue
        seen.add(key)
        n = sum(1 for f in fails if f[1] == key)
        ctx.violation(key, what + ' [%d failing cases]' % n, payload)


def finish_info(ctx, info):
    ctx.extra['outside_the_property'] = {
        'diagnostics_raising_under_installed_versions': info['diagnostic-raises'],
        'summary_prints_without_raising_when_models_specified_but_not_fit': sorted(info['summary-before-fit-silent']),
        'diagnostics_silent_without_models': sorted(info['diagnostic-without-models-silent']),
        'effect_measure_classes_second_fit': info['base-refit'],
        'latent_state_in_the_objects_own_working_frame_not_results_not_caller_data': sorted(info['latent'])[:40],
    }
    ctx.notes += info['notes']


def run(ctx):
    fails, info = [], new_info()
    _maybe_patch()
    ctx.notes += _PATCH_NOTE
    fams = history_part(ctx, fails, info)
    for part in EXTRA_PARTS:
        part(ctx, fails, info)
    shrink_failures(ctx, fams, fails)
    finish_info(ctx, info)
    report(ctx, fails)


def replay(ctx, payload):
    fails, info = [], new_info()
    _maybe_patch()
    if payload and payload.get('part') == 'history':
        history_part(ctx, fails, info, cases=[payload['case']])
    elif payload and payload.get('part') in PART_BY_NAME:
        PART_BY_NAME[payload['part']](ctx, fails, info, only=payload)
    else:
        run(ctx)
        return
    finish_info(ctx, info)
    report(ctx, fails)


EXTRA_PARTS = []
PART_BY_NAME = {}


# ================================================================================================ probes outside the refit clause
def base_refit_part(ctx, fails, info, only=None):
    """second fit() on one effect-measure object: the property does not claim history independence for zepid.base classes,
    so the behaviour is recorded (evidence) and only a change of the caller's frame is a violation"""
    for fam in [f for f in families() if not f.causal]:
        for _ in range(1 if ctx.quick else 5):
            cfg = fam.gen_cfg(ctx.rng)
            case = {'cfg': cfg, 'data_seed': ctx.rng.randrange(2 ** 31)}
            inputs, snaps = build(fam, case)
            ctx.evaluations += 1
            try:
                with quiet():
                    o = fam.construct(inputs, cfg)
                    fam.do_fit(o, {}, inputs)
                first = pubstate(o)
                try:
                    with quiet():
                        fam.do_fit(o, {}, inputs)
                    d, _ = state_diffs(first, pubstate(o))
                    beh = 'second fit returns: ' + ('same results' if not d else 'DIFFERENT results (%s)' % d[0][:80])
                except Exception as e:   # noqa
                    beh = 'second fit raises ' + errstr(e)[:80]
            except Exception as e:   # noqa
                beh = 'first fit raises ' + errstr(e)[:80]
            info['base-refit'][fam.name] = beh
            d = inputs_changed(inputs, snaps)
            if d:
                fails.append((len(inputs['df']), '%s.fit.mutates-input' % fam.name, 'fit() twice changed the caller\'s %s' % d,
                              {'part': 'base_refit'}))


def mc_add_twice_part(ctx, fails, info, only=None):
    """MonteCarloGFormula.add_covariate_model is additive by name; calling it twice for one covariate keeps both models.
    Recorded, not failed (see RULE)."""
    fam = FamMonteCarlo()
    cfg = fam.gen_cfg(ctx.rng)
    case = {'cfg': cfg, 'data_seed': ctx.rng.randrange(2 ** 31)}
    base = [['spec', 0, {'model': 'L1 + lag_A + W', 'restriction': None}], ['spec', 1, {'model': 'A + L1 + W + t_in'}]]
    fit = ['fit', {'treatment': 'natural', 'sample': 80, 't_max': None, 'seed': 11, 'low_memory': True}]
    a = run_ops(fam, case, base + [['spec', 3, {'model': 'lag_L1'}], ['spec', 3, {'model': 'lag_L1 + lag_A + W'}], fit], watch=False)
    b = run_ops(fam, case, base + [['spec', 3, {'model': 'lag_L1 + lag_A + W'}], fit], watch=False)
    ctx.evaluations += 1
    for r in (a, b):
        for key, what in r['problems']:
            fails.append((r['n'], key, what, {'part': 'mc_add_twice'}))
    if a['obj'] is not None and b['obj'] is not None and not any(e[1] for e in a['events'] + b['events']):
        d, _ = state_diffs(pubstate(a['obj']), pubstate(b['obj']))
        n = len(a['obj']._covariate_models)
        info['notes'].append('MonteCarloGFormula.add_covariate_model called twice for one covariate keeps %d models (the API appends); '
                             'results %s a fresh object given only the second model -- recorded, outside the refit clause as read here'
                             % (n, 'differ from' if d else 'equal'))


# ================================================================================================ functions taking arrays / frames
def _containers(rng, x):
    """the same float vector as the containers a caller may pass"""
    kind = rng.choice(['ndarray', 'readonly', 'series', 'series_idx', 'list'])
    x = np.array(x, dtype=float)
    if kind == 'ndarray':
        return kind, x
    if kind == 'readonly':
        x.flags.writeable = False
        return kind, x
    if kind == 'series':
        return kind, pd.Series(x)
    if kind == 'series_idx':
        return kind, pd.Series(x, index=['r%d' % i for i in range(len(x))], name='p')
    return kind, [float(v) for v in x]


def function_table():
    """name -> builder(rng) -> (inputs dict, thunk)"""
    import zepid
    import zepid.calc as zc
    import zepid.causal.utils as cu
    import zepid.causal.doublyrobust.utils as du
    import zepid.graphics as zg
    from zepid.superlearner import EmpiricalMeanSL, GLMSL, StepwiseSL, SuperLearner
    import statsmodels.api as sm
    T = {}

    def probs(rng, n=None, lo=0.001, hi=0.999):
        n = n or rng.randint(5, 60)
        return [round(rng.uniform(lo, hi), 6) for _ in range(n)]

    def pb(rng):
        k, v = _containers(rng, probs(rng))
        b = rng.choice([0.1, 0.3, [0.2, 0.7], np.array([0.05, 0.9]), (0.1, 0.6)])
        inp = {'v': v, 'bounds': b}
        return inp, lambda: zc.probability_bounds(inp['v'], inp['bounds'])
    T['calc.probability_bounds'] = pb

    for nm, f, dom in (('probability_to_odds', zc.probability_to_odds, (0.01, 0.99)), ('odds_to_probability', zc.odds_to_probability, (0.01, 9.0)),
                       ('logit', zc.logit, (0.01, 0.99)), ('inverse_logit', zc.inverse_logit, (-4.0, 4.0)), ('s_value', zc.s_value, (0.001, 0.999))):
        def mk(rng, f=f, dom=dom):
            k, v = _containers(rng, probs(rng, lo=dom[0], hi=dom[1]))
            if k == 'list' and f not in (zc.s_value,):
                v = np.array(v)
            inp = {'v': v}
            return inp, lambda: f(inp['v'])
        T['calc.' + nm] = mk

    def rr(rng):
        m = rng.randint(3, 8)
        k, est = _containers(rng, [rng.gauss(0.3, 0.2) for _ in range(m)])
        k2, se = _containers(rng, [rng.uniform(0.05, 0.3) for _ in range(m)])
        inp = {'est': est, 'se': se}
        return inp, lambda: zc.rubins_rules(inp['est'], inp['se'])
    T['calc.rubins_rules'] = rr

    def tub(rng):
        k, y = _containers(rng, [round(rng.gauss(5, 2), 3) for _ in range(rng.randint(5, 50))])
        if k == 'list':
            y = np.array(y)
        inp = {'y': y}
        lo, hi = float(np.min(y)), float(np.max(y))
        return inp, lambda: (du.tmle_unit_bounds(inp['y'], lo, hi, 0.01), du.tmle_unit_unbound(inp['y'], lo, hi))
    T['doublyrobust.utils.tmle_unit_bounds/unbound'] = tub

    def aipw(rng):
        n = rng.randint(20, 60)
        rs = np.random.RandomState(rng.randrange(2 ** 31))
        inp = {'y': rs.binomial(1, 0.5, n).astype(float), 'a': rs.binomial(1, 0.5, n), 'py_a': rs.uniform(0.1, 0.9, n), 'py_n': rs.uniform(0.1, 0.9, n),
               'pa1': rs.uniform(0.2, 0.8, n), 'w': rs.randint(1, 4, n).astype(float)}
        inp['pa0'] = 1 - inp['pa1']
        if rng.random() < 0.5:
            inp['y'][:3] = np.nan
        ro = rng.random() < 0.5
        for v in inp.values():
            v.flags.writeable = not ro
        wt = inp['w'] if rng.random() < 0.4 else None
        return inp, lambda: (cu.aipw_calculator(inp['y'], inp['a'], inp['py_a'], inp['py_n'], inp['pa1'], inp['pa0'], difference=True, weights=wt),
                             cu.aipw_calculator(inp['y'], inp['a'], inp['py_a'], inp['py_n'], inp['pa1'], inp['pa0'], difference=False, weights=wt))
    T['causal.utils.aipw_calculator'] = aipw

    def frame(rng, **kw):
        cfg = {'outcome': kw.get('outcome', 'binary'), 'missing': kw.get('missing', rng.choice([None, 'mcar'])), 'index': rng.choice(INDEXES), 'fw': True}
        return gen_frame(rng, cfg)

    def ps(rng):
        inp = {'df': frame(rng)}
        return inp, lambda: cu.propensity_score(inp['df'], 'A ~ W0 + C0', weights=rng.choice([None, 'fw']), print_results=False).predict(inp['df'])
    T['causal.utils.propensity_score'] = ps

    def ic(rng):
        inp = {'df': frame(rng)}
        b = rng.choice([None, 0.1, [0.1, 0.8]])
        st = rng.random() < 0.5
        return inp, lambda: cu.iptw_calculator(inp['df'], 'A', 'W0 + C0', 'C0' if st else '1', None, st, rng.choice(['population', 'exposed', 'unexposed']), b, False)
    T['causal.utils.iptw_calculator'] = ic

    def scc(rng):
        inp = {'df': frame(rng), 'conditional': ["df['C0']==1", "df['C0']==0"]}
        return inp, lambda: cu.stochastic_check_conditional(inp['df'], inp['conditional'])
    T['causal.utils.stochastic_check_conditional'] = scc

    def cdiag(rng):
        df = frame(rng, missing=None)
        df['w'] = np.round(np.random.RandomState(rng.randrange(2 ** 31)).uniform(0.5, 3, len(df)), 4)
        df['p'] = np.round(np.random.RandomState(rng.randrange(2 ** 31)).uniform(0.1, 0.9, len(df)), 4)
        inp = {'df': df}
        CDIAG_SEQ[0] += 1          # every helper and both scales in turn, not at random
        which, ms0 = [('plot_kde', 'logit'), ('positivity', None), ('smd', None), ('plot_kde', 'probability'), ('plot_love', None),
                      ('accuracy', None), ('plot_boxplot', 'logit'), ('plot_boxplot', 'probability')][CDIAG_SEQ[0] % 8]
        if which == 'positivity':
            return inp, lambda: cu.positivity(inp['df'], 'w')
        if which == 'smd':
            return inp, lambda: cu.standardized_mean_differences(inp['df'], 'A', 'w', 'W0 + C0 + C(C1)')
        if which == 'plot_kde':        # both documented scales, other documented display options
            ms = ms0
            return inp, lambda: cu.plot_kde(inp['df'], 'A', 'p', measure=ms, bw_method=rng.choice(['scott', 'silverman']), fill=rng.random() < 0.5)
        if which == 'plot_boxplot':
            ms = ms0
            return inp, lambda: cu.plot_boxplot(inp['df'], 'A', 'p', measure=ms)
        if which == 'plot_love':
            return inp, lambda: cu.plot_love(inp['df'], 'A', 'w', 'W0 + C0')
        return inp, lambda: (cu.outcome_accuracy(inp['df']['Y'], inp['df']['p']), cu.plot_kde_accuracy(inp['df']['Y'] - inp['df']['p']))
    T['causal.utils.diagnostic-functions'] = cdiag

    def spl(rng):
        inp = {'df': frame(rng), 'knots': [-0.5, 0.0, 0.6]}
        r = rng.random() < 0.5
        if rng.random() < 0.5:
            return inp, lambda: zepid.spline(inp['df'], 'W0', n_knots=3, knots=inp['knots'], term=rng.choice([1, 2]), restricted=r)
        return inp, lambda: zepid.spline(inp['df'], 'W0', n_knots=rng.choice([2, 3, 4]), restricted=r)
    T['base.spline'] = spl

    def cst(rng):
        k, x = _containers(rng, [round(rng.gauss(0, 1), 3) for _ in range(rng.randint(20, 60))])
        inp = {'x': x if k != 'list' else np.array(x)}

        def go():
            f, pts = zepid.create_spline_transform(inp['x'], n_knots=3, restricted=rng.random() < 0.5)
            return f(inp['x'])
        return inp, go
    T['base.create_spline_transform'] = cst

    def t1(rng):
        inp = {'df': frame(rng), 'cols': ['W0', 'C0', 'C1'], 'types': ['continuous', 'category', 'category']}
        return inp, lambda: zepid.table1_generator(inp['df'], inp['cols'], inp['types'], strat_by=rng.choice([None, 'A']))
    T['base.table1_generator'] = t1

    def icr(rng):
        inp = {'df': frame(rng, missing=None), 'adjust': 'W0'}
        if rng.random() < 0.5:
            return inp, lambda: zepid.interaction_contrast(inp['df'], 'A', 'Y', 'C0', adjust=rng.choice([None, 'W0']), print_results=False)
        return inp, lambda: zepid.interaction_contrast_ratio(inp['df'], 'A', 'Y', 'C0', adjust=rng.choice([None, 'W0']), print_results=False)
    T['base.interaction_contrast(_ratio)'] = icr

    def gfx(rng):
        which = rng.choice(['functional_form_plot', 'roc', 'spaghetti_plot', 'dynamic_risk_plot', 'zipper_plot', 'labbe_plot'])
        if which == 'functional_form_plot':
            inp = {'df': frame(rng)}
            return inp, lambda: zg.functional_form_plot(inp['df'], 'Y', 'W0', f_form=rng.choice([None, 'W0 + I(W0**2)']))
        if which == 'roc':
            df = frame(rng, missing=None)
            df['score'] = np.round(np.random.RandomState(rng.randrange(2 ** 31)).uniform(0, 1, len(df)), 3)
            inp = {'df': df}
            return inp, lambda: zg.roc(inp['df'], 'Y', 'score')
        if which == 'spaghetti_plot':
            inp = {'df': gen_long(rng, {'index': rng.choice(INDEXES)})}
            return inp, lambda: zg.spaghetti_plot(inp['df'], 'id', 'W', 't')
        if which == 'dynamic_risk_plot':
            t = list(range(1, 9))
            r1 = pd.DataFrame({'risk': np.cumsum([0.02 * rng.random() + 0.01 for _ in t])}, index=pd.Index(t, name='timeline'))
            r0 = pd.DataFrame({'risk': np.cumsum([0.02 * rng.random() + 0.01 for _ in t])}, index=pd.Index(t, name='timeline'))
            inp = {'r1': r1, 'r0': r0}
            return inp, lambda: zg.dynamic_risk_plot(inp['r1'], inp['r0'], measure=rng.choice(['RD', 'RR']), loess=rng.random() < 0.5)
        if which == 'zipper_plot':
            m = rng.randint(5, 20)
            c = np.array([rng.gauss(0, 0.3) for _ in range(m)])
            inp = {'lcl': c - 0.4, 'ucl': c + 0.4}
            return inp, lambda: zg.zipper_plot(0.0, inp['lcl'], inp['ucl'])
        inp = {'r1': np.array(probs(rng, 6, 0.05, 0.9)), 'r0': np.array(probs(rng, 6, 0.05, 0.9))}
        return inp, lambda: zg.labbe_plot(inp['r1'], inp['r0'], scale=rng.choice(['both', 'additive', 'multiplicative']))
    T['graphics'] = gfx

    def sl(rng):
        n = rng.randint(40, 90)
        rs = np.random.RandomState(rng.randrange(2 ** 31))
        X = np.round(rs.normal(size=(n, 3)), 3)
        binary = rng.random() < 0.5
        y = rs.binomial(1, _expit(X[:, 0] - 0.5 * X[:, 1])).astype(float) if binary else np.round(X[:, 0] - 0.5 * X[:, 1] + rs.normal(size=n), 3)
        Xn = np.round(rs.normal(size=(7, 3)), 3)
        if rng.random() < 0.4:
            for v in (X, y, Xn):
                v.flags.writeable = False
        inp = {'X': X, 'y': y, 'Xnew': Xn}
        fam_ = sm.families.family.Binomial() if binary else sm.families.family.Gaussian()
        which = rng.choice(['EmpiricalMeanSL', 'GLMSL', 'StepwiseSL', 'SuperLearner'])

        def go():
            if which == 'EmpiricalMeanSL':
                e = EmpiricalMeanSL()
            elif which == 'GLMSL':
                e = GLMSL(fam_)
            elif which == 'StepwiseSL':
                e = StepwiseSL(fam_, selection=rng.choice(['forward', 'backward']), order_interaction=rng.choice([0, 1]))
            else:
                e = SuperLearner([EmpiricalMeanSL(), GLMSL(fam_)], ['mean', 'glm'], folds=3, loss_function='nloglik' if binary else 'L2')
            e.fit(inp['X'], inp['y'])
            return e.predict(inp['Xnew'])
        return inp, go
    T['superlearner'] = sl

    def mcrr(rng):
        from zepid.sensitivity_analysis import MonteCarloRR, trapezoidal
        rs = np.random.RandomState(rng.randrange(2 ** 31))
        m = 500
        inp = {'rr': rs.uniform(1.5, 3, m), 'p1': rs.uniform(0.3, 0.6, m), 'p0': rs.uniform(0.1, 0.3, m)}

        def go():
            np.random.seed(3)
            o = MonteCarloRR(observed_RR=1.8, sd=0.2, sample=m)
            o.confounder_RR_distribution(inp['rr'])
            o.prop_confounder_exposed(inp['p1'])
            o.prop_confounder_unexposed(inp['p0'])
            o.fit()
            o.summary()
            o.plot()
            return o.corrected_RR
        return inp, go
    T['sensitivity_analysis.MonteCarloRR'] = mcrr

    def xfit(rng):
        from sklearn.linear_model import LogisticRegression, LinearRegression
        import zepid.causal.doublyrobust as dr
        which = rng.choice(['SingleCrossfitAIPTW', 'SingleCrossfitTMLE', 'DoubleCrossfitAIPTW', 'DoubleCrossfitTMLE'])
        out = rng.choice(['binary', 'normal'])
        df = gen_frame(rng, {'n': rng.randint(90, 140), 'outcome': out, 'missing': None, 'index': rng.choice(INDEXES)})
        inp = {'df': df}

        def go():
            e = getattr(dr, which)(inp['df'], 'A', 'Y')
            e.exposure_model('W0 + C0', LogisticRegression(penalty=None, solver='lbfgs'), bound=rng.choice([False, 0.05]))
            e.outcome_model('A + W0 + C0', LogisticRegression(penalty=None, solver='lbfgs') if out == 'binary' else LinearRegression())
            e.fit(n_splits=2 if which.startswith('Single') else 3, n_partitions=2, random_state=rng.randrange(10 ** 6))
            e.summary()
            return True
        return inp, go
    T['crossfit'] = xfit
    return T


def function_part(ctx, fails, info, only=None):
    T = function_table()
    reps = {'crossfit': 2 if ctx.quick else 10, 'graphics': 8 if ctx.quick else 60, 'superlearner': 6 if ctx.quick else 60,
            'causal.utils.diagnostic-functions': 8 if ctx.quick else 80}
    jobs = []
    if only:
        jobs = [(only['name'], only['seed'])]
    else:
        for name in T:
            for _ in range(reps.get(name, 4 if ctx.quick else 40)):
                jobs.append((name, ctx.rng.randrange(2 ** 31)))
    raised = {}
    for name, seed in jobs:
        rng = random.Random(seed)
        try:
            inputs, thunk = T[name](rng)
        except Exception as e:   # noqa
            ctx.notes.append('function part: could not build inputs for %s: %s' % (name, errstr(e)))
            continue
        snaps = {k: snapshot(v) for k, v in inputs.items()}
        ctx.evaluations += 1
        ctx.programs += 1
        ctx.count('function:' + name)
        ctx.nontriv(['func', name, seed])
        err = None
        try:
            with quiet():
                thunk()
        except Exception as e:   # noqa
            err = errstr(e)
            raised.setdefault(name, [])
            if err[:60] not in [x[:60] for x in raised[name]] and len(raised[name]) < 5:
                raised[name].append(err)
        d = inputs_changed(inputs, snaps)
        ctx.disagreements_checked += 1
        if d:
            kinds = {k: snaps[k]['kind'] + ('(read-only)' if snaps[k].get('writeable') is False else '') for k in snaps}
            fails.append((sum(len(v) if hasattr(v, '__len__') else 1 for v in inputs.values()), '%s.mutates-input' % name,
                          '%s changed its argument %s (arguments: %r%s)' % (name, d, kinds, '; the call raised ' + err if err else ''),
                          {'part': 'function', 'name': name, 'seed': seed}))
    for k, v in raised.items():
        info['diagnostic-raises'].setdefault('function ' + k, ' || '.join(v))


EXTRA_PARTS[:] = [base_refit_part, mc_add_twice_part, function_part]
PART_BY_NAME.update({'function': function_part, 'base_refit': base_refit_part, 'mc_add_twice': mc_add_twice_part})
