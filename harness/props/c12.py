"""C12 -- longitudinal g-formula estimators reproduce the nonparametric g-formula.

IterativeCondGFormula (wide data, K in {1,2,3}, survival-type outcomes, every static plan, plan given as one row /
one row per individual, several index kinds), TimeFixedGFormula for K=1, SurvivalGFormula (person-period data with
censoring, hazard saturated in arm x period).

Environment switch (OFF by default, for development only): C12_PATCH_ICG=1 replaces IterativeCondGFormula.fit IN THIS
PROCESS by a copy of its own source with the proposed minimal patch applied (plan rows compared with shape[0], plan
frame built on the data's index).  /repo is never touched.  With the switch on, the defects reported below disappear.
"""
import inspect
import itertools
import os
import textwrap
import warnings
from fractions import Fraction

import numpy as np
import pandas as pd

from common import coq_eval, frac, close, qlit, TOL_ARITH, TOL_FIT
import est_common as ec
import datagen

PROP_FILE = 'theories/Properties/C12.v'
MODEL_FILES = ['theories/Model/Icg.v', 'theories/Model/Survival.v']
GEN_GROUPS = []
RULE = ('wide data: K in {1,2,3} time points, binary A_k, L_k depending on the past, survival-type Y_k (NaN after the first '
        'event; A/L after the event either kept or NaN), positivity for every plan by seeding all cells or by repairing random '
        'data (random data keeps empty cells that are never predicted at and pure 0/1 cells), EVERY plan in {0,1}^K as one '
        'row, one plan per data set additionally as one row per individual and as a 1xK array, wrong-shaped plans that must '
        'raise, index kinds range/shift/shift-small/shuffle/str; sequential models = full interactions of A_0..A_k, L_0..L_k; '
        'K=1 also through TimeFixedGFormula.  long data: 8-60 individuals, 2-8 periods, random arm, event and censoring, '
        'non-contiguous ids, shuffled rows, shifted index, hazard model A*C(t) (and a non-saturated model with a covariate '
        'for the monotone/range claim), treatments all/none/natural.  non-trivial = distinct (data set, plan) whose '
        'g-formula value is strictly between 0 and 1')
TRUSTED = ['oracle: statsmodels GLM(Binomial, logit) fitted on a design saturated in the cells returns the cell means of the '
           '(possibly fractional) response as fitted values and as predictions at non-empty cells, also for rank-deficient '
           'designs with empty cells and for cells with mean 0 or 1 (validated on every regression of every run, 1e-6)',
           'oracle: DataFrame.sort_values([id, time]) orders the person-period rows like Model.Survival.sort_pp (validated: '
           'the sorted (id, time) sequence is compared exactly)',
           'pandas semantics modelled, exercised by the run: np.where/isna carry-forward, NaN-skipping np.mean of a Series, '
           'groupby(id).cumprod, groupby(time).mean',
           'spy: zepid.causal.gformula.TimeVary.smf replaced at run time by a recording proxy (no source change)']

IMPORTS = ['Zepid.Base.QSum', 'Zepid.Base.QUtil', 'Zepid.Model.Icg', 'Zepid.Model.Survival']
PREAMBLE = ('Definition oo (a l : bool) (y : Z) := mkObs (Some a) (Some l) (Some (inject_Z y)).\n'
            'Definition ok (a l : bool) := mkObs (Some a) (Some l) None.\n'
            'Notation T := true (only parsing).\nNotation F := false (only parsing).\n'
            'Definition pr (st : list (option Q) * list (option Q)) := (Qoflat (fst st), Qoflat (snd st)).\n')


# ================================================================================================ ICG: data
def _b(x):
    return 'T' if x else 'F'


def gen_wide(rng, K, mode):
    """rows: list of K-lists of (a, l, y) with y None after the first event (a, l stay recorded here; the
    'nan' coding blanks them when the frame is built)."""
    pe = rng.choice([0.08, 0.2, 0.35, 0.5])
    bl = [rng.uniform(-1, 1) for _ in range(4)]

    def draw_row(force_a=None, force_l=None, survive_to=0):
        r, alive = [], True
        pa = pl = 0
        for k in range(K):
            l = force_l[k] if force_l is not None and k < len(force_l) else int(rng.random() < 0.5 + 0.25 * bl[0] * (pa - 0.5) + 0.2 * bl[1] * (pl - 0.5))
            a = force_a[k] if force_a is not None and k < len(force_a) else int(rng.random() < 0.5 + 0.3 * bl[2] * (l - 0.5))
            if alive:
                h = min(0.95, max(0.02, pe + 0.15 * bl[3] * (a - 0.5) + 0.2 * (l - 0.5) * pe * 2))
                y = int(rng.random() < h) if k >= survive_to else 0
                r.append((a, l, y))
                alive = (y == 0)
            else:
                r.append((a, l, None))
            pa, pl = a, l
        return r

    rows = []
    if mode == 'seeded':
        for a in itertools.product([0, 1], repeat=K):
            for l in itertools.product([0, 1], repeat=K):
                for _ in range(rng.choice([1, 1, 2])):
                    rows.append(draw_row(list(a), list(l), survive_to=K - 1))
        for _ in range(rng.randint(0, 60 if K == 3 else 40)):
            rows.append(draw_row())
    else:
        for _ in range(rng.randint(6 * K, 30 * K)):
            rows.append(draw_row())
        # repair positivity for every plan: every covariate history seen at risk at k gets every treatment history
        for _ in range(200):
            missing = needed_cells(rows, K)
            if not missing:
                break
            for k, a, l in missing:
                rows.append(draw_row(list(a), list(l), survive_to=k))
        if needed_cells(rows, K):
            for a in itertools.product([0, 1], repeat=K):
                for l in itertools.product([0, 1], repeat=K):
                    rows.append(draw_row(list(a), list(l), survive_to=K - 1))
    rng.shuffle(rows)
    return rows


def at_risk(r, k):
    return all(r[j][2] == 0 for j in range(k))


def needed_cells(rows, K):
    out = []
    for k in range(K):
        risk = [r for r in rows if at_risk(r, k)]
        lhs = {tuple(x[1] for x in r[:k + 1]) for r in risk}
        have = {(tuple(x[0] for x in r[:k + 1]), tuple(x[1] for x in r[:k + 1])) for r in risk}
        for l in sorted(lhs):
            for a in itertools.product([0, 1], repeat=k + 1):
                if (a, l) not in have:
                    out.append((k, a, l))
    return out


def wide_frame(rows, K, coding, index_kind, rng):
    d = {}
    for k in range(K):
        dead = [r[k][2] is None for r in rows]
        if coding == 'nan':
            d['A%d' % k] = [np.nan if dd else float(r[k][0]) for r, dd in zip(rows, dead)]
            d['L%d' % k] = [np.nan if dd else float(r[k][1]) for r, dd in zip(rows, dead)]
        else:
            d['A%d' % k] = [r[k][0] for r in rows]
            d['L%d' % k] = [r[k][1] for r in rows]
        d['Y%d' % k] = [np.nan if r[k][2] is None else float(r[k][2]) for r in rows]
    df = pd.DataFrame(d)
    n = len(df)
    if n % 3 == 1:          # the order of the columns in the caller's frame is not the chronological order (latest visit first)
        df = df[list(df.columns[::-1])]
    elif n % 3 == 2 and K > 1:
        cols = list(df.columns)
        df = df[cols[3:6] + cols[0:3] + cols[6:]]
    if index_kind == 'shift':
        df.index = range(1000, 1000 + n)
    elif index_kind == 'shift_small':
        df.index = range(3, 3 + n)
    elif index_kind == 'shuffle':
        idx = list(range(n))
        rng.shuffle(idx)
        df.index = idx
    elif index_kind == 'str':
        df.index = ['p%04d' % i for i in range(n)]
    return df


def coq_rows(rows, coding):
    def ob(x):
        a, l, y = x
        if y is None:
            return 'nob' if coding == 'nan' else 'ok %s %s' % (_b(a), _b(l))
        return 'oo %s %s %d' % (_b(a), _b(l), y)
    return '[' + ';\n '.join('[' + '; '.join(ob(x) for x in r) + ']' for r in rows) + ']'


def coq_plan(p):
    return '[' + '; '.join(_b(x) for x in p) + ']'


def models_for(K):
    return [' * '.join(['A%d' % j for j in range(k + 1)] + ['L%d' % j for j in range(k + 1)]) for k in range(K)]


# textbook g-formula in exact arithmetic, written independently of the Coq specification (cross-check of the spec)
def np_flat_py(rows, K, plan):
    tot = Fraction(0)
    for k in range(K):
        for lh in itertools.product([0, 1], repeat=k + 1):
            term = Fraction(1)
            for j in range(k + 1):
                surv = [r for r in rows if at_risk(r, j)]
                foll = [r for r in surv if all(r[i][0] == plan[i] for i in range(j))]
                den = [r for r in foll if all(r[i][1] == lh[i] for i in range(j))]
                num = [r for r in den if r[j][1] == lh[j]]
                if not num:
                    term = Fraction(0)
                    break
                term *= Fraction(len(num), len(den))
                cell = [r for r in num if r[j][0] == plan[j]]
                if not cell:
                    return None
                h = Fraction(sum(r[j][2] for r in cell), len(cell))
                term *= h if j == k else (1 - h)
            tot += term
    return tot


# ================================================================================================ ICG: spy + run
class _Res:
    def __init__(self, res, rec):
        self._res, self._rec = res, rec

    def predict(self, tf, *a, **kw):
        p = self._res.predict(tf, *a, **kw)
        self._rec['pred'] = np.asarray(p, dtype=float).copy()
        self._rec['tf'] = tf
        return p

    def __getattr__(self, name):
        return getattr(self._res, name)


class _Model:
    def __init__(self, m, rec):
        self._m, self._rec = m, rec

    def fit(self, *a, **kw):
        res = self._m.fit(*a, **kw)
        fv = res.fittedvalues
        self._rec['fitted_index'] = list(fv.index)
        self._rec['fitted'] = np.asarray(fv, dtype=float).copy()
        return _Res(res, self._rec)

    def __getattr__(self, name):
        return getattr(self._m, name)


class _Smf:
    def __init__(self, real, log):
        self._real, self._log = real, log

    def glm(self, formula, data, *a, **kw):
        d = formula.split('~')[0].strip()
        rec = {'formula': formula, 'outcome': d, 'y': np.asarray(data[d], dtype=float).copy(), 'data': data.copy()}
        self._log.append(rec)
        return _Model(self._real.glm(formula, data, *a, **kw), rec)

    def __getattr__(self, name):
        return getattr(self._real, name)


_PATCH_NOTE = []


def _maybe_patch():
    """development switch, see module docstring"""
    if os.environ.get('C12_PATCH_ICG') != '1':
        return
    import zepid.causal.gformula.TimeVary as TV
    if getattr(TV.IterativeCondGFormula, '_c12_patched', False):
        return
    src = inspect.getsource(TV.IterativeCondGFormula.fit)
    reps = [('if treatment.ndim == 1:', 'if treatment.ndim == 1 or treatment.shape[0] == 1:'),
            ('elif treatment.shape[1] == self.gf[self.exposure].shape[0]:', 'elif treatment.shape[0] == self.gf[self.exposure].shape[0]:'),
            ('df[treat_plan] = pd.DataFrame(treatment)', 'df[treat_plan] = pd.DataFrame(treatment, index=df.index)')]
    for a, b in reps:
        if a not in src:
            _PATCH_NOTE.append('C12_PATCH_ICG: source line %r not found (already changed?)' % a)
            continue
        src = src.replace(a, b)
    ns = {}
    exec(compile(textwrap.dedent(src), '<c12-patched-fit>', 'exec'), TV.__dict__, ns)
    TV.IterativeCondGFormula.fit = ns['fit']
    TV.IterativeCondGFormula._c12_patched = True
    _PATCH_NOTE.append('C12_PATCH_ICG=1: IterativeCondGFormula.fit replaced in-process by its patched source')


def run_icg(df, K, plan_arg):
    """returns dict(ok, value | err, steps=[{y, pred, fitted...}])"""
    import zepid.causal.gformula.TimeVary as TV
    log = []
    real = TV.smf
    TV.smf = _Smf(real, log)
    try:
        with warnings.catch_warnings():
            warnings.simplefilter('ignore')
            g = TV.IterativeCondGFormula(df, exposures=['A%d' % k for k in range(K)], outcomes=['Y%d' % k for k in range(K)])
            g.outcome_model(models=models_for(K), print_results=False)
            g.fit(treatments=plan_arg)
        out = {'ok': True, 'value': float(g.marginal_outcome)}
    except Exception as e:   # noqa
        out = {'ok': False, 'err': type(e).__name__, 'msg': str(e)[:120]}
    finally:
        TV.smf = real
    out['steps'] = log
    return out


def validate_glm(ctx, rec, K, plan):
    """oracle: fitted values and predictions of a cell-saturated logistic fit are the cell means of the response it was
    given.  Returns the worst absolute error."""
    data, d = rec['data'], rec['outcome']
    k = int(d[1:])
    cols = ['A%d' % j for j in range(k + 1)] + ['L%d' % j for j in range(k + 1)]
    used = data[cols + [d]].dropna().astype(float)
    cm = used.groupby(cols)[d].mean()
    worst = 0.0
    if 'fitted' in rec:
        fit = pd.Series(rec['fitted'], index=rec['fitted_index'])
        exp = np.array([cm[tuple(row)] for row in used[cols].itertuples(index=False, name=None)])
        if len(exp) != len(fit):
            return float('inf')
        worst = max(worst, float(np.max(np.abs(np.asarray(fit) - exp))))
    if 'pred' in rec and plan is not None:
        lcols = ['L%d' % j for j in range(k + 1)]
        for pv, row, yy in zip(rec['pred'], data[lcols].itertuples(index=False, name=None), rec['y']):
            if yy != yy or any(x != x for x in row):
                continue
            key = tuple(float(x) for x in plan[:k + 1]) + tuple(float(x) for x in row)
            try:
                e = cm[key]
            except KeyError:
                return float('inf')
            worst = max(worst, abs(pv - e))
    return worst


def icg_part(ctx, fails, datasets=None):
    _maybe_patch()
    ctx.notes.extend(_PATCH_NOTE)
    if datasets is None:
        spec = ([1] * 5 + [2] * 6 + [3] * 5) if ctx.quick else ([1] * 30 + [2] * 50 + [3] * 40)
        datasets = []
        for i, K in enumerate(spec):
            mode = 'seeded' if i % 2 == 0 else 'repair'
            rows = gen_wide(ctx.rng, K, mode)
            datasets.append({'K': K, 'mode': mode, 'rows': rows, 'coding': ctx.rng.choice(['kept', 'nan']),
                             'index': ['range', 'range', 'shift', 'shuffle', 'shift_small', 'str'][i % 6],
                             'seed': ctx.rng.randrange(2 ** 31)})
    exprs = []
    for ds in datasets:
        K, rows = ds['K'], [[tuple(x) for x in r] for r in ds['rows']]
        ds['rows'] = rows
        n = len(rows)
        plans = list(itertools.product([0, 1], repeat=K))
        ds['plans'] = plans
        p0 = plans[ds['seed'] % len(plans)]
        ds['p0'] = p0
        per_plan = '; '.join('(positivityb %s rows, icg_print (icg_fit %d (PlanRow %s) rows), Qpair (np_gformula %s rows), '
                             'Qpair (np_gformula_flat %s rows), map pr (icg_trace_of %d (PlanRow %s) rows))'
                             % (coq_plan(p), K, coq_plan(p), coq_plan(p), coq_plan(p), K, coq_plan(p)) for p in plans)
        extra = ('icg_print (icg_fit %d (PlanRows (repeat %s %d)) rows); icg_print (icg_fit %d (PlanRows (repeat %s %d)) rows); '
                 'icg_print (icg_fit %d (PlanRow %s) rows)'
                 % (K, coq_plan(p0), n, K, coq_plan(p0), n - 1, K, coq_plan(list(p0) + [1])))
        k1 = ''
        if K == 1:
            k1 = (', [Qopair (tfg_fit cellmean_reg F (map (fun r => ob r 0) rows)); Qopair (tfg_fit cellmean_reg T (map (fun r => ob r 0) rows)); '
                  'Qpair (std1 F (map (fun r => ob r 0) rows)); Qpair (std1 T (map (fun r => ob r 0) rows))]')
        else:
            k1 = ', ([] : list (list Z))'
        exprs.append('let rows := %s in\n (forallb (surv_wfb %d) rows, [%s], [%s]%s)' % (coq_rows(rows, ds['coding']), K, per_plan, extra, k1))
    res, errs = coq_eval(ctx, 'c12a', IMPORTS, exprs, shard=1 if ctx.quick else 2, preamble=PREAMBLE)
    if errs:
        ctx.broken_ties.append('coq evaluation failed: ' + errs[0][1][-400:])
    for ds, rc in zip(datasets, res):
        ctx.evaluations += 1
        if rc is None:
            continue
        icg_dataset(ctx, fails, ds, rc)
    if len(ORACLE_SETS[1]) > max(2, len(ORACLE_SETS[0]) // 10):
        ctx.broken_ties.append('oracle: the saturated logistic fits missed the cell means on %d of %d data sets' % (len(ORACLE_SETS[1]), len(ORACLE_SETS[0])))


def _pl(ds):
    return {'part': 'icg', 'dataset': {k: ds[k] for k in ('K', 'mode', 'rows', 'coding', 'index', 'seed')}}


ORACLE_SETS = [set(), set()]      # data sets run, data sets with a case whose GLM oracle validation failed


def icg_dataset(ctx, fails, ds, rc):
    from random import Random
    K, rows, coding, plans = ds['K'], ds['rows'], ds['coding'], ds['plans']
    n = len(rows)
    rng = Random(ds['seed'])
    wf, per_plan, extra, k1 = rc
    ctx.count('icg:K=%d' % K)
    ctx.count('icg:mode=' + ds['mode'])
    ctx.count('icg:coding=' + coding)
    ctx.count('icg:index=' + ds['index'])
    ctx.count('icg:n<=%d' % (50 * ((n + 49) // 50)))
    payload = _pl(ds)
    if not wf:
        ctx.broken_ties.append('generator produced a wide data set that is not survival-type (surv_wfb false)')
        return
    df0 = wide_frame(rows, K, coding, 'range', rng)
    dfi = wide_frame(rows, K, coding, ds['index'], rng) if ds['index'] != 'range' else None
    events = sum(1 for r in rows for x in r if x[2] == 1)
    for plan, (pos, fit_q, np_q, flat_q, trace) in zip(plans, per_plan):
        spec, flat, model = frac(np_q), frac(flat_q), (None if fit_q[1] == 0 else frac(fit_q))
        pyflat = np_flat_py(rows, K, plan)
        if not pos or pyflat is None:
            ctx.broken_ties.append('generator: positivity fails for plan %r (K=%d, n=%d)' % (plan, K, n))
            continue
        if spec != flat or spec != pyflat:
            ctx.broken_ties.append('specification cross-check: Coq np_gformula %s, Coq flat %s, python textbook %s (K=%d plan %r)'
                                   % (spec, flat, pyflat, K, plan))
            continue
        if model is None or model != spec:
            ctx.broken_ties.append('model vs specification (contradicts the theorem): icg_fit %s, np_gformula %s' % (model, spec))
            continue
        out = run_icg(df0, K, list(plan))
        ctx.programs += 1
        ctx.disagreements_checked += 1
        if 0 < spec < 1:
            ctx.nontriv(['icg', rows, plan])
        ctx.sample({'K': K, 'n': n, 'events': events, 'plan': plan, 'np_gformula': str(spec), 'impl': out.get('value', out.get('err'))}, cap=3)
        what0 = 'K=%d, n=%d rows, plan %r (%s, index range)' % (K, n, list(plan), coding)
        if not out['ok']:
            fails.append((n, 'IterativeCondGFormula.fit.raises', 'fit raised %s: %s on %s' % (out['err'], out['msg'], what0), payload))
            continue
        # (c) oracle first: "a cell-saturated logistic fit returns the cell means of the response it was given" is validated on
        # every regression of every case.  Where statsmodels itself fails numerically (rank-deficient design + separated
        # cells: overflow in IRLS, a cell of mean 1/2 fitted as 1.0) the sequential models did not converge to their MLE and
        # the case is outside the property's quantifier: it is counted, not judged.  a broken tie is raised when
        # that happens on more than a tenth of the data sets (a change to how zEpid calls the GLM would show up there).
        ORACLE_SETS[0].add(ds['seed'])
        ow = [validate_glm(ctx, rec, K, plan) for rec in out['steps']]
        if any(not (w <= 1e-6) for w in ow):
            ORACLE_SETS[1].add(ds['seed'])
            ctx.count('icg: case not judged, statsmodels did not reach the saturated MLE (worst cell error %.2g)' % max(ow))
            continue
        # (b) the property itself: implementation vs Coq-evaluated specification
        if not close(out['value'], spec, TOL_FIT):
            fails.append((n, 'IterativeCondGFormula.marginal.value', 'marginal_outcome %r but the nonparametric g-formula is %s = %.12g on %s'
                          % (out['value'], spec, float(spec), what0), payload))
        # (a) correspondence on every intermediate; (c) oracle
        steps = out['steps']
        if len(steps) != K or len(trace) != K:
            fails.append((n, 'IterativeCondGFormula.steps.count', '%d regressions fitted, the model performs %d (%s)' % (len(steps), K, what0), payload))
            continue
        for si, (rec, (ps_q, pr_q)) in enumerate(zip(steps, trace)):
            k = K - 1 - si
            if rec['outcome'] != 'Y%d' % k:
                fails.append((n, 'IterativeCondGFormula.steps.order', 'regression %d is for %s, the model expects Y%d' % (si, rec['outcome'], k), payload))
                break
            ps = [frac(x) for x in ps_q]
            prd = [frac(x) for x in pr_q]
            w = validate_glm(ctx, rec, K, plan)
            ctx.oracle_checks += 1
            if not (w <= 1e-6):
                ctx.broken_ties.append('oracle: saturated logistic fit of %s differs from the cell means by %.3g (K=%d, n=%d)' % (rec['formula'], w, K, n))
            bad = [i for i, (x, q) in enumerate(zip(rec['y'], ps)) if not close(float(x), q, TOL_FIT)]
            if bad:
                i = bad[0]
                fails.append((n, 'IterativeCondGFormula.step.response', 'response of the regression for Y%d, row %d: implementation %r, model %s (%s)'
                              % (k, i, float(rec['y'][i]), ps[i], what0), payload))
                break
            used = np.where(np.isnan(rec['y']), np.nan, rec.get('pred', np.full(n, np.nan)))
            bad = [i for i, (x, q) in enumerate(zip(used, prd)) if not close(float(x), q, TOL_FIT)]
            if bad:
                i = bad[0]
                fails.append((n, 'IterativeCondGFormula.step.prediction', 'prediction column after the regression for Y%d, row %d: implementation %r, model %s (%s)'
                              % (k, i, float(used[i]), prd[i], what0), payload))
                break
            # the plan columns really replaced the observed exposures at prediction time
            tf = rec.get('tf')
            if tf is not None:
                got = np.asarray(tf[['A%d' % j for j in range(K)]], dtype=float)
                if not np.array_equal(got, np.tile(np.asarray(plan, dtype=float), (n, 1))):
                    fails.append((n, 'IterativeCondGFormula.step.plan-substitution', 'exposure columns at prediction time are not the plan %r (%s)' % (plan, what0), payload))
                    break
        # non-default index: same data, same plan
        if dfi is not None:
            ctx.programs += 1
            ctx.disagreements_checked += 1
            oi = run_icg(dfi, K, list(plan))
            if not oi['ok'] or not close(oi['value'], spec, TOL_FIT):
                fails.append((n, 'IterativeCondGFormula.fit.nondefault-index',
                              'same data with index kind %r: %s, with the default RangeIndex %r; nonparametric g-formula %s = %.12g (K=%d, n=%d, plan %r)'
                              % (ds['index'], ('marginal_outcome %r' % oi['value']) if oi['ok'] else ('raised %s: %s' % (oi['err'], oi['msg'])),
                                 out['value'], spec, float(spec), K, n, list(plan)),
                              dict(payload, plan=list(plan))))
    # ---- plan shapes (one plan per data set)
    p0 = ds['p0']
    spec0 = frac(per_plan[plans.index(p0)][2])
    m_per, m_short, m_wide = extra
    if m_per[1] == 0 or frac(m_per) != spec0 or not (m_short == [2, 0] and m_wide == [2, 0]):
        ctx.broken_ties.append('model: plan-shape evaluation unexpected %r %r %r' % (m_per, m_short, m_wide))
    shapes = [('plan-per-individual', [list(p0)] * n, True), ('plan-per-individual-ndarray', np.array([list(p0)] * n), True),
              ('plan-one-row-2d', [list(p0)], True),
              ('plan-too-few-rows', [list(p0)] * (n - 1), False), ('plan-too-many-columns', list(p0) + [1], False)]
    if dfi is not None:
        # one row per individual on a frame whose row labels are not 0..n-1 (a subset of a cohort keeps the cohort's labels)
        shapes.append(('plan-per-individual-nondefault-index', np.array([list(p0)] * n), True))
    for name, arg, valid in shapes:
        o = run_icg(dfi if name.endswith('nondefault-index') else df0, K, arg)
        ctx.programs += 1
        ctx.disagreements_checked += 1
        ctx.count('icg:shape=' + name)
        desc = 'K=%d, n=%d rows, plan %r given as %s' % (K, n, list(p0), name)
        if valid:
            if not o['ok']:
                key = 'plan-per-individual' if name.startswith('plan-per-individual') else name
                fails.append((n, 'IterativeCondGFormula.fit.%s.raises' % key, 'fit raised %s: %s (%s); the same plan as one row gives %s'
                              % (o['err'], o['msg'], desc, spec0), dict(payload, shape=name)))
            elif not close(o['value'], spec0, TOL_FIT):
                fails.append((n, 'IterativeCondGFormula.fit.%s.value' % name, 'marginal_outcome %r but the same plan as one row gives %s (%s)'
                              % (o['value'], spec0, desc), dict(payload, shape=name)))
        elif o['ok']:
            fails.append((n, 'IterativeCondGFormula.fit.%s.accepted' % name, 'a plan of the wrong shape was accepted (%s) and returned %r' % (desc, o['value']),
                          dict(payload, shape=name)))
        elif o['err'] != 'ValueError':
            fails.append((n, 'IterativeCondGFormula.fit.%s.wrong-exception' % name, 'wrong-shaped plan raised %s instead of ValueError (%s)' % (o['err'], desc),
                          dict(payload, shape=name)))
    # ---- K = 1: TimeFixedGFormula with the same model
    if K == 1:
        from zepid.causal.gformula import TimeFixedGFormula
        tq = [frac(x) for x in k1]
        for a, trt in ((0, 'none'), (1, 'all')):
            spec = frac(per_plan[plans.index((a,))][2])
            if tq[a] != spec or tq[2 + a] != spec:
                ctx.broken_ties.append('model: tfg_fit %s / std1 %s differ from np_gformula %s for K=1' % (tq[a], tq[2 + a], spec))
            ctx.programs += 1
            ctx.disagreements_checked += 1
            try:
                tg = TimeFixedGFormula(df0[['A0', 'L0', 'Y0']], exposure='A0', outcome='Y0')
                tg.outcome_model('A0 * L0', print_results=False)
                tg.fit(trt)
                val = float(tg.marginal_outcome)
            except Exception as e:   # noqa
                fails.append((n, 'TimeFixedGFormula.raises', 'TimeFixedGFormula raised %r on a K=1 frame with %d rows' % (e, n), payload))
                continue
            oi = run_icg(df0, 1, [a])
            if not close(val, spec, TOL_FIT):
                fails.append((n, 'TimeFixedGFormula.saturated.value', 'TimeFixedGFormula(A0*L0).fit(%r) = %r, standardisation over the strata of L0 gives %s' % (trt, val, spec), payload))
            if oi['ok'] and abs(oi['value'] - val) > TOL_FIT:
                fails.append((n, 'IterativeCondGFormula.K1-vs-TimeFixedGFormula', 'one time point, plan [%d]: IterativeCondGFormula %r, TimeFixedGFormula %r' % (a, oi['value'], val), payload))


# ================================================================================================ survival
def gen_long(rng):
    N = rng.randint(8, 60)
    T = rng.randint(2, 8)
    ids = rng.sample(range(1, 900), N)
    hz = {(a, t): rng.choice([0.0, 0.05, 0.15, 0.3, 0.5]) for a in (0, 1) for t in range(1, T + 1)}
    pc = rng.choice([0.0, 0.1, 0.25])
    people = []
    for i in ids:
        a = int(rng.random() < 0.5)
        w = rng.randint(0, 3)
        per = []
        for t in range(1, T + 1):
            ev = rng.random() < hz[(a, t)]
            per.append((t, int(ev)))
            if ev or rng.random() < pc:
                break
        people.append((i, a, w, per))
    # positivity of arm x period: every period present has both arms
    if not any(p[1] == 0 for p in people):
        people[0] = (people[0][0], 0, people[0][2], people[0][3])
    if not any(p[1] == 1 for p in people):
        people[-1] = (people[-1][0], 1, people[-1][2], people[-1][3])
    tmax = min(max(len(p[3]) for p in people if p[1] == a) for a in (0, 1))
    rows = []
    for i, a, w, per in people:
        for t, ev in per[:tmax]:
            rows.append((i, a, t, ev, w))
    order = rng.choice(['shuffled', 'shuffled', 'by-id-time-descending', 'by-id-time-permuted', 'sorted'])
    if order == 'shuffled':
        rng.shuffle(rows)
    elif order != 'sorted':
        # grouped by ascending id (as after a sort on id only) but not chronological within id
        out = []
        for pid_ in sorted({r[0] for r in rows}):
            grp = sorted([r for r in rows if r[0] == pid_], key=lambda r: r[2])
            if order == 'by-id-time-descending':
                grp.reverse()
            else:
                rng.shuffle(grp)
            out += grp
        rows = out
    return {'rows': rows, 'order': order, 'index': rng.choice(['range', 'shift', 'shuffle']), 'formula': rng.choice(['A*C(t)', 'C(t)*A', 'A + C(t) + A:C(t)']),
            # subject identifiers are labels: 18-digit registry numbers (int64 beyond 2**53, consecutive) are as good as 1..n
            'id_offset': rng.choice([0, 0, 10 ** 17])}


def coq_pp(rows):
    return '[' + '; '.join('mkPP %d %s %d (%d#1)' % (i, 'true' if a else 'false', t, ev) for i, a, t, ev, _ in rows) + ']'


def long_frame(case):
    off = case.get('id_offset', 0)
    df = pd.DataFrame([{'id': i + off, 'A': a, 't': t, 'd': float(ev)} for i, a, t, ev, w in case['rows']])
    n = len(df)
    if case['index'] == 'shift':
        df.index = range(500, 500 + n)
    elif case['index'] == 'shuffle':
        df.index = list(reversed(range(n)))
    return df


def surv_part(ctx, fails, cases=None):
    from zepid.causal.gformula import SurvivalGFormula
    if cases is None:
        cases = [gen_long(ctx.rng) for _ in range(12 if ctx.quick else 150)]
    TR = [('all', 'TAll'), ('none', 'TNone'), ('natural', 'TNatural')]
    work, exprs = [], []
    for case in cases:
        case['rows'] = [tuple(r) for r in case['rows']]
        df = long_frame(case)
        srt = sorted(case['rows'], key=lambda r: (r[0], r[2]))
        times = sorted({r[2] for r in case['rows']})
        runs = {}
        err = None
        try:
            warnings.simplefilter('ignore')
            g = SurvivalGFormula(df, idvar='id', exposure='A', outcome='d', time='t')
            g.outcome_model(case['formula'], print_results=False)
            base = g.gf.copy()
            fitted = np.asarray(g._outcome_model.predict(base), dtype=float)
            for trt, _ in TR:
                g.fit(trt)
                if ec.should_poke(df):
                    ec.poke(g)            # plot() / displays between fit() and reading the stored curve
                pdf = g.predicted_df
                gg = base.copy()
                if trt != 'natural':
                    gg['A'] = 1 if trt == 'all' else 0
                runs[trt] = {'ids': [int(x) - case.get('id_offset', 0) for x in pdf['id']], 't': [int(x) for x in pdf['t']], 'pred': [float(x) for x in pdf['d']],
                             'marg': {int(k): float(v) for k, v in g.marginal_outcome.items()},
                             'haz': [float(x) for x in np.asarray(g._outcome_model.predict(gg), dtype=float)]}
            # the same person-period file with a (time-varying, non-constant) weights column: the stored per-row predictions stay
            # cumulative incidences -- 1 - running product of (1 - hazard) within id, in [0, 1], non-decreasing -- and the marginal
            # curve is their weighted mean per period
            wsum = None
            if len(case['rows']) % 2 == 0:
                dfw = df.copy()
                dfw['w'] = [1 + (int(i) * 7 + int(t) * 3) % 4 for i, t in zip(df['id'], df['t'])]
                gw = SurvivalGFormula(dfw, idvar='id', exposure='A', outcome='d', time='t', weights='w')
                gw.outcome_model(case['formula'], print_results=False)
                basew = gw.gf.copy()
                wsum = []
                for trt, _ in TR:
                    gw.fit(trt)
                    pw = gw.predicted_df
                    ggw = basew.copy()
                    if trt != 'natural':
                        ggw['A'] = 1 if trt == 'all' else 0
                    hz_ = pd.Series(np.asarray(gw._outcome_model.predict(ggw), dtype=float), index=ggw.index)
                    ref_ = 1 - (1 - hz_).groupby(ggw['id']).cumprod()
                    got_ = pd.Series(np.asarray(pw['d'], dtype=float), index=pw.index)
                    mref_ = (ref_ * ggw['w']).groupby(ggw['t']).sum() / ggw['w'].groupby(ggw['t']).sum()
                    wsum.append((trt, float(np.max(np.abs(np.asarray(got_) - np.asarray(ref_.loc[pw.index])))) if len(got_) == len(ref_) else float('inf'),
                                 float(got_.min()), float(got_.max()),
                                 float(max(abs(float(gw.marginal_outcome[k]) - float(mref_[k])) for k in mref_.index))))
        except Exception as e:   # noqa
            err = '%s: %s' % (type(e).__name__, str(e)[:120])
        ctx.evaluations += 1
        if not err and wsum:
            ctx.count('surv:weighted run')
            for trt, dmax, lo_, hi_, dm in wsum:
                ctx.disagreements_checked += 1
                if not (dmax <= 1e-9) or lo_ < -1e-12 or hi_ > 1 + 1e-12:
                    fails.append((len(df), 'SurvivalGFormula.weights.predicted', 'SurvivalGFormula(weights=) fit(%r): the stored per-row predictions differ from '
                                  '1 - cumprod(1 - hazard) within id by %g (range %g..%g)' % (trt, dmax, lo_, hi_), {'part': 'surv', 'case': case}))
                if not (dm <= 1e-9):
                    fails.append((len(df), 'SurvivalGFormula.weights.marginal', 'SurvivalGFormula(weights=) fit(%r): marginal_outcome differs from the weighted '
                                  'mean per period of the cumulative incidences by %g' % (trt, dm), {'part': 'surv', 'case': case}))
        ctx.count('surv:index=' + case['index'])
        ctx.count('surv:periods=%d' % len(times))
        payload = {'part': 'surv', 'case': case}
        if err:
            fails.append((len(df), 'SurvivalGFormula.raises', 'SurvivalGFormula raised %s on person-period data (%d rows, model %s)' % (err, len(df), case['formula']), payload))
            continue
        # oracle: saturated pooled logistic model = cell proportions
        cm = base.groupby(['A', 't'])['d'].mean()
        w = max(abs(f - cm[(a, t)]) for f, a, t in zip(fitted, base['A'], base['t']))
        ctx.oracle_checks += 1
        if not (w <= 1e-6):
            ctx.broken_ties.append('oracle: pooled logistic model %s differs from the arm x period cell proportions by %.3g' % (case['formula'], w))
        work.append((case, srt, times, runs, payload))
        pp = coq_pp(case['rows'])
        per = '; '.join('(Qflat (surv_predicted %s rows), %s, Qapprox15 (predicted_tab (sort_pp rows) %s))'
                        % (c, 'Qoflat (surv_marginals %s rows [%s]%%nat)' % (c, '; '.join('%d' % t for t in times + [max(times) + 1])),
                           '[' + '; '.join(qlit(h) for h in runs[trt]['haz']) + ']') for trt, c in TR)
        kms = '; '.join('[%s]' % '; '.join('Qpair (product_limit (sort_pp rows) %s %d)' % (a, t) for t in times) for a in ('true', 'false'))
        exprs.append('let rows := %s in (pp_wfb (sort_pp rows) && pp_binaryb (sort_pp rows), map (fun r => (Z.of_nat (pid r), Z.of_nat (ptime r))) (sort_pp rows), [%s], [%s])'
                     % (pp, per, kms))
    res, errs = coq_eval(ctx, 'c12s', IMPORTS, exprs, shard=1 if ctx.quick else 4, preamble=PREAMBLE)
    if errs:
        ctx.broken_ties.append('coq evaluation failed: ' + errs[0][1][-400:])
    for (case, srt, times, runs, payload), rc in zip(work, res):
        if rc is None:
            continue
        n = len(srt)
        hyp, order, per, kms = rc
        if not hyp:
            ctx.broken_ties.append('generator produced person-period data that is not well formed (pp_wfb/pp_binaryb false)')
            continue
        km = {1: [frac(x) for x in kms[0]], 0: [frac(x) for x in kms[1]]}
        for (trt, _), (pred_q, marg_q, tab_q) in zip(TR, per):
            r = runs[trt]
            ctx.programs += 1
            ctx.disagreements_checked += 1
            desc = 'treatment=%r, %d person-period rows, %d periods, model %s, index %s' % (trt, n, len(times), case['formula'], case['index'])
            # oracle: sort order
            ctx.oracle_checks += 1
            if [tuple(x) for x in order] != list(zip(r['ids'], r['t'])) or list(zip(r['ids'], r['t'])) != [(x[0], x[2]) for x in srt]:
                ctx.broken_ties.append('oracle: sort_values([id, t]) order differs from Model.Survival.sort_pp')
                continue
            pq = [frac(x) for x in pred_q]
            bad = [i for i, (x, q) in enumerate(zip(r['pred'], pq)) if not close(x, q, TOL_FIT)]
            if len(pq) != len(r['pred']) or bad:
                i = bad[0] if bad else -1
                fails.append((n, 'SurvivalGFormula.predicted.value', 'row %d (id %r, period %r): predicted cumulative incidence %r, model with cell hazards %s (%s)'
                              % (i, r['ids'][i], r['t'][i], r['pred'][i], pq[i] if bad else None, desc), payload))
            tq = [Fraction(z, 10 ** 15) for z in tab_q]     # 15-decimal truncation of the exact value
            bad = [i for i, (x, q) in enumerate(zip(r['pred'], tq)) if not close(x, q, TOL_ARITH)]
            if bad:
                i = bad[0]
                fails.append((n, 'SurvivalGFormula.predicted.cumprod', 'row %d: predicted %r but 1 - cumprod(1 - hazard) within id of the hazards the model returned is %.15g (%s)'
                              % (i, r['pred'][i], float(tq[i]), desc), payload))
            mq = [None if x[1] == 0 else frac(x) for x in marg_q]
            if mq[-1] is not None:
                ctx.broken_ties.append('model: marginal at a period with no rows is not None')
            if sorted(r['marg']) != times:
                fails.append((n, 'SurvivalGFormula.marginal.index', 'marginal_outcome index %r, periods present %r (%s)' % (sorted(r['marg']), times, desc), payload))
                continue
            for t, q in zip(times, mq):
                if not close(r['marg'][t], q, TOL_FIT):
                    fails.append((n, 'SurvivalGFormula.marginal.model', 'marginal at period %d: %r, model %s (%s)' % (t, r['marg'][t], q, desc), payload))
                    break
            if trt != 'natural':
                a = 1 if trt == 'all' else 0
                ctx.nontriv(['surv', case['rows'], trt])
                for t, q in zip(times, km[a]):
                    if not close(r['marg'][t], q, TOL_FIT):
                        fails.append((n, 'SurvivalGFormula.marginal.product-limit', 'marginal at period %d: %r, product-limit cumulative incidence of arm %d is %s = %.12g (%s)'
                                      % (t, r['marg'][t], a, q, float(q), desc), payload))
                        break
                pl = dict(zip(times, km[a]))
                bad = [i for i, (x, t) in enumerate(zip(r['pred'], r['t'])) if not close(x, pl[t], TOL_FIT)]
                if bad:
                    i = bad[0]
                    fails.append((n, 'SurvivalGFormula.predicted.product-limit', 'row %d (id %r, period %r): %r, product limit %s (%s)'
                                  % (i, r['ids'][i], r['t'][i], r['pred'][i], pl[r['t'][i]], desc), payload))
            check_monotone(fails, r, n, desc, payload)
            ctx.sample({'survival_rows': n, 'periods': len(times), 'treatment': trt, 'marginal': r['marg']}, cap=4)
    # any fitted model (non-saturated, with a covariate): monotone and within [0,1]; cumprod correspondence
    extra = cases[: (4 if ctx.quick else 40)]
    for case in extra:
        df = long_frame(case)
        df['W'] = [r[4] for r in case['rows']]
        try:
            g = SurvivalGFormula(df, idvar='id', exposure='A', outcome='d', time='t')
            g.outcome_model('A + t + W', print_results=False)
            for trt in ('all', 'none', 'natural'):
                g.fit(trt)
                pdf = g.predicted_df
                r = {'ids': [int(x) - case.get('id_offset', 0) for x in pdf['id']], 't': [int(x) for x in pdf['t']], 'pred': [float(x) for x in pdf['d']]}
                ctx.programs += 1
                ctx.count('surv:non-saturated')
                check_monotone(fails, r, len(df), 'treatment=%r, model A + t + W' % trt, {'part': 'surv', 'case': case})
        except Exception as e:   # noqa
            fails.append((len(df), 'SurvivalGFormula.raises', 'SurvivalGFormula (A + t + W) raised %r' % (e,), {'part': 'surv', 'case': case}))


def check_monotone(fails, r, n, desc, payload):
    last = {}
    for i, (pid, x) in enumerate(zip(r['ids'], r['pred'])):
        if not (0.0 <= x <= 1.0):
            fails.append((n, 'SurvivalGFormula.predicted.range', 'row %d (id %r): predicted cumulative incidence %r outside [0,1] (%s)' % (i, pid, x, desc), payload))
            return
        if pid in last and x < last[pid]:
            fails.append((n, 'SurvivalGFormula.predicted.monotone', 'id %r: predicted cumulative incidence decreases from %r to %r (%s)' % (pid, last[pid], x, desc), payload))
            return
        last[pid] = x


# ================================================================================================ driver
def interleaved_part(ctx, fails):
    """several estimators alive at once (one per cohort / subgroup / resample): all are specified first, then each is fitted.
    Every one must return what it returns when it is the only estimator in the process."""
    import zepid.causal.gformula.TimeVary as TV
    for rep in range(2 if ctx.quick else 10):
        K = 1 + rep % 3
        plan = [1] * K if rep % 2 == 0 else [0] * K
        dfs = []
        for j in range(2 + rep % 2):
            rows = [[tuple(x) for x in r] for r in gen_wide(ctx.rng, K, 'seeded')]
            dfs.append(wide_frame(rows, K, 'kept', 'range', ctx.rng))
        alone = [run_icg(d, K, plan) for d in dfs]
        objs, together = [], []
        try:
            with warnings.catch_warnings():
                warnings.simplefilter('ignore')
                for d in dfs:
                    g = TV.IterativeCondGFormula(d, exposures=['A%d' % k for k in range(K)], outcomes=['Y%d' % k for k in range(K)])
                    g.outcome_model(models=models_for(K), print_results=False)
                    objs.append(g)
                for g in objs:
                    g.fit(treatments=plan)
                    together.append(float(g.marginal_outcome))
        except Exception as e:   # noqa
            fails.append((len(dfs[0]), 'IterativeCondGFormula.interleaved.raises', 'specifying %d estimators and then fitting them raised %s: %s'
                          % (len(dfs), type(e).__name__, str(e)[:100]), {'part': 'interleaved', 'K': K}))
            continue
        ctx.evaluations += 1
        ctx.programs += len(dfs)
        ctx.count('interleaved estimators: %d objects, K=%d' % (len(dfs), K))
        ctx.nontriv(['interleaved', K, plan, [d['Y0'].tolist()[:6] for d in dfs]])
        for j, (a, t) in enumerate(zip(alone, together)):
            ctx.disagreements_checked += 1
            if a.get('ok') and not close(t, a['value'], TOL_FIT):
                fails.append((len(dfs[j]), 'IterativeCondGFormula.interleaved', 'estimator %d of %d specified together and then fitted returns %r; the same '
                              'data and plan %r fitted alone give %r' % (j + 1, len(dfs), t, plan, a['value']),
                              {'part': 'interleaved', 'K': K, 'plan': plan, 'frames': [datagen.pack_frame(d) for d in dfs]}))


def run(ctx):
    fails = []
    icg_part(ctx, fails)
    interleaved_part(ctx, fails)
    surv_part(ctx, fails)
    report(ctx, fails)


def report(ctx, fails):
    fails.sort(key=lambda f: f[0])
    seen = set()
    for size, key, what, payload in fails:
        if key in seen:
            continue
        seen.add(key)
        n = sum(1 for f in fails if f[1] == key)
        ctx.violation(key, what + ' [%d failing cases]' % n, payload)


def replay(ctx, payload):
    fails = []
    if payload and payload.get('part') == 'icg':
        icg_part(ctx, fails, [dict(payload['dataset'])])
    elif payload and payload.get('part') == 'surv':
        surv_part(ctx, fails, [dict(payload['case'])])
    elif payload and payload.get('part') == 'interleaved':
        interleaved_part(ctx, fails)
    else:
        icg_part(ctx, fails)
        interleaved_part(ctx, fails)
        surv_part(ctx, fails)
    report(ctx, fails)
