"""C20 -- super learner weights are convex and built from out-of-fold predictions; StepwiseSL and AIC.

Observation technique (no source hooks): candidate learners are spy objects (sklearn BaseEstimator subclasses whose
__init__ logs, so every sklearn.clone is seen; fit/predict log the row-id column X[:, 0] and the values returned);
zepid.superlearner.stackers.nnls is wrapped at run time to capture the design it was given and its raw output.
Model.SuperLearner (Coq) recomputes fold blocks, call schedule, coefficients and predictions from the raw nnls
output and the candidates' recorded predictions; holdout_b (proved sound) is evaluated on the implementation's log.
StepwiseSL: the AIC of every column subset is recomputed with statsmodels and handed to Model.Stepwise as the oracle.

Environment: VERIF_C20_NP_IN1D_SHIM=1 makes the harness define numpy.in1d = numpy.isin when numpy lacks it
(development aid, default OFF).  Without it the real code runs as is: stackers.py calls np.in1d, which the installed
numpy no longer has, so SuperLearner.fit raises on every input and the check reports exactly that."""
import itertools
import math
import os
import warnings
from fractions import Fraction

import numpy as np
import pandas as pd

from common import coq_eval, frac, close, qlit, TOL_ARITH

PROP_FILE = 'theories/Properties/C20.v'
MODEL_FILES = ['theories/Model/SuperLearner.v', 'theories/Model/Stepwise.v']
GEN_GROUPS = ['slcoef']
RULE = ('SuperLearner: random (n 12..40, folds 2..10 incl. folds not dividing n and folds = n, 1..5 spy candidates with or '
        'without predict_proba, loss L2 / NLogLik, discrete or not, binary / continuous y), a stream of degenerate targets '
        '(y identically 0) and of rejected fold numbers (1, n+1); predictions requested for 5 new rows. '
        'StepwiseSL: random designs (n 30..80, p 1..4 continuous or mixed binary columns, Gaussian / Binomial / Poisson, '
        'backward / forward, interaction order 0..2) with the AIC of every subset of the expanded columns recomputed by '
        'statsmodels (designs with more than 10 (quick: 7) expanded columns are drawn again; one 14-column design in the '
        'thorough tier); a difference between the implementation\'s path and the model\'s is not judged (and counted) when two '
        'models the search may compare have recomputed AICs within 1e-7; the property checks use that tolerance. non-trivial = distinct (configuration, data seed).')
TRUSTED = ['spy candidate learners; run-time wrapper around zepid.superlearner.stackers.nnls (observation only)',
           'oracle: scipy.optimize.nnls (its raw output is an input of the model; non-negativity validated each run; the '
           'convexity theorem does not even need it)',
           'oracle: sklearn KFold(k, shuffle=False) yields the consecutive blocks of Model.SuperLearner.kfold (validated each run)',
           'oracle: sklearn.clone returns a new unfitted object built from the parameters (observed through __init__)',
           'oracle: statsmodels GLM(...).fit().aic as a function of the column subset (table recomputed by the harness with '
           'columns in increasing order; the implementation may fit the same subset in another column order: float noise ~1e-12)',
           'logit / expit are applied by the harness with math.log / math.exp to the exact pre-image returned by the model']

SHIM_ENV = 'VERIF_C20_NP_IN1D_SHIM'
TIE_TOL = 1e-7


# ------------------------------------------------------------------------------------------------ spies
LOG = [None]


TRUTH = [None]
YBAD = []


def _spy_class():
    from sklearn.base import BaseEstimator

    class Cand(BaseEstimator):
        SERIAL = [0]

        def __init__(self, cid=0, a=0.0, b=0.0, proba=False):
            self.cid, self.a, self.b, self.proba = cid, a, b, proba
            Cand.SERIAL[0] += 1
            self._serial = Cand.SERIAL[0]
            if LOG[0] is not None:
                LOG[0].append(('clone', self.cid, self._serial))

        def fit(self, X, y):
            y = np.asarray(y, dtype=float)
            if TRUTH[0] is not None:      # the outcome values handed to a candidate must be those of its training rows
                ids = np.asarray(X)[:, 0].astype(int)
                if len(y) != len(ids) or not np.array_equal(y, TRUTH[0][ids]):
                    YBAD.append((self.cid, [int(v) for v in ids[:6]]))
            self.mu_ = float(np.mean(y))
            self.lo_, self.hi_ = float(np.min(y)), float(np.max(y))
            if LOG[0] is not None:
                LOG[0].append(('fit', self.cid, self._serial, [int(v) for v in X[:, 0]]))
            return self

        def _values(self, X):
            v = self.a + (1 - abs(self.b)) * self.mu_ + self.b * X[:, 1]
            if self.lo_ >= 0 and self.hi_ <= 1:          # a probability-like target: keep strictly inside (0, 1)
                v = np.clip(v, 0.02, 0.98)
            return v

        def predict(self, X):
            v = self._values(X)
            if LOG[0] is not None:
                LOG[0].append(('predict', self.cid, self._serial, [int(x) for x in X[:, 0]], [float(x) for x in v]))
            return v

    class CandProba(Cand):
        def predict_proba(self, X):
            v = np.clip(self._values(X), 0.02, 0.98)
            if LOG[0] is not None:
                LOG[0].append(('predict', self.cid, self._serial, [int(x) for x in X[:, 0]], [float(x) for x in v]))
            return np.column_stack([1 - v, v])

    return Cand, CandProba


def shim_active():
    return os.environ.get(SHIM_ENV, '') == '1'


def install_shim():
    if shim_active() and not hasattr(np, 'in1d'):
        np.in1d = np.isin
        return True
    return False


# ------------------------------------------------------------------------------------------------ SuperLearner
def sl_data(spec):
    r = np.random.RandomState(spec['dseed'])
    n = spec['n']
    x1 = np.round(r.normal(size=n), 3)
    if spec['y'] == 'binary':
        y = r.binomial(1, 1 / (1 + np.exp(-0.8 * x1)), n).astype(float)
        y[0], y[1] = 1.0, 0.0
    elif spec['y'] == 'zero':
        y = np.zeros(n)
    else:
        y = np.round(2 + x1 + r.normal(size=n), 3)
    X = np.column_stack([np.arange(n, dtype=float), x1])
    Xn = np.column_stack([np.arange(5, dtype=float), np.round(r.normal(size=5), 3)])
    return X, y, Xn


def sl_run(spec):
    import zepid.superlearner.stackers as st
    from zepid.superlearner import SuperLearner
    Cand, CandProba = _spy_class()
    X, y, Xn = sl_data(spec)
    LOG[0] = None
    cands = []
    for c, (a, b, pr) in enumerate(spec['cands']):
        cands.append((CandProba if pr else Cand)(cid=c, a=a, b=b, proba=pr))
    out = {'error': None, 'raw': None}
    captured = []
    orig = st.nnls

    def nnls_wrap(A, b, *a, **kw):
        res = orig(A, b, *a, **kw)
        captured.append((np.array(A, dtype=float), np.array(b, dtype=float), np.array(res[0], dtype=float)))
        return res
    st.nnls = nnls_wrap
    log = []
    LOG[0] = log
    try:
        with warnings.catch_warnings():
            warnings.simplefilter('ignore')
            try:
                sl = SuperLearner(cands, ['c%d' % i for i in range(len(cands))], folds=spec['k'],
                                  loss_function=spec.get('loss_spelling', spec['loss']), discrete=spec['discrete'], bounds=spec.get('bounds', 1e-6))
                TRUTH[0] = np.asarray(y, dtype=float)
                del YBAD[:]
                carrier = ['ndarray', 'series', 'series-permuted-index', 'list'][spec['dseed'] % 4]
                if carrier == 'series':
                    yarg = pd.Series(y)
                elif carrier == 'series-permuted-index':       # labels are a permutation of 0..n-1 (e.g. after df.sample(frac=1))
                    yarg = pd.Series(y, index=np.random.RandomState(spec['dseed']).permutation(len(y)))
                elif carrier == 'list':
                    yarg = [float(v) for v in y]
                else:
                    yarg = y
                out['y_carrier'] = carrier
                sl.fit(X, yarg)
                out['y_misaligned'] = list(YBAD)
                TRUTH[0] = None
                out['n_fit_log'] = len(log)
                out['coefficients'] = [float(v) for v in sl.coefficients]
                out['perf_coefs'] = [float(v) for v in sl.est_performance['coefs']]
                out['cv_error'] = [float(v) for v in sl.est_performance['cv_error']]
                try:
                    out['pred'] = [float(v) for v in sl.predict(Xn)]
                except Exception as e:   # noqa
                    out['pred_error'] = '%s: %s' % (type(e).__name__, str(e)[:100])
            except Exception as e:   # noqa
                out['error'] = '%s: %s' % (type(e).__name__, str(e)[:160])
    finally:
        st.nnls = orig
        LOG[0] = None
    out['log'] = log
    out['touched'] = any(hasattr(c, 'mu_') for c in cands)
    if captured:
        A, b, raw = captured[0]
        out['A'], out['b'], out['raw'] = A, b, [float(v) for v in raw]
    out['X'], out['y'], out['Xn'] = X, y, Xn
    return out


def enc_sl_log(log):
    """spy log -> [(tag, t, c, rows)] with t = rank of the clone among the clones made in this run"""
    rank, evs = {}, []
    for e in log:
        if e[0] == 'clone':
            rank[e[2]] = len(rank)
            evs.append((0, rank[e[2]], e[1], []))
        else:
            evs.append((1 if e[0] == 'fit' else 2, rank.get(e[2], 9999), e[1], e[3]))
    return evs


def zl(xs):
    return '[' + '; '.join('(%d)%%Z' % x for x in xs) + ']'


def ev_term(evs):
    return '[' + '; '.join('((%d)%%Z, (%d)%%Z, (%d)%%Z, %s)' % (t, k, c, zl(rows)) for t, k, c, rows in evs) + ']'


def ql(xs):
    return '[' + '; '.join(qlit(float(x)) for x in xs) + ']'


def gen_sl_specs(ctx):
    rng = ctx.rng
    specs = []
    nrun = 60 if ctx.quick else 600
    for i in range(nrun):
        n = rng.randint(12, 40)
        k = rng.choice([2, 3, 4, 5, 6, 7, 8, 9, 10, n]) if i % 9 else rng.randint(2, 10)
        k = min(k, n)
        m = rng.randint(1, 5)
        loss = rng.choice(['L2', 'nloglik'])
        ykind = 'binary' if loss == 'nloglik' else rng.choice(['continuous', 'continuous', 'binary'])
        cands = []
        for c in range(m):
            pr = (loss == 'nloglik') and rng.random() < 0.5
            cands.append((round(rng.uniform(-0.1, 0.1), 3), round(rng.uniform(-0.3, 0.3), 3), pr))
        specs.append({'n': n, 'k': k, 'loss': loss, 'discrete': rng.random() < 0.4, 'y': ykind, 'cands': cands,
                      'dseed': rng.randint(0, 2 ** 31 - 1),
                      # the argument is documented as "L2, NLogLik" and compared case-insensitively
                      'loss_spelling': rng.choice(['L2', 'l2'] if loss == 'L2' else ['nloglik', 'NLogLik', 'NLOGLIK']),
                      # `bounds`: the truncation of the candidate probabilities on the log-likelihood path; 0.45 bites on nearly every row
                      'bounds': rng.choice([1e-6, 0.05, 0.45]) if loss == 'nloglik' else 1e-6})
    for i in range(3 if ctx.quick else 12):      # degenerate target
        specs.append({'n': rng.randint(12, 20), 'k': rng.randint(2, 5), 'loss': 'L2', 'discrete': bool(i % 2), 'y': 'zero',
                      'cands': [(0.0, 0.1, False), (0.05, -0.1, False)][:1 + i % 2], 'dseed': rng.randint(0, 2 ** 31 - 1)})
    for i in range(4 if ctx.quick else 12):      # rejected fold numbers
        n = rng.randint(12, 20)
        specs.append({'n': n, 'k': [1, n + 1][i % 2], 'loss': 'L2', 'discrete': False, 'y': 'continuous',
                      'cands': [(0.0, 0.1, False)], 'dseed': rng.randint(0, 2 ** 31 - 1)})
    return specs


def check_sl(ctx, specs, fails):
    from sklearn.model_selection import KFold
    install_shim()
    exprs, meta = [], []
    in1d_missing = not hasattr(np, 'in1d')
    for spec in specs:
        ctx.programs += 1
        n, k, m = spec['n'], spec['k'], len(spec['cands'])
        ctx.count('sl:folds=%s' % ('n' if k == n else k))
        ctx.count('sl:candidates=%d' % m)
        ctx.count('sl:loss=' + spec.get('loss_spelling', spec['loss']))
        ctx.count('sl:discrete=%s' % spec['discrete'])
        if spec['loss'] == 'nloglik':
            ctx.count('sl:nloglik bounds=%r discrete=%s' % (spec.get('bounds', 1e-6), spec['discrete']))
        ctx.count('sl:y=' + spec['y'])
        ctx.count('sl:n mod folds=%d' % (n % k))
        o = sl_run(spec)
        size = n * 10 + m
        payload = {'kind': 'sl', 'spec': spec}
        where = '[n=%d folds=%d candidates=%d loss=%s discrete=%s y=%s]' % (n, k, m, spec['loss'], spec['discrete'], spec['y'])
        valid_k = 2 <= k <= n
        if o['error'] and "no attribute 'in1d'" in o['error']:
            fails.append((size, 'SuperLearner.fit.np-in1d', 'SuperLearner.fit raised %s on every input (stackers.py uses numpy.in1d, '
                          'removed from numpy %s; numpy.isin is the replacement) %s' % (o['error'], np.__version__, where), payload))
            continue
        if o['error'] and valid_k:
            fails.append((size, 'SuperLearner.fit.raises', 'SuperLearner.fit raised %s on valid input %s' % (o['error'], where), payload))
            continue
        evs = enc_sl_log(o['log'][:o.get('n_fit_log', len(o['log']))])
        pevs = enc_sl_log(o['log'])[len(evs):]
        # candidate predictions for the 5 new rows, as the code received them (0 where the candidate was not called)
        newp = [[0.0] * m for _ in range(5)]
        for e in o['log'][o.get('n_fit_log', len(o['log'])):]:
            if e[0] == 'predict':
                for i, v in enumerate(e[4]):
                    newp[i][e[1]] = v
        raw = o['raw'] if o['raw'] is not None else [0.0] * m
        disc = 'true' if spec['discrete'] else 'false'
        if spec['loss'] == 'L2':
            pred_t = 'Qflat (map (sl_predict_l2 coefs) %s)' % ('[' + '; '.join(ql(r) for r in newp) + ']')
        else:
            pred_t = 'map (fun r => Qflat (sl_nll_args %s coefs r)) %s' % (qlit(spec.get('bounds', 1e-6)), '[' + '; '.join(ql(r) for r in newp) + ']')
        # cv_pred column per candidate, from the spy's own record of what it returned for held-out rows
        cvp = [[None] * n for _ in range(m)]
        for e in o['log'][:o.get('n_fit_log', len(o['log']))]:
            if e[0] == 'predict':
                for rid, v in zip(e[3], e[4]):
                    if 0 <= rid < n:
                        cvp[e[1]][rid] = v
        cv_ok = all(v is not None for col in cvp for v in col)
        cve_t = 'Qflat []'
        if cv_ok and spec['loss'] == 'L2':
            cve_t = 'Qflat [' + '; '.join('cv_error_l2 %s %s' % (ql(o['y']), ql(col)) for col in cvp) + ']'
        exprs.append(
            'let raw := %s in let r := sl_fit %s %d %d %d raw in '
            'let coefs := match r with SLOk c _ _ => c | _ => [] end in '
            '(print_sl r, [holdout_b (map dec_sl %s) %d %d; forallb (fun c => Qle_bool 0 c) raw], '
            'map enc_sl (predict_schedule %d (%d * %d) coefs (seq 0 5)), %s, %s, '
            'map (fun tt => (map Z.of_nat (fst tt), map Z.of_nat (snd tt))) (kfold %d %d))'
            % (ql(raw), disc, n, m, k, ev_term(evs), n, m, m, k, m, pred_t, cve_t, n, k))
        meta.append((spec, o, evs, pevs, cvp, cv_ok, size, payload, where, valid_k))
    res, errs = coq_eval(ctx, 'c20sl', ['Zepid.Base.QUtil', 'Zepid.Model.Bounds', 'Zepid.Model.SuperLearner'], exprs, shard=12)
    if errs:
        ctx.broken_ties.append('coq evaluation failed: ' + errs[0][1][-300:])
    for (spec, o, evs, pevs, cvp, cv_ok, size, payload, where, valid_k), r in zip(meta, res):
        ctx.evaluations += 1
        if r is None:
            continue
        n, k, m = spec['n'], spec['k'], len(spec['cands'])
        status, m_coefs, m_norm, m_evs, (hold_ok, nnls_ok), m_pevs, m_pred, m_cve, m_folds = r
        ctx.nontriv(['sl', spec['n'], spec['k'], spec['loss'], spec['discrete'], spec['dseed']])
        ctx.sample({'kind': 'SuperLearner', 'n': n, 'folds': k, 'candidates': m, 'loss': spec['loss'], 'discrete': spec['discrete'],
                    'model_status': status, 'nnls_raw': o['raw'], 'coefficients': o.get('coefficients')}, cap=3)

        def bad(key, what):
            fails.append((size, key, what + ' ' + where, payload))
        ctx.disagreements_checked += 1
        ctx.count('y-carrier:' + str(o.get('y_carrier')))
        if o.get('y_misaligned'):
            bad('SuperLearner.fit.y-misaligned', 'a candidate was fitted on outcome values that are not those of its training rows (y given as %s; first: candidate %r rows %r)'
                % (o.get('y_carrier'), o['y_misaligned'][0][0], o['y_misaligned'][0][1]))
        # ---- guards
        if status == 1:
            if not (o['error'] or '').startswith('ValueError'):
                bad('SuperLearner.fit.folds-guard', 'folds=%d with n=%d must be rejected with ValueError, implementation: %s' % (k, n, o['error'] or 'ran'))
            continue
        if o['error']:
            bad('SuperLearner.fit.raises', 'SuperLearner.fit raised %s but the model accepts the input' % o['error'])
            continue
        # ---- (c) oracles
        ctx.oracle_checks += 2
        if not nnls_ok:
            ctx.broken_ties.append('oracle: nnls returned a negative coefficient %r %s' % (o['raw'], where))
        sk = [([int(v) for v in tr], [int(v) for v in te]) for tr, te in KFold(k, shuffle=False).split(range(n))]
        if sk != [(list(a), list(b)) for a, b in m_folds]:
            ctx.broken_ties.append('oracle: sklearn KFold(%d).split(range(%d)) differs from Model.SuperLearner.kfold' % (k, n))
        # ---- (a) correspondence: schedule, cv_pred fill, coefficients, predictions
        fit_model = [(t, tt, c, list(rows)) for t, tt, c, rows in m_evs]
        if fit_model != [(t, tt, c, list(rows)) for t, tt, c, rows in evs]:
            d = next((i for i, (x, y) in enumerate(zip(fit_model, evs)) if x != (y[0], y[1], y[2], list(y[3]))), min(len(fit_model), len(evs)))
            bad('SuperLearner.fit.schedule', 'clone/fit/predict log differs from the model schedule at call %d of %d/%d: impl %r model %r'
                % (d, len(evs), len(fit_model), evs[d] if d < len(evs) else None, fit_model[d] if d < len(fit_model) else None))
        if o.get('A') is not None:
            if not cv_ok:
                bad('SuperLearner.cv_pred.unfilled', 'some (row, candidate) never received an out-of-fold prediction')
            elif not (np.array_equal(o['A'], np.array(cvp).T) and np.array_equal(o['b'], o['y'])):
                bad('SuperLearner.cv_pred.fill', 'the matrix handed to nnls is not (held-out predictions by row and candidate, y)')
        if o['touched']:
            bad('SuperLearner.estimator-not-cloned', 'a user-supplied candidate object was fitted itself')
        if status == 2:
            # all nnls coefficients below sqrt(eps): 0/0
            if not all(v != v for v in o['coefficients']):
                bad('SuperLearner.coefficients', 'model: NaN coefficients (all nnls weights < 2^-26), implementation %r' % (o['coefficients'],))
            bad('SuperLearner.coefficients.nan', 'coefficients are NaN (nnls returned %r, all below sqrt(eps)): not non-negative weights summing to one; '
                'predictions %r' % (o['raw'], o.get('pred')))
            continue
        coefs = [frac(x) for x in m_coefs]
        norm = [frac(x) for x in m_norm]
        if not norm:       # discrete=True on NaN weights: argmax(NaN vector) = 0
            norm = [None] * m
            bad('SuperLearner.coefficients.nan', 'normalised weights are NaN (nnls returned %r, all below sqrt(eps)); discrete=True then puts '
                'coefficient 1 on candidate 0 (argmax of a NaN vector): %r' % (o['raw'], o['coefficients']))
        if not all(close(a, b, TOL_ARITH) for a, b in zip(o['coefficients'], coefs)) or len(coefs) != len(o['coefficients']):
            bad('SuperLearner.coefficients', 'coefficients %r, model %s' % (o['coefficients'], [str(c) for c in coefs]))
        if not all(close(a, b, TOL_ARITH) for a, b in zip(o['perf_coefs'], norm)):
            bad('SuperLearner.est_performance.coefs', 'est_performance coefs %r, normalised nnls weights %s' % (o['perf_coefs'], [str(c) for c in norm]))
        if 'pred_error' in o:
            bad('SuperLearner.predict.raises', 'predict raised %s' % o['pred_error'])
            continue
        pm = [(t, tt, c, list(rows)) for t, tt, c, rows in m_pevs]
        if pm != [(t, tt, c, list(rows)) for t, tt, c, rows in pevs]:
            bad('SuperLearner.predict.schedule', 'predict() calls %r, model %r' % (pevs, pm))
        if spec['loss'] == 'L2':
            exp = [float(frac(x)) for x in m_pred]
            okp = all(close(a, frac(x), TOL_ARITH) for a, x in zip(o['pred'], m_pred))
        else:
            exp = []
            for row in m_pred:
                z = sum(float(c) * math.log(float(frac(q)) / (1 - float(frac(q)))) for c, q in zip(coefs, row))
                exp.append(1 / (1 + math.exp(-z)))
            okp = all(abs(a - b) <= TOL_ARITH * max(1, abs(b)) for a, b in zip(o['pred'], exp))
        if not okp or len(exp) != len(o['pred']):
            bad('SuperLearner.predict.value', 'predict() = %r, coefficient-weighted combination of the refitted candidates = %r' % (o['pred'], exp))
        if spec['loss'] == 'L2' and m_cve:
            if not all(close(a, frac(x), TOL_ARITH) for a, x in zip(o['cv_error'], m_cve)):
                bad('SuperLearner.cv_error', 'cv_error %r, mean squared out-of-fold error %r' % (o['cv_error'], [float(frac(x)) for x in m_cve]))
        # ---- (b) the property on the implementation's own log and numbers
        if not hold_ok:
            bad('SuperLearner.holdout', 'some row was not held out exactly once per candidate by a clone fitted on the other rows only')
        cf = o['coefficients']
        if any(c < 0 for c in cf) or abs(sum(cf) - 1) > TOL_ARITH:
            bad('SuperLearner.coefficients.convex', 'coefficients %r are not non-negative summing to one' % (cf,))
        if spec['discrete'] and sorted(cf) != [0.0] * (m - 1) + [1.0]:
            bad('SuperLearner.coefficients.discrete', 'discrete coefficients %r are not one-hot' % (cf,))


# ------------------------------------------------------------------------------------------------ StepwiseSL
def expand(X, order):
    cols = [X[:, j] for j in range(X.shape[1])]
    for o in range(2, min(order, X.shape[1]) + 2):
        for co in itertools.combinations(range(X.shape[1]), o):
            cols.append(np.prod(X[:, co], axis=1))
    return np.column_stack(cols)


def step_data(spec):
    r = np.random.RandomState(spec['dseed'])
    n, p = spec['n'], spec['p']
    X = np.round(r.normal(size=(n, p)), 3)
    if spec['design'] == 'mixed':
        for j in range(p):
            if r.rand() < 0.5:
                X[:, j] = r.binomial(1, 0.5, n)
    xdt = spec.get('xdtype', 'float64')
    if xdt != 'float64':
        # whole-number measurements (age, BMI, counts) stored compactly: products of two columns exceed the storage type's
        # range, the documented design is still the real-number product
        hi = {'int8': 90, 'uint8': 200, 'int16': 900}[xdt]
        X = r.randint(2, hi, size=(n, p)).astype(float)
    Z = X if xdt == 'float64' else (X - X.mean(axis=0)) / (X.std(axis=0) + 1e-9)
    beta = np.round(r.uniform(-0.8, 0.8, p), 2) * (r.rand(p) < 0.6)
    lin = Z @ beta + (0.5 * Z[:, 0] * Z[:, -1] if p > 1 and r.rand() < 0.5 else 0)
    if spec.get('rich'):
        # every main effect AND every product term matters: a search that is any good selects (nearly) the whole expanded design
        E = expand(Z, spec['order'])
        lin = E @ (np.round(r.uniform(0.5, 0.9, E.shape[1]), 2) * r.choice([-1.0, 1.0], E.shape[1]))
    if spec['family'] == 'gaussian':
        y = np.round(1 + lin + r.normal(size=n), 3)
    elif spec['family'] == 'gaussian-log':
        y = np.round(np.exp(0.4 * lin) + 0.3 + 0.25 * np.abs(r.normal(size=n)), 3)      # positive, log-linear mean
    elif spec['family'] in ('binomial', 'binomial-probit'):
        y = r.binomial(1, 1 / (1 + np.exp(-lin)), n).astype(float)
        y[0], y[1] = 1.0, 0.0
    else:
        y = r.poisson(np.exp(0.2 + 0.5 * lin)).astype(float)
    if xdt != 'float64':
        X = X.astype(xdt)
    return X, y


def family_of(name):
    import statsmodels.api as sm
    links = sm.families.links
    if name == 'gaussian-log':         # "all statsmodels families are supported": a family carries its link
        return sm.families.Gaussian(link=links.Log())
    if name == 'binomial-probit':
        return sm.families.Binomial(link=links.Probit())
    return {'gaussian': sm.families.Gaussian, 'binomial': sm.families.Binomial, 'poisson': sm.families.Poisson}[name]()


def n_cols(p, order):
    return sum(math.comb(p, j) for j in range(1, min(order, p) + 2))


def aic_table(Xu, y, famname):
    import statsmodels.api as sm
    tbl = {}
    ones = np.ones((Xu.shape[0], 1))
    for size in range(Xu.shape[1] + 1):
        for sub in itertools.combinations(range(Xu.shape[1]), size):
            try:
                a = float(sm.GLM(y, np.hstack([ones, Xu[:, list(sub)]]), family=family_of(famname)).fit().aic)
            except Exception:   # noqa
                a = float('nan')
            tbl[sub] = a
    return tbl


def relevant_tie(tbl, ncol):
    """is there a pair of models the search could have to compare (two single-step neighbours of one model, or a model
    and one of its single-step neighbours) whose recomputed AICs are within TIE_TOL?  Float noise of the two fits
    (different column order) may then legitimately decide either way."""
    def near(x, y):
        return abs(x - y) <= TIE_TOL * max(1.0, abs(x))
    for S, a in tbl.items():
        if a != a:
            continue
        ups = [tuple(sorted(set(S) | {v})) for v in range(ncol) if v not in S]
        downs = [tuple(c for c in S if c != v) for v in S]
        for group in (ups, downs):
            vals = sorted(tbl[g] for g in group if tbl[g] == tbl[g])
            if any(near(x, y) for x, y in zip(vals, vals[1:])) or any(near(a, v) for v in vals):
                return True
    return False


def gen_step_specs(ctx):
    rng = ctx.rng
    cap = 7 if ctx.quick else 10
    specs = []
    for i in range(60 if ctx.quick else 600):
        while True:
            p, order = rng.randint(1, 4), rng.randint(0, 2)
            if n_cols(p, order) <= cap:
                break
        specs.append({'n': rng.randint(30, 80), 'p': p, 'order': order, 'family': rng.choice(['gaussian', 'binomial', 'poisson', 'gaussian-log', 'binomial-probit']),
                      'fwd': rng.random() < 0.5, 'design': rng.choice(['continuous', 'continuous', 'mixed']),
                      'dseed': rng.randint(0, 2 ** 31 - 1),
                      'xdtype': rng.choice(['float64', 'float64', 'float64', 'int8', 'uint8', 'int16'])})
    for j in range(4 if ctx.quick else 24):
        specs.append({'n': 150, 'p': 3, 'order': 1 + (j // 2) % 2, 'family': ['gaussian', 'gaussian', 'poisson'][j % 3], 'fwd': j % 2 == 0,
                      'design': 'continuous', 'dseed': rng.randint(0, 2 ** 31 - 1), 'xdtype': 'float64', 'rich': True})
    if not ctx.quick:
        specs.append({'n': 60, 'p': 4, 'order': 2, 'family': 'gaussian', 'fwd': False, 'design': 'continuous', 'dseed': rng.randint(0, 2 ** 31 - 1)})
    return specs


def step_run(spec):
    from zepid.superlearner import StepwiseSL
    X, y = step_data(spec)
    out = {'error': None}
    with warnings.catch_warnings():
        warnings.simplefilter('ignore')
        try:
            s = StepwiseSL(family_of(spec['family']), selection='forward' if spec['fwd'] else 'backward', order_interaction=spec['order'])
            s.fit(X, y)
            out['cols'] = [int(c) for c in s.cols_optim]
            out['aic'] = float(s.model_optim.aic)
            Xf = np.asarray(X, dtype=float)
            out['Xu_ok'] = bool(np.array_equal(np.asarray(StepwiseSL._all_order_interactions_(X, min(spec['order'], X.shape[1])), dtype=float), expand(Xf, spec['order'])))
            out['pred_ok'] = bool(np.allclose(s.predict(X), s.model_optim.predict(np.hstack([np.ones((X.shape[0], 1)), expand(Xf, spec['order'])[:, out['cols']]]))))
            # new rows of the SAME shape as the training design (a second cohort of equal size, a counterfactual copy)
            X2 = X[::-1].copy()
            X2f = np.asarray(X2, dtype=float)
            out['pred_new_ok'] = bool(np.allclose(s.predict(X2), s.model_optim.predict(np.hstack([np.ones((X2.shape[0], 1)), expand(X2f, spec['order'])[:, out['cols']]]))))
        except Exception as e:   # noqa
            out['error'] = '%s: %s' % (type(e).__name__, str(e)[:160])
        out['table'] = aic_table(expand(np.asarray(X, dtype=float), spec['order']), y, spec['family'])
    return out


def check_step(ctx, specs, fails):
    exprs, meta = [], []
    for spec in specs:
        ctx.programs += 1
        o = step_run(spec)
        ncol = n_cols(spec['p'], spec['order'])
        ctx.count('step:family=' + spec['family'])
        ctx.count('step:direction=' + ('forward' if spec['fwd'] else 'backward'))
        ctx.count('step:order=%d' % spec['order'])
        if spec.get('rich'):
            ctx.count('step:every expanded term carries signal (%s)' % ('forward' if spec['fwd'] else 'backward'))
        ctx.count('step:columns=%d' % ncol)
        ctx.count('step:design=' + spec['design'])
        ctx.count('step:X dtype=' + spec.get('xdtype', 'float64'))
        tbl = o['table']
        if any(v in (float('inf'), float('-inf')) for v in tbl.values()):
            ctx.count('step:skipped-infinite-aic')
            continue
        near_tie = None      # decided lazily, only if the paths differ
        t_term = '[' + '; '.join('(%s, %s)' % ('[' + '; '.join('%d%%nat' % c for c in sub) + ']',
                                               'None' if v != v else 'Some ' + qlit(v)) for sub, v in tbl.items()) + ']'
        fwd = 'true' if spec['fwd'] else 'false'
        cols = o.get('cols')
        cterm = '[' + '; '.join('%d%%nat' % c for c in (cols or [])) + ']'
        tol = qlit(Fraction(1, 10 ** 7))
        exprs.append('let tbl := %s in (print_step (stepwise (aic_tbl tbl) %s %d), '
                     '[step_not_worse_b (aic_tbl tbl) %s %d %s %s; step_local_min_b (aic_tbl tbl) %s %d %s %s], Z.of_nat (n_columns %d %d))'
                     % (t_term, fwd, ncol, fwd, ncol, tol, cterm, fwd, ncol, tol, cterm, spec['p'], spec['order']))
        meta.append((spec, o, ncol, near_tie))
    res, errs = coq_eval(ctx, 'c20st', ['Zepid.Base.QUtil', 'Zepid.Model.Stepwise'], exprs, shard=8)
    if errs:
        ctx.broken_ties.append('coq evaluation failed: ' + errs[0][1][-300:])
    for (spec, o, ncol, near_tie), r in zip(meta, res):
        ctx.evaluations += 1
        if r is None:
            continue
        status, m_cols, m_aic, (nw_ok, lm_ok), m_ncol = r
        ctx.nontriv(['step', spec])
        size = spec['n'] + 100 * ncol
        payload = {'kind': 'step', 'spec': spec}
        where = '[n=%d p=%d order=%d (%d columns) family=%s %s design=%s]' % (
            spec['n'], spec['p'], spec['order'], ncol, spec['family'], 'forward' if spec['fwd'] else 'backward', spec['design'])
        ctx.sample({'kind': 'StepwiseSL', 'columns': ncol, 'family': spec['family'], 'forward': spec['fwd'], 'impl_cols': o.get('cols'),
                    'model_cols': list(m_cols), 'aic': o.get('aic'), 'table_size': len(o['table'])}, cap=4)

        def bad(key, what):
            fails.append((size, key, what + ' ' + where, payload))
        ctx.disagreements_checked += 1
        if m_ncol != ncol:
            ctx.broken_ties.append('harness: expanded design has %d columns, model n_columns says %d %s' % (ncol, m_ncol, where))
        if status == 3:
            ctx.broken_ties.append('model: fuel exhausted %s' % where)
            continue
        if status in (1, 2):
            if not o['error']:
                bad('StepwiseSL.fit.nan-start', 'starting model has NaN AIC (model status %d) but the implementation returned %r' % (status, o.get('cols')))
            continue
        if o['error']:
            bad('StepwiseSL.fit.raises', 'StepwiseSL.fit raised %s' % o['error'])
            continue
        if not o['Xu_ok']:
            bad('StepwiseSL.interactions', '_all_order_interactions_ differs from (columns, then all products of 2..order+1 distinct columns)')
        if not o['pred_ok']:
            bad('StepwiseSL.predict', 'predict(X) differs from the optimal GLM applied to the selected columns')
        if o.get('pred_new_ok') is False:
            bad('StepwiseSL.predict', 'predict(X_new) for new rows with the shape of the training design differs from the optimal GLM applied to them')
        # (a) path
        if list(m_cols) != o['cols']:
            if relevant_tie(o['table'], ncol):
                ctx.count('step:paths differ, near-tie in the table (not judged)')
            else:
                bad('StepwiseSL.cols_optim', 'cols_optim %r, model search on the recomputed AIC table %r' % (o['cols'], list(m_cols)))
        elif not close(o['aic'], frac(m_aic), TOL_ARITH):
            bad('StepwiseSL.aic', 'model_optim.aic %r, table %s' % (o['aic'], frac(m_aic)))
        else:
            ctx.count('step:path agrees')
        # (b) the property on the returned model, with the recomputed table
        tv = o['table'].get(tuple(sorted(o['cols'])))
        if tv is None or not (abs(tv - o['aic']) <= TOL_ARITH * max(1, abs(tv))):
            bad('StepwiseSL.model_optim', 'model_optim.aic %r is not the AIC of the GLM on cols_optim %r (recomputed %r)' % (o['aic'], o['cols'], tv))
        if not nw_ok:
            bad('StepwiseSL.worse-than-start', 'returned model %r has larger AIC than the starting model' % (o['cols'],))
        if not lm_ok:
            bad('StepwiseSL.not-local-min', 'a single %s from the returned model %r lowers AIC' % ('addition' if spec['fwd'] else 'deletion', o['cols']))


# ------------------------------------------------------------------------------------------------ driver
def report(ctx, fails):
    fails.sort(key=lambda f: f[0])
    seen = set()
    for size, key, what, payload in fails:
        if key in seen:
            continue
        seen.add(key)
        n = sum(1 for f in fails if f[1] == key)
        ctx.violation(key, what + ' [%d failing cases]' % n, payload)


def run(ctx):
    fails = []
    ctx.notes.append('%s=%s (numpy %s has in1d: %s)' % (SHIM_ENV, os.environ.get(SHIM_ENV, ''), np.__version__, hasattr(np, 'in1d')))
    check_sl(ctx, gen_sl_specs(ctx), fails)
    check_step(ctx, gen_step_specs(ctx), fails)
    report(ctx, fails)


def replay(ctx, payload):
    fails = []
    if payload and payload.get('kind') == 'sl':
        check_sl(ctx, [payload['spec']], fails)
    elif payload and payload.get('kind') == 'step':
        check_step(ctx, [payload['spec']], fails)
    else:
        run(ctx)
        return
    report(ctx, fails)
