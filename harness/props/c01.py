"""C01 -- saturated nuisance models reproduce nonparametric standardisation (IPTW, TimeFixedGFormula, AIPTW, TMLE)."""
import math
from fractions import Fraction

import numpy as np
import pandas as pd

from common import coq_eval, frac, close, qlit, TOL_FIT
import datagen
import est_common as ec

PROP_FILE = 'theories/Properties/C01.v'
MODEL_FILES = ['theories/Base/Rows.v', 'theories/Model/Estimators.v']
GEN_GROUPS = ['weights', 'aipw', 'gfmarg', 'drest']
RULE = ('random categorical frames: 1-3 covariates of arity 2-4, every stratum contains both arms (and both outcome '
        'values per cell for binary outcomes), outcome binary / normal (2 dp) / Poisson; every estimator with models '
        'saturated in the covariates; IPTW under stabilised/unstabilised x population/exposed/unexposed, g-formula under '
        'all/none x 3 targets; non-trivial = distinct (frame, estimator, options)')
TRUSTED = ['statsmodels GLM/GEE solve their estimating equations: for a design saturated in the cells the fitted value of a '
           'cell is its (weighted) observed-outcome mean / proportion (validated on every case: snap error < 1e-7)',
           'patsy builds the saturated design the formula says']

TARGETS = [('population', 'TAll'), ('exposed', 'TExposed'), ('unexposed', 'TUnexposed')]


def run_case(df, meta):
    """run all four estimators with saturated models; returns dict of observations (floats) and per-row values"""
    from zepid.causal.ipw import IPTW
    from zepid.causal.gformula import TimeFixedGFormula
    from zepid.causal.doublyrobust import AIPTW, TMLE
    out = {'errors': {}}
    otype = meta['outcome']
    # both documented spellings of the Gaussian family are exercised ('gaussian' and its alias 'normal')
    dist = {'binary': None, 'normal': ('gaussian' if meta['n'] % 2 else 'normal'), 'poisson': 'poisson'}[otype]
    satL, satAL = meta['sat_L'], meta['sat_AL']
    miss = bool(meta.get('missing'))
    wcol = 'w' if meta.get('weighted') else None      # frequency weights: thousands of identical rows written once
    pk = ec.should_poke(df) or miss      # displays / diagnostics / plots called before and after fit() on half the cases
    out['poked'] = pk

    def guard(name, fn):
        try:
            fn()
        except Exception as e:   # noqa
            out['errors'][name] = '%s: %s' % (type(e).__name__, str(e)[:120])

    def iptw():
        res = {}
        for stab in (False, True):
            for std, _ in TARGETS:
                dfc = df.copy()
                ip = IPTW(dfc, 'A', 'Y', standardize=std, weights=wcol)
                ec.scramble(dfc)     # the caller's own frame changes after construction
                ip.treatment_model(satL, stabilized=stab, print_results=False)
                if miss:
                    ip.missing_model(satAL, stabilized=False, print_results=False)
                ip.marginal_structural_model('A')
                if pk:
                    ec.poke(ip)
                ip.fit(continuous_distribution=dist) if dist else ip.fit()
                if pk:
                    ec.poke(ip)
                if otype == 'binary':
                    est = {'rd': float(ip.risk_difference['RD'].iloc[1]), 'rr': float(ip.risk_ratio['RR'].iloc[1]),
                           'or': float(ip.odds_ratio['OR'].iloc[1]), 'mu0': float(ip.risk_difference['RD'].iloc[0])}
                    est['mu1'] = est['mu0'] + est['rd']
                elif otype == 'normal':
                    b0, b1 = [float(x) for x in ip.average_treatment_effect['ATE']]
                    est = {'mu0': b0, 'mu1': b0 + b1, 'rd': b1}
                else:
                    b0, b1 = [float(x) for x in ip.average_treatment_effect['ATE']]
                    est = {'mu0': math.exp(b0), 'mu1': math.exp(b0 + b1)}
                res[(stab, std)] = est
                if not stab and std == 'population':
                    if miss:     # Pr(outcome observed | A received, L) as the fitted missing model has it (1 where unobserved: unused)
                        w = np.asarray(ip.ipmw, dtype=float)
                        out['iptw_m'] = np.where(np.isnan(w), 1.0, 1.0 / w)
                    out['iptw_g'] = np.asarray(ip.df['__denom__'], dtype=float)
                    out['S'] = np.asarray(ip.df['S'])
                    out['A'] = np.asarray(ip.df['A'])
                    out['Y'] = np.asarray(ip.df['Y'], dtype=float)
                if stab and std == 'population':
                    out['iptw_n'] = float(np.asarray(ip.df['__numer__'])[0])
        out['iptw'] = res

    def gform():
        res, res_cc = {}, {}
        for std, _ in TARGETS:
            dfc = df.copy()
            g = TimeFixedGFormula(dfc, 'A', 'Y', outcome_type=otype, standardize=std, weights=wcol)
            ec.scramble(dfc)
            g.outcome_model(satAL, print_results=False)
            if pk:
                ec.poke(g)
            g.fit('all')
            if pk:
                ec.poke(g)
            r1 = float(g.marginal_outcome)
            if std == 'population':
                out['gf_q1'] = np.asarray(g.predicted_df['Y'], dtype=float)
            g.fit('none')
            r0 = float(g.marginal_outcome)
            if std == 'population':
                out['gf_q0'] = np.asarray(g.predicted_df['Y'], dtype=float)
            res[std] = (r1, r0)
            if miss:
                # predict_missing=False: only the rows with an observed outcome are averaged -> the standardisation of the
                # complete-case frame
                g.fit('all', predict_missing=False)
                c1 = float(g.marginal_outcome)
                g.fit('none', predict_missing=False)
                res_cc[std] = (c1, float(g.marginal_outcome))
        out['gf'] = res
        if miss:
            out['gf_cc'] = res_cc

    def aiptw():
        dfc = df.copy()
        ai = AIPTW(dfc, 'A', 'Y', weights=wcol)
        ec.scramble(dfc)
        ai.exposure_model(satL, print_results=False)
        if dist:
            ai.outcome_model(satAL, continuous_distribution=dist, print_results=False)
        else:
            ai.outcome_model(satAL, print_results=False)
        if pk:
            ec.poke(ai)
        ai.fit()
        if pk:
            ec.poke(ai)
        out['aipw_g'] = np.asarray(ai.df['_g1_'], dtype=float)
        out['aipw_q1'] = np.asarray(ai.df['_pY1_'], dtype=float)
        out['aipw_q0'] = np.asarray(ai.df['_pY0_'], dtype=float)
        if otype == 'binary':
            out['aipw'] = {'rd': float(ai.risk_difference), 'rr': float(ai.risk_ratio)}
        else:
            out['aipw'] = {'rd': float(ai.average_treatment_effect)}

    def tmle():
        if otype == 'poisson':
            return
        # continuous_bound (default 0.0005) deliberately moves the extreme outcomes inwards; the identity is
        # about the estimator without that documented truncation, so it is set to a value nothing reaches
        dfc = df.copy()
        # ... alternately a tiny bound and exactly 0.0 ("no truncation"; valid unless a whole stratum-by-arm cell sits on the
        # minimum or maximum, where the unit-scale prediction would be 0 or 1)
        cb = 1e-10
        if otype != 'binary' and meta['n'] % 2 == 0:
            cm = df.dropna(subset=['Y']).groupby(['S', 'A'])['Y'].mean()
            if float(cm.min()) > float(df['Y'].min()) and float(cm.max()) < float(df['Y'].max()):
                cb = 0.0
        out['tmle_cb'] = cb
        tm = TMLE(dfc, 'A', 'Y', continuous_bound=cb) if otype != 'binary' else TMLE(dfc, 'A', 'Y')
        ec.scramble(dfc)
        tm.exposure_model(satL, print_results=False)
        if miss:
            tm.missing_model(satAL, print_results=False)
        tm.outcome_model(satAL, print_results=False)
        if pk:
            ec.poke(tm)
        tm.fit()
        if pk:
            ec.poke(tm)
        pr = tm._verif_probe_
        if otype == 'binary':
            out['tmle'] = {'rd': float(tm.risk_difference), 'rr': float(tm.risk_ratio), 'or': float(tm.odds_ratio)}
            out['tmle_q1'], out['tmle_q0'] = pr['Qstar1'], pr['Qstar0']
        else:
            out['tmle'] = {'rd': float(tm.average_treatment_effect)}
            lo, hi = float(tm._continuous_min), float(tm._continuous_max)
            out['tmle_q1'], out['tmle_q0'] = pr['Qstar1'] * (hi - lo) + lo, pr['Qstar0'] * (hi - lo) + lo
        out['tmle_g'] = np.asarray(tm.g1W, dtype=float)
        out['tmle_eps'] = [float(x) for x in pr['epsilon']]

    guard('IPTW', iptw)
    guard('TimeFixedGFormula', gform)
    if not miss:
        guard('AIPTW', aiptw)
    if not wcol:
        guard('TMLE', tmle)          # TMLE takes no weights column
    return out


def build_expr(out, meta):
    n = len(out['S'])
    yden = 1 if meta['outcome'] != 'normal' else 100
    Y = [ec.frac_y(y, 2) for y in out['Y']]
    S, A = out['S'], out['A']
    snaps_ok = True
    parts = []
    # specification from the raw rows only
    W = out.get('W')
    if W:
        n = int(sum(W))       # fitted cell proportions / means have the weighted cell sizes as denominators
    raw = ec.coq_rows(S, A, Y, W=W)
    parts.append('let l := %s in Qflat [std TAll true l; std TAll false l; std TExposed true l; std TExposed false l; '
                 'std TUnexposed true l; std TUnexposed false l]' % raw)
    # IPTW model fed the implementation's own fitted propensities
    if 'iptw_g' in out:
        g, ok = ec.snap_vec(out['iptw_g'], n)
        snaps_ok &= ok
        nn = ec.snap(out.get('iptw_n', 0.5), n)[0]
        lst = []
        for stab in ('false', 'true'):
            for _, t in TARGETS:
                for a in ('true', 'false'):
                    lst.append('iptw_mu %s %s %s 1 1 %s l' % (stab, t, qlit(nn), a))
        mm = None
        if 'iptw_m' in out:
            mm, okm = ec.snap_vec(out['iptw_m'], n)
            snaps_ok &= okm
        parts.append('let l := %s in Qflat [%s]' % (ec.coq_rows(S, A, Y, W=W, g1=g, m1=mm, m0=mm), '; '.join(lst)))
    else:
        parts.append('(@nil (list Z))')
    if 'gf_q1' in out and 'gf_q0' in out:
        q1, ok1 = ec.snap_vec(out['gf_q1'], n, yden)
        q0, ok0 = ec.snap_vec(out['gf_q0'], n, yden)
        snaps_ok &= ok1 and ok0
        lst = ['gf_marginal %s %s l' % (t, a) for _, t in TARGETS for a in ('true', 'false')]
        parts.append('let l := %s in Qflat [%s]' % (ec.coq_rows(S, A, Y, W=W, q1=q1, q0=q0), '; '.join(lst)))
    else:
        parts.append('(@nil (list Z))')
    if 'aipw_g' in out:
        g, ok = ec.snap_vec(out['aipw_g'], n)
        q1, ok1 = ec.snap_vec(out['aipw_q1'], n, yden)
        q0, ok0 = ec.snap_vec(out['aipw_q0'], n, yden)
        snaps_ok &= ok and ok1 and ok0
        parts.append('let l := %s in Qflat [aipw_mean aipw_y1 l; aipw_mean aipw_y0 l]' % ec.coq_rows(S, A, Y, W=W, g1=g, q1=q1, q0=q0))
    else:
        parts.append('(@nil (list Z))')
    if 'tmle_q1' in out:
        g, ok = ec.snap_vec(out['tmle_g'], n)
        q1, _ = ec.snap_vec(out['tmle_q1'], n, yden)
        q0, _ = ec.snap_vec(out['tmle_q0'], n, yden)
        parts.append('let l := %s in Qflat [tmle_mean true l; tmle_mean false l; tmle_score1 l; tmle_score0 l]'
                     % ec.coq_rows(S, A, Y, g1=g, q1=q1, q0=q0))
    else:
        parts.append('(@nil (list Z))')
    parts.append('let l := filter obs (%s) in Qflat [std TAll true l; std TAll false l; std TExposed true l; std TExposed false l; '
                 'std TUnexposed true l; std TUnexposed false l]' % raw if 'gf_cc' in out else '(@nil (list Z))')
    return '(' + ', '.join(parts) + ')', snaps_ok


def odds(p):
    return p / (1 - p)


def check(ctx, fails, df, meta, out, r, snaps_ok):
    payload = {'data': df.to_dict('list'), 'meta': meta, 'index': [i if isinstance(i, str) else int(i) for i in df.index]}
    n = len(df)
    otype = meta['outcome']
    for name, err in out['errors'].items():
        fails.append((n, '%s.saturated.raises' % name, '%s raised %s on a saturated categorical design (%s outcome)' % (name, err, otype), payload))
    if r is None:
        return
    spec = [frac(x) for x in r[0]]
    sp = {('population', True): spec[0], ('population', False): spec[1], ('exposed', True): spec[2],
          ('exposed', False): spec[3], ('unexposed', True): spec[4], ('unexposed', False): spec[5]}
    if not snaps_ok:
        ctx.broken_ties.append('oracle: a saturated fit did not return cell proportions/means (snap error > 1e-7) on a %s frame' % otype)
    ctx.oracle_checks += 1

    def cmp(key, what, x, q, tol=TOL_FIT):
        ctx.disagreements_checked += 1
        if not close(x, q, tol):
            fails.append((n, key, '%s: implementation %r, closed-form standardisation %s (%.10g)' % (what, x, q, float(q)), payload))
    # --- IPTW
    if 'iptw' in out:
        mod = [frac(x) for x in r[1]] if r[1] else None
        k = 0
        for stab in (False, True):
            for std, _ in TARGETS:
                est = out['iptw'][(stab, std)]
                m1, m0 = sp[(std, True)], sp[(std, False)]
                tag = 'IPTW.%s.%s' % ('stabilized' if stab else 'unstabilized', std)
                cmp(tag + '.mu1', tag + ' risk/mean under treatment', est['mu1'], m1)
                cmp(tag + '.mu0', tag + ' risk/mean under no treatment', est['mu0'], m0)
                if 'rd' in est:
                    cmp(tag + '.rd', tag + ' RD/ATE', est['rd'], m1 - m0)
                if 'rr' in est:
                    cmp(tag + '.rr', tag + ' RR', est['rr'], m1 / m0)
                    cmp(tag + '.or', tag + ' OR', est['or'], odds(m1) / odds(m0))
                if mod:
                    if not close(est['mu1'], mod[k], TOL_FIT) or not close(est['mu0'], mod[k + 1], TOL_FIT):
                        ctx.broken_ties.append('correspondence: IPTW model arm means %s/%s vs implementation %r/%r (%s)'
                                               % (mod[k], mod[k + 1], est['mu1'], est['mu0'], tag))
                k += 2
    # --- g-formula
    if 'gf' in out:
        mod = [frac(x) for x in r[2]] if r[2] else None
        for i, (std, _) in enumerate(TARGETS):
            r1, r0 = out['gf'][std]
            cmp('TimeFixedGFormula.%s.all' % std, 'g-formula treat-all, standardize=%s' % std, r1, sp[(std, True)])
            cmp('TimeFixedGFormula.%s.none' % std, 'g-formula treat-none, standardize=%s' % std, r0, sp[(std, False)])
            if mod and (not close(r1, mod[2 * i], TOL_FIT) or not close(r0, mod[2 * i + 1], TOL_FIT)):
                ctx.broken_ties.append('correspondence: g-formula model %s/%s vs implementation %r/%r' % (mod[2 * i], mod[2 * i + 1], r1, r0))
    if 'gf_cc' in out and len(r) > 5 and r[5]:
        cc = [frac(x) for x in r[5]]
        for i, (std, _) in enumerate(TARGETS):
            c1, c0 = out['gf_cc'][std]
            cmp('TimeFixedGFormula.%s.all.predict_missing=False' % std, 'g-formula treat-all over the rows with an observed outcome, standardize=%s' % std, c1, cc[2 * i])
            cmp('TimeFixedGFormula.%s.none.predict_missing=False' % std, 'g-formula treat-none over the rows with an observed outcome, standardize=%s' % std, c0, cc[2 * i + 1])
    # --- AIPTW
    if 'aipw' in out:
        m1, m0 = sp[('population', True)], sp[('population', False)]
        cmp('AIPTW.rd', 'AIPTW RD/ATE', out['aipw']['rd'], m1 - m0)
        if 'rr' in out['aipw']:
            cmp('AIPTW.rr', 'AIPTW RR', out['aipw']['rr'], m1 / m0)
        if r[3]:
            a1, a0 = frac(r[3][0]), frac(r[3][1])
            if not close(out['aipw']['rd'], a1 - a0, TOL_FIT):
                ctx.broken_ties.append('correspondence: AIPTW model %s vs implementation %r' % (a1 - a0, out['aipw']['rd']))
    # --- TMLE
    if 'tmle' in out:
        m1, m0 = sp[('population', True)], sp[('population', False)]
        cmp('TMLE.rd', 'TMLE RD/ATE', out['tmle']['rd'], m1 - m0)
        if 'rr' in out['tmle']:
            cmp('TMLE.rr', 'TMLE RR', out['tmle']['rr'], m1 / m0)
            cmp('TMLE.or', 'TMLE OR', out['tmle']['or'], odds(m1) / odds(m0))
        if r[4]:
            t1, t0 = frac(r[4][0]), frac(r[4][1])
            if not close(out['tmle']['rd'], t1 - t0, TOL_FIT):
                ctx.broken_ties.append('correspondence: TMLE plug-in model %s vs implementation %r' % (t1 - t0, out['tmle']['rd']))


def rare_treatment_frame(rng, otype):
    """one stratum in which treatment is very rare (2 treated among ~20000, written as weighted rows): the saturated
    propensity fit has to reach a fitted probability of 1e-4; the other strata are ordinary"""
    rows = []
    def y(v):
        return float(v) if otype == 'binary' else round(10 + 3 * v + rng.gauss(0, 1), 2)
    for s_code in range(3):
        if s_code == 0:
            big = rng.randint(15000, 30000)
            k1 = rng.randint(big // 5, big // 2)
            rows += [[0, 1, y(1), 1, 0], [0, 1, y(0), 1, 0], [0, 0, y(1), k1, 0], [0, 0, y(0), big - k1, 0]]
        else:
            for a in (0, 1):
                for v in (0, 1):
                    for _ in range(rng.randint(1, 3)):
                        rows.append([s_code, a, y(v), rng.randint(1, 3), s_code])
    rng.shuffle(rows)
    df = pd.DataFrame(rows, columns=['L0', 'A', 'Y', 'w', 'S'])
    meta = {'n_cov': 1, 'arities': [3], 'outcome': otype, 'n': len(df), 'n_strata': 3, 'sat_L': 'C(L0)', 'sat_AL': 'A * C(L0)',
            'sub_models': ['1'], 'weighted': True, 'rare_treatment': True}
    return df, meta


def run(ctx):
    fails = []
    n = 18 if ctx.quick else 120
    cases = []
    for i in range(n):
        otype = ['binary', 'normal', 'poisson'][i % 3]
        if i % 6 == 1 and otype != 'poisson':
            df, meta = rare_treatment_frame(ctx.rng, otype)
        elif i % 6 == 4 and otype != 'poisson':
            # missing outcomes with a saturated missing-outcome model: IPTW and TMLE only (the g-formula and AIPTW
            # standardise over the rows with an observed outcome, which is not the `std` of all rows)
            df, meta = datagen.cat_frame(ctx.rng, outcome=otype, cell=(4, 7))
            df = datagen.add_missing(ctx.rng, df, otype == 'binary')
            meta['missing'] = True
            if (i // 6) % 2 == 1:
                # ... written as frequency-weighted rows: total weight = treatment weight x missingness weight x row weight
                df['w'] = [ctx.rng.randint(1, 3) for _ in range(len(df))]
                meta['weighted'] = True
        else:
            df, meta = datagen.cat_frame(ctx.rng, outcome=otype)
        # the caller's row labels are not part of the data: default, permuted, gappy (a subset of a cohort), shifted, strings
        df, kind = datagen.reindex(df, ctx.rng, kind=['range', 'shuffle', 'gappy', 'shift', 'str'][(i // 3) % 5])
        meta['index'] = kind
        cases.append((df, meta))
    run_cases(ctx, fails, cases)
    report(ctx, fails)


def run_cases(ctx, fails, cases):
    outs, exprs, oks = [], [], []
    for df, meta in cases:
        out = run_case(df, meta)
        outs.append(out)
        # the specification is computed from the caller's rows (complete frames: the estimators keep them all, in order)
        out['S'], out['A'], out['Y'] = np.asarray(df['S']), np.asarray(df['A']), np.asarray(df['Y'], dtype=float)
        if meta.get('weighted'):
            out['W'] = [Fraction(int(x)) for x in df['w']]
        if 'S' in out:
            e, ok = build_expr(out, meta)
        else:
            e, ok = '(@nil (list Z), @nil (list Z), @nil (list Z), @nil (list Z), @nil (list Z), @nil (list Z))', True
        exprs.append(e)
        oks.append(ok)
    res, errs = coq_eval(ctx, 'c01', ec.IMPORTS, exprs, shard=1)
    if errs:
        ctx.broken_ties.append('coq evaluation failed: ' + errs[0][1][-300:])
    for (df, meta), out, r, ok in zip(cases, outs, res, oks):
        ctx.evaluations += 1
        ctx.programs += 4 - len(out['errors'])
        ctx.count('outcome:' + meta['outcome'])
        ctx.count('covariates:%d' % meta['n_cov'])
        ctx.count('strata:%d' % meta['n_strata'])
        ctx.count('index:' + meta.get('index', 'range'))
        ctx.count('weighted rows with a rare-treatment stratum: %s' % bool(meta.get('rare_treatment')))
        ctx.count('missing outcomes + saturated missing model: %s%s' % (bool(meta.get('missing')), ' (weighted rows)' if meta.get('missing') and meta.get('weighted') else ''))
        ctx.count('displays/diagnostics/plots called around fit(): %s' % out.get('poked'))
        if meta['outcome'] == 'normal' and 'tmle_cb' in out:
            ctx.count('TMLE continuous_bound=%r' % out['tmle_cb'])
        ctx.nontriv([meta, df['Y'].tolist(), df['A'].tolist()])
        ctx.sample({'n': meta['n'], 'arities': meta['arities'], 'outcome': meta['outcome'],
                    'iptw_population_unstab': out.get('iptw', {}).get((False, 'population')),
                    'spec_std_all': [str(frac(x)) for x in r[0][:2]] if r else None}, cap=3)
        check(ctx, fails, df, meta, out, r, ok)


def report(ctx, fails):
    fails.sort(key=lambda f: f[0])
    seen = set()
    for size, key, what, payload in fails:
        if key in seen:
            continue
        seen.add(key)
        n = sum(1 for f in fails if f[1] == key)
        ctx.violation(key, what + ' [%d failing cases]' % n, payload)


def replay(ctx, payload):
    fails = []
    df = pd.DataFrame(payload['data'])
    if payload.get('index'):
        df.index = payload['index']
    run_cases(ctx, fails, [(df, payload['meta'])])
    report(ctx, fails)
