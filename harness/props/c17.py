"""C17 -- probability truncation clips exactly and is applied wherever requested."""
import copy
from fractions import Fraction

import numpy as np
import pandas as pd

from common import coq_eval, frac, close, qlit, qlist, TOL_ARITH
import datagen

PROP_FILE = 'theories/Properties/C17.v'
MODEL_FILES = ['theories/Model/Bounds.v']
GEN_GROUPS = ['pbounds', 'gener']
RULE = ('probability_bounds on random vectors (values inside, at and outside the bounds) x container kinds (list, tuple, '
        'ndarray, strided view, read-only ndarray, 2-D C/F arrays, Series with default/shifted index) x bound specs '
        '(float below/at/above 1/2, negative, >1, str, int, ascending/descending/out-of-range/str pairs, 3-element lists); '
        'estimators with `bound`: unclipped probabilities from a bound-free run are clipped in Coq and compared with the '
        'probabilities/weights the bounded run used; non-trivial = distinct (vector, spec, container) / (estimator, data, bound)')
TRUSTED = ['numpy masked assignment semantics (modelled by Model.Bounds.seq_clip, exercised by the run)']

CONTAINERS = ['list', 'tuple', 'ndarray', 'view', 'readonly', '2d', '2dF', 'series', 'series_shift']


def gen_spec(rng):
    k = rng.choice(['f', 'f', 'f', 'f_half', 'f_hi', 'f_neg', 'f_gt1', 'str', 'int', 'pair', 'pair', 'pair_tuple',
                    'pair_desc', 'pair_neg', 'pair_gt1', 'pair_str', 'triple', 'pair_np'])
    r = lambda lo, hi: round(rng.uniform(lo, hi), rng.choice([2, 3, 6]))   # noqa: E731
    if k == 'f':
        b = r(0.001, 0.49)
        return k, b, 'BFloat %s' % qlit(b)
    if k == 'f_half':
        return k, 0.5, 'BFloat %s' % qlit(0.5)
    if k == 'f_hi':
        b = r(0.51, 0.95)
        return k, b, 'BFloat %s' % qlit(b)
    if k == 'f_neg':
        b = -r(0.01, 0.5)
        return k, b, 'BFloat %s' % qlit(b)
    if k == 'f_gt1':
        b = 1 + r(0.01, 0.5)
        return k, b, 'BFloat %s' % qlit(b)
    if k == 'str':
        return k, '0.1', 'BStr'
    if k == 'int':
        z = rng.choice([0, 1, 2])
        return k, z, 'BInt (%d)%%Z' % z
    lo, hi = sorted([r(0.0, 0.6), r(0.4, 1.0)])
    if k == 'pair':
        return k, [lo, hi], 'BPair %s %s' % (qlit(lo), qlit(hi))
    if k == 'pair_tuple':
        return k, (lo, hi), 'BPair %s %s' % (qlit(lo), qlit(hi))
    if k == 'pair_np':
        return k, np.array([lo, hi]), 'BPair %s %s' % (qlit(lo), qlit(hi))
    if k == 'pair_desc':
        if lo == hi:
            hi = lo + 0.1
        return k, [hi, lo], 'BPair %s %s' % (qlit(hi), qlit(lo))
    if k == 'pair_neg':
        return k, [-lo - 0.01, hi], 'BPair %s %s' % (qlit(-lo - 0.01), qlit(hi))
    if k == 'pair_gt1':
        return k, [lo, 1.0 + hi], 'BPair %s %s' % (qlit(lo), qlit(1.0 + hi))
    if k == 'pair_str':
        return k, rng.choice([['0.1', 0.9], [0.1, '0.9']]), 'BPairStr'
    if k == 'triple':
        extra = [rng.choice([0.99, 0.5, r(0.0, 1.0), lo / 2])] + ([r(0.0, 1.0)] if rng.random() < 0.3 else [])
        return k, [lo, hi] + extra, 'BPair %s %s' % (qlit(lo), qlit(hi))      # only the first two entries are used (documented, with a warning)
    raise AssertionError(k)


def gen_vector(rng, spec_py):
    n = rng.randint(1, 12)
    v = [round(rng.random(), rng.choice([1, 2, 4, 8])) for _ in range(n)]
    # plant boundary values
    cands = []
    if isinstance(spec_py, float):
        cands = [spec_py, 1 - spec_py]
    elif isinstance(spec_py, (list, tuple, np.ndarray)) and all(isinstance(x, float) for x in list(spec_py)[:2]):
        cands = [float(x) for x in list(spec_py)[:2]]
    for c in cands:
        if 0 <= c <= 1 and rng.random() < 0.5:
            v[rng.randrange(n)] = c
    if rng.random() < 0.3:
        v[rng.randrange(n)] = rng.choice([0.0, 1.0])
    return v


def make_container(kind, v):
    if kind == 'list':
        return list(v)
    if kind == 'tuple':
        return tuple(v)
    if kind == 'ndarray':
        return np.array(v, dtype=float)
    if kind == 'view':
        base = np.zeros(2 * len(v))
        base[::2] = v
        return base[::2]
    if kind == 'readonly':
        a = np.array(v, dtype=float)
        a.setflags(write=False)
        return a
    if kind == '2d':
        return np.array([v, v[::-1]], dtype=float)
    if kind == '2dF':
        return np.asfortranarray(np.array([v, v[::-1]], dtype=float))
    if kind == 'series':
        return pd.Series(v, dtype=float)
    if kind == 'series_shift':
        return pd.Series(v, dtype=float, index=range(10, 10 + len(v)))
    raise AssertionError(kind)


def flat(x):
    return [float(t) for t in np.asarray(x, dtype=float).ravel()]


def container_part(ctx, fails):
    from zepid.calc import probability_bounds
    n = 150 if ctx.quick else 2500
    cases, exprs = [], []
    for i in range(n):
        kind, spec_py, spec_coq = gen_spec(ctx.rng)
        v = gen_vector(ctx.rng, spec_py)
        cont = CONTAINERS[i % len(CONTAINERS)]
        arg = make_container(cont, v)
        snap = copy.deepcopy(arg)
        barg = copy.deepcopy(spec_py)
        try:
            out = probability_bounds(arg, spec_py)
            res = {'ok': True, 'vals': flat(out), 'same_obj': out is arg,
                   'shares': bool(isinstance(arg, (np.ndarray, pd.Series)) and np.shares_memory(np.asarray(out), np.asarray(arg)))}
        except ValueError as e:
            res = {'ok': False, 'err': 'ValueError', 'msg': str(e)[:80]}
        except Exception as e:   # noqa
            res = {'ok': False, 'err': type(e).__name__, 'msg': str(e)[:80]}
        res['arg_changed'] = flat(arg) != flat(snap) or (isinstance(arg, pd.Series) and not arg.index.equals(snap.index))
        cases.append((kind, spec_py, cont, v, res))
        full = flat(snap)
        exprs.append('match bounded (%s) %s with Some r => (true, Qflat r) | None => (false, []) end' % (spec_coq, qlist(full)))
    res_coq, errs = coq_eval(ctx, 'c17a', ['Zepid.Base.QUtil', 'Zepid.Model.Bounds'], exprs, shard=300)
    if errs:
        ctx.broken_ties.append('coq evaluation failed: ' + errs[0][1][-300:])
    for (kind, spec_py, cont, v, res), rc in zip(cases, res_coq):
        ctx.evaluations += 1
        if rc is None:
            continue
        ctx.count('spec:' + kind)
        ctx.count('container:' + cont)
        ctx.nontriv([kind, repr(spec_py), cont, v])
        ctx.programs += 1
        ctx.sample({'vector': v, 'bounds': repr(spec_py), 'container': cont, 'impl': res.get('vals', res.get('err'))}, cap=3)
        payload = {'part': 'container', 'vector': v, 'bounds': repr(spec_py), 'spec_kind': kind, 'container': cont, 'impl': res}
        accepted, vals = rc[0], [frac(x) for x in rc[1]]
        size = len(v)
        if accepted and not res['ok']:
            what = 'probability_bounds(%s of %r, %r) raised %s (%s); the valid bound must clip' % (cont, v, spec_py, res['err'], res.get('msg'))
            fails.append((size, 'probability_bounds.raises.%s' % ('readonly' if cont in ('readonly', 'series', 'series_shift') else cont), what, payload))
            continue
        if not accepted:
            if res['ok']:
                fails.append((size, 'probability_bounds.accepts-invalid.' + kind,
                              'probability_bounds accepted the invalid bound %r' % (spec_py,), payload))
            elif res['err'] not in ('ValueError', 'TypeError'):
                fails.append((size, 'probability_bounds.wrong-exception.' + kind,
                              'invalid bound %r raised %s instead of ValueError' % (spec_py, res['err']), payload))
            continue
        if len(vals) != len(res['vals']) or any(not close(x, q, 1e-12) for x, q in zip(res['vals'], vals)):
            fails.append((size, 'probability_bounds.values', 'probability_bounds(%r, %r) = %r, clip gives %s'
                          % (v, spec_py, res['vals'], [str(q) for q in vals]), payload))
        elif res['arg_changed']:
            fails.append((size, 'probability_bounds.mutates-input', 'probability_bounds modified its %s argument in place (%r, bounds %r)'
                          % (cont, v, spec_py), payload))
        elif res['same_obj'] or res['shares']:
            fails.append((size, 'probability_bounds.aliases-input', 'probability_bounds returned (a view of) its %s argument, not a new vector' % cont, payload))


# ------------------------------------------------------------------------------------------------ estimators
def est_cases(ctx):
    n = 6 if ctx.quick else 40
    out = []
    for i in range(n):
        df, meta = datagen.mixed_frame(ctx.rng, outcome=ctx.rng.choice(['binary', 'binary', 'normal']),
                                       missing=ctx.rng.choice([None, 'mar']))
        df, dr = datagen.dress(df, ctx.rng, i)
        meta['dress'] = dr
        b = ['numer', 'sym', 'pair', 'unreached'][i % 4]
        if b == 'numer':
            # a lower bound ABOVE the marginal treatment prevalence: the stabilising numerator itself must be clipped
            prev = float(df['A'].mean())
            lo, hi = round(min(prev + 0.04, 0.6), 3), round(max(prev + 0.25, 0.8), 3)
            bound, lohi = [lo, hi], (lo, hi)
        elif b == 'sym':
            bound = round(ctx.rng.uniform(0.2, 0.45), 3)
            lohi = (bound, 1 - bound)
        elif b == 'pair':
            lo, hi = round(ctx.rng.uniform(0.2, 0.45), 3), round(ctx.rng.uniform(0.55, 0.8), 3)
            bound, lohi = [lo, hi], (lo, hi)
        else:
            bound, lohi = 1e-9, (1e-9, 1 - 1e-9)
        out.append((df, meta, b, bound, lohi))
    return out


def run_estimators(df, meta, bound):
    """returns {site: (unclipped vector, used vector)}, results dict per estimator with/without bound"""
    from zepid.causal.ipw import IPTW
    from zepid.causal.doublyrobust import AIPTW, TMLE
    rhs = meta['rhs']
    sites, results, errors = {}, {}, {}
    miss = meta['missing'] is not None

    def guard(name, fn):
        try:
            fn()
        except Exception as e:   # noqa
            errors[name] = '%s: %s' % (type(e).__name__, str(e)[:100])

    def iptw():
        vals = {}
        for bd in (False, bound):
            ip = IPTW(df, 'A', 'Y')
            ip.treatment_model(rhs, stabilized=False, bound=bd, print_results=False)
            if miss:
                ip.missing_model('A + ' + rhs, stabilized=False, bound=bd, print_results=False)
            ip.marginal_structural_model('A')
            ip.fit()
            vals[bool(bd)] = (np.asarray(ip.df['__denom__'], dtype=float), np.asarray(ip.iptw, dtype=float),
                              None if not miss else np.asarray(ip.ipmw, dtype=float),
                              np.asarray(ip.df['A']), ip)
        sites['IPTW.treatment_model'] = (vals[False][0], vals[True][0])
        a = vals[True][3]
        used_from_w = np.where(a == 1, 1 / vals[True][1], 1 - 1 / vals[True][1])
        sites['IPTW.weights'] = (vals[False][0], used_from_w)
        if miss:
            obs = ~np.isnan(vals[False][2])
            sites['IPTW.missing_model'] = (1 / vals[False][2][obs], 1 / vals[True][2][obs])
        t = 'average_treatment_effect' if meta['outcome'] != 'binary' else 'risk_difference'
        results['IPTW'] = (np.asarray(getattr(vals[False][4], t)).ravel()[:2].tolist(), np.asarray(getattr(vals[True][4], t)).ravel()[:2].tolist())

    def learner():
        from sklearn.linear_model import LogisticRegression
        return LogisticRegression(penalty=None, solver='lbfgs', max_iter=2000)

    def aiptw(custom=False):
        vals = {}
        tag = 'AIPTW' + ('(custom_model)' if custom else '')
        for bd in (False, bound):
            ai = AIPTW(df, 'A', 'Y')
            kw = {'custom_model': learner()} if custom else {}
            ai.exposure_model(rhs, bound=bd, print_results=False, **kw)
            if miss:
                kw = {'custom_model': learner()} if custom else {}
                ai.missing_model('A + ' + rhs, bound=bd, print_results=False, **kw)
            ai.outcome_model('A + ' + rhs, print_results=False)
            ai.fit()
            vals[bool(bd)] = ai
        sites[tag + '.exposure_model.g1'] = (np.asarray(vals[False].df['_g1_']), np.asarray(vals[True].df['_g1_']))
        sites[tag + '.exposure_model.g0'] = (np.asarray(vals[False].df['_g0_']), np.asarray(vals[True].df['_g0_']))
        if miss:
            o = ~np.isnan(np.asarray(vals[False].df['_ipmw_a1_'], dtype=float))
            sites[tag + '.missing_model'] = (np.asarray(vals[False].df['_ipmw_a1_'], dtype=float)[o], np.asarray(vals[True].df['_ipmw_a1_'], dtype=float)[o])
            sites[tag + '.missing_model.a0'] = (np.asarray(vals[False].df['_ipmw_a0_'], dtype=float)[o], np.asarray(vals[True].df['_ipmw_a0_'], dtype=float)[o])
        t = 'average_treatment_effect' if meta['outcome'] != 'binary' else 'risk_difference'
        results[tag] = ([float(getattr(vals[False], t))], [float(getattr(vals[True], t))])

    def tmle(custom=False):
        vals = {}
        tag = 'TMLE' + ('(custom_model)' if custom else '')
        for bd in (False, bound):
            tm = TMLE(df, 'A', 'Y')
            kw = {'custom_model': learner()} if custom else {}
            tm.exposure_model(rhs, bound=bd, print_results=False, **kw)
            if miss:
                kw = {'custom_model': learner()} if custom else {}
                tm.missing_model('A + ' + rhs, bound=bd, print_results=False, **kw)
            tm.outcome_model('A + ' + rhs, print_results=False)
            tm.fit()
            vals[bool(bd)] = tm
        sites[tag + '.exposure_model.g1'] = (np.asarray(vals[False].g1W), np.asarray(vals[True].g1W))
        sites[tag + '.exposure_model.g0'] = (np.asarray(vals[False].g0W), np.asarray(vals[True].g0W))
        if miss:
            sites[tag + '.missing_model.m1'] = (np.asarray(vals[False].m1W), np.asarray(vals[True].m1W))
            sites[tag + '.missing_model.m0'] = (np.asarray(vals[False].m0W), np.asarray(vals[True].m0W))
        t = 'average_treatment_effect' if meta['outcome'] != 'binary' else 'risk_difference'
        results[tag] = ([float(getattr(vals[False], t))], [float(getattr(vals[True], t))])
        if not custom:
            # outcome_model(bound=...): the predictions under A=1, under A=0 AND at the observed exposure (the offset of the
            # targeting step) are the truncated ones
            qv = {}
            for bd in (False, bound):
                tq = TMLE(df, 'A', 'Y')
                tq.exposure_model(rhs, print_results=False)
                if miss:
                    tq.missing_model('A + ' + rhs, print_results=False)
                tq.outcome_model('A + ' + rhs, bound=bd, print_results=False)
                qv[bool(bd)] = tq
            for nm, attr in (('q1', 'QA1W'), ('q0', 'QA0W'), ('qa', 'QAW')):
                sites['TMLE.outcome_model.' + nm] = (np.asarray(getattr(qv[False], attr), dtype=float), np.asarray(getattr(qv[True], attr), dtype=float))

    def iptw_schemes():
        # every weighting scheme must be built from the TRUNCATED probabilities (also the odds-type SMR weights)
        out = []
        for stab in (False, True):
            for std in ('population', 'exposed', 'unexposed'):
                raw = IPTW(df, 'A', 'Y', standardize=std)
                raw.treatment_model(rhs, stabilized=stab, bound=False, print_results=False)
                bd = IPTW(df, 'A', 'Y', standardize=std)
                bd.treatment_model(rhs, stabilized=stab, bound=bound, print_results=False)
                out.append((stab, std, np.asarray(raw.df['__denom__'], dtype=float), np.asarray(raw.df['__numer__'], dtype=float),
                            np.asarray(bd.iptw, dtype=float), np.asarray(bd.df['A']).astype(int)))
        sites['__schemes__'] = out

    guard('IPTW', iptw)
    guard('IPTW.schemes', iptw_schemes)
    guard('AIPTW', aiptw)
    guard('TMLE', tmle)
    guard('AIPTW(custom_model)', lambda: aiptw(True))     # the user-supplied-learner branches of the same functions
    guard('TMLE(custom_model)', lambda: tmle(True))
    return sites, results, errors


def more_sites(df, meta, bound, rng):
    """the other public entry points that take `bound`: StochasticTMLE.exposure_model, GEstimationSNM.missing_model,
    IPSW.sampling_model / IPSW.treatment_model / AIPSW.treatment_model (bound passed by keyword AND in its documented
    positional slot), and the exposure models of the cross-fit estimators.  -> (sites, errors)"""
    from zepid.causal.doublyrobust import StochasticTMLE, SingleCrossfitAIPTW, SingleCrossfitTMLE
    from zepid.causal.snm import GEstimationSNM
    from zepid.causal.generalize import IPSW, AIPSW
    import zepid.causal.doublyrobust.crossfit as CF
    from sklearn.linear_model import LogisticRegression, LinearRegression
    rhs = meta['rhs']
    binary = meta['outcome'] == 'binary'
    miss = meta['missing'] is not None
    sites, errors = {}, {}

    def guard(name, fn):
        try:
            fn()
        except Exception as e:   # noqa
            errors[name] = '%s: %s' % (type(e).__name__, str(e)[:100])

    def stmle():
        d = df.dropna()
        vals = {}
        for bd in (False, bound):
            st = StochasticTMLE(d, 'A', 'Y')
            st.exposure_model(rhs, bound=bd)
            den = np.asarray(st._denominator_, dtype=float)
            a = np.asarray(st.df['A']).astype(int)
            vals[bool(bd)] = np.where(a == 1, den, 1 - den)
        sites['StochasticTMLE.exposure_model'] = (vals[False], vals[True])

    def snm():
        vals = {}
        for bd in (False, bound):
            g = GEstimationSNM(df, exposure='A', outcome='Y')
            g.exposure_model(rhs, print_results=False)
            g.structural_nested_model('A')
            g.missing_model('A + ' + rhs, stabilized=False, bound=bd, print_results=False)
            w = np.asarray(g.ipmw, dtype=float)
            vals[bool(bd)] = 1 / w[~np.isnan(w)]
        sites['GEstimationSNM.missing_model'] = (vals[False], vals[True])

    def generalize():
        import sys
        sys.path.insert(0, __file__.rsplit('/', 1)[0])
        from props import c16
        d = df.dropna().reset_index(drop=True)
        rs = np.random.RandomState(len(d))
        d['S'] = rs.binomial(1, 1 / (1 + np.exp(-(0.4 + 0.9 * np.asarray(d[meta['covs'][0]], dtype=float)))))
        d.loc[d['S'] == 0, ['A', 'Y']] = np.nan
        for how in ('keyword', 'positional'):
            for stab in (True, False):
                tag = '(%s bound, stabilized=%s)' % (how, stab)
                vals = {}
                for bd in (None, bound):
                    e = IPSW(d, exposure='A', outcome='Y', selection='S', generalize=True)
                    if how == 'keyword':
                        e.sampling_model(rhs, bound=bd, stabilized=stab, print_results=False)
                    else:       # documented order: model_denominator, model_numerator, bound, stabilized, print_results
                        e.sampling_model(rhs, '1', bd, stab, False)
                    with c16.IptwSpy() as spy:
                        if how == 'keyword':
                            e.treatment_model(rhs, bound=bd, stabilized=stab, print_results=False)
                        else:
                            e.treatment_model(rhs, '1', bd, stab, False)
                    vals[bd is not None] = (np.asarray(e.sample['__denom__'], dtype=float), spy.calls[-1][0], np.asarray(e.ipsw, dtype=float))
                sites['IPSW.sampling_model' + tag] = (vals[False][0], vals[True][0])
                sites['IPSW.treatment_model' + tag] = (vals[False][1], vals[True][1])
                if not stab:        # unstabilised generalisation weight is exactly 1 / Pr(S=1 | W) at the clipped probability
                    sites['IPSW.ipsw' + tag] = (vals[False][0], 1 / vals[True][2])
                    # transport (generalize=False): the unstabilised weight is the inverse odds (1-p)/p at the clipped probability
                    tv = {}
                    for bd in (None, bound):
                        e = IPSW(d, exposure='A', outcome='Y', selection='S', generalize=False)
                        if how == 'keyword':
                            e.sampling_model(rhs, bound=bd, stabilized=stab, print_results=False)
                        else:
                            e.sampling_model(rhs, '1', bd, stab, False)
                        tv[bd is not None] = (np.asarray(e.sample['__denom__'], dtype=float), np.asarray(e.ipsw, dtype=float))
                    sites['IPSW.iosw' + tag] = (tv[False][0], 1 / (1 + tv[True][1]))
                vals = {}
                for bd in (None, bound):
                    e = AIPSW(d, exposure='A', outcome='Y', selection='S', generalize=True)
                    e.sampling_model(rhs, stabilized=stab, print_results=False)
                    with c16.IptwSpy() as spy:
                        if how == 'keyword':
                            e.treatment_model(rhs, bound=bd, stabilized=stab, print_results=False)
                        else:
                            e.treatment_model(rhs, '1', bd, stab, False)
                    vals[bd is not None] = spy.calls[-1][0]
                sites['AIPSW.treatment_model' + tag] = (vals[False], vals[True])

    def crossfit():
        d = df.dropna().reset_index(drop=True)
        covs = rhs
        for cls, fname, idx in ((SingleCrossfitAIPTW, 'aipw_calculator', 4), (SingleCrossfitTMLE, 'targeting_step', 4)):
            vals = {}
            for bd in (False, bound):
                got = []
                orig = getattr(CF, fname)

                def spy(*a, **k):
                    got.append(np.asarray(k.get('pa1', a[idx] if len(a) > idx else None), dtype=float))
                    return orig(*a, **k)
                setattr(CF, fname, spy)
                try:
                    e = cls(d, 'A', 'Y')
                    e.exposure_model(covs, LogisticRegression(penalty=None, solver='lbfgs', max_iter=2000), bound=bd)
                    e.outcome_model('A + ' + covs, LogisticRegression(penalty=None, solver='lbfgs', max_iter=2000) if binary else LinearRegression())
                    e.fit(n_splits=2, n_partitions=1, random_state=777)
                finally:
                    setattr(CF, fname, orig)
                vals[bool(bd)] = got[0]
            sites[cls.__name__ + '.exposure_model'] = (vals[False], vals[True])

    guard('StochasticTMLE', stmle)
    if miss:
        guard('GEstimationSNM', snm)
    guard('IPSW/AIPSW', generalize)
    if binary or True:
        guard('crossfit', crossfit)
    return sites, errors


def estimator_part(ctx, fails):
    cases = est_cases(ctx)
    work, exprs = [], []
    for df, meta, bkind, bound, lohi in cases:
        sites, results, errors = run_estimators(df, meta, bound)
        s2, e2 = more_sites(df, meta, bound, ctx.rng)
        sites.update(s2)
        errors.update(e2)
        ctx.evaluations += 1
        ctx.count('est-bound:' + bkind)
        payload = {'part': 'estimator', 'frame': datagen.pack_frame(df), 'meta': meta, 'bound': bound}
        ctx.count('row labels:' + meta.get('dress', {}).get('index', 'range'))
        ctx.count('exposure dtype:' + meta.get('dress', {}).get('adtype', 'int64'))
        for name, err in errors.items():
            fails.append((len(df), '%s.bound.raises' % name, '%s with bound=%r raised %s' % (name, bound, err), payload))
        schemes = sites.pop('__schemes__', [])
        for stab, std, d, nn, w, a in schemes:
            k = min(len(d), 20)
            tcoq = {'population': 'TAll', 'exposed': 'TExposed', 'unexposed': 'TUnexposed'}[std]
            nclip = 'clip1 %s %s %s' % (qlit(lohi[0]), qlit(lohi[1]), qlit(float(nn[0]))) if stab else '1'
            items = '; '.join('ipw_formula %s %s (%s) %s (clip1 %s %s %s)' % ('true' if stab else 'false', tcoq, nclip,
                                                                            'true' if a[i] else 'false', qlit(lohi[0]), qlit(lohi[1]), qlit(float(d[i])))
                              for i in range(k))
            work.append(('IPTW.weights.%s.%s' % ('stabilized' if stab else 'unstabilized', std), d[:k], w[:k], bkind, bound, lohi, payload, len(df)))
            exprs.append('Qflat [%s]' % items)
        for site, (raw, used) in sites.items():
            k = min(len(raw), 25)      # exact Q evaluation of a prefix of the rows is enough per site
            work.append((site, raw[:k], used[:k], bkind, bound, lohi, payload, len(df)))
            exprs.append('Qflat (clip %s %s %s)' % (qlit(lohi[0]), qlit(lohi[1]), qlist([float(x) for x in raw[:k]])))
        if bkind == 'unreached':
            for est, (r0, r1) in results.items():
                if any(abs(x - y) > 1e-9 * max(1, abs(x)) for x, y in zip(r0, r1)):
                    fails.append((len(df), '%s.bound.unreached-changes' % est,
                                  '%s: a bound no fitted probability reaches changed the result %r -> %r' % (est, r0, r1), payload))
    res, errs = coq_eval(ctx, 'c17b', ['Zepid.Base.QUtil', 'Zepid.Base.Rows', 'Zepid.Model.Estimators', 'Zepid.Model.Bounds'], exprs, shard=40)
    if errs:
        ctx.broken_ties.append('coq evaluation failed: ' + errs[0][1][-300:])
    for (site, raw, used, bkind, bound, lohi, payload, n), r in zip(work, res):
        if r is None:
            continue
        ctx.programs += 1
        ctx.nontriv([site, [float(x) for x in raw[:5]], repr(bound)])
        ctx.count('site:' + site)
        exp = [frac(x) for x in r]
        bad = [i for i, (u, q) in enumerate(zip(used, exp)) if not close(float(u), q, 1e-9)]
        if bad:
            i = bad[0]
            fails.append((n, site + '.not-clipped', '%s with bound=%r used probability/weight %r where the value built from the clip of the fitted %r is %s'
                          % (site, bound, float(used[i]), float(raw[i]), exp[i]), payload))
        if not site.startswith('IPTW.weights.') and any(float(u) < lohi[0] - 1e-12 or float(u) > lohi[1] + 1e-12 for u in used):
            fails.append((n, site + '.out-of-range', '%s used a probability outside [%r, %r]' % (site, lohi[0], lohi[1]), payload))


def run(ctx):
    fails = []
    container_part(ctx, fails)
    estimator_part(ctx, fails)
    report(ctx, fails)


def report(ctx, fails):
    fails.sort(key=lambda f: f[0])
    seen = set()
    for size, key, what, payload in fails:
        if key in seen:
            continue
        seen.add(key)
        n = sum(1 for f in fails if f[1] == key)
        ctx.violation(key, what + ' [%d failing cases]' % n, payload)


def replay(ctx, payload):
    fails = []
    if payload and payload.get('part') == 'container':
        from zepid.calc import probability_bounds
        v = payload['vector']
        arg = make_container(payload['container'], v)
        snap = copy.deepcopy(arg)
        try:
            out = probability_bounds(arg, eval(payload['bounds'], {'array': np.array}))
            if flat(arg) != flat(snap):
                fails.append((0, 'probability_bounds.mutates-input', 'replay: argument modified', payload))
            if out is arg:
                fails.append((0, 'probability_bounds.aliases-input', 'replay: same object returned', payload))
        except Exception as e:   # noqa
            fails.append((0, 'probability_bounds.raises.replay', 'replay: raised %r' % (e,), payload))
    else:
        container_part(ctx, fails)
        estimator_part(ctx, fails)
    report(ctx, fails)
