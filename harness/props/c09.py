"""C09 -- an integer weights column is equivalent to replicating rows."""
from fractions import Fraction

import numpy as np
import pandas as pd

from common import coq_eval, frac, close, qlit, TOL_FIT
import datagen
import est_common as ec

PROP_FILE = 'theories/Properties/C09.v'
MODEL_FILES = ['theories/Base/Rows.v', 'theories/Model/Estimators.v']
GEN_GROUPS = []
RULE = ('random mixed/categorical frames with an integer weight column (1..5): every listed estimator is run with '
        'weights=<column> and, unweighted, on the frame with each row physically repeated weight times; all '
        'standardize/stabilized options and outcome types; AIPTW also with missing outcomes; on small categorical frames '
        'the Coq models are evaluated on the weighted and on the replicated rows and compared with both runs; '
        'non-trivial = distinct (estimator, options, data)')
TRUSTED = ['statsmodels GLM freq_weights solve the weighted score equations (= score equations of the replicated data, '
           'theorem C09_score_eq_replicate); validated by comparing fitted values of the two runs row by row']

IMPORTS = ec.IMPORTS + ['Zepid.Proofs.EstimatorsProofs', 'Zepid.Proofs.ReplicateProofs']


WL = ['w']      # label of the weights column in the current comparison (a column label need not be a non-empty string)


def replicate(df, wcol=None):
    wcol = WL[0] if wcol is None else wcol
    rep = df.iloc[np.repeat(np.arange(len(df)), df[wcol].astype(int).to_numpy())].drop(columns=[wcol]).reset_index(drop=True)     # by position: labels may repeat or be NaN
    return rep


def same(fails, ctx, key, what, a, b, payload, size, tol=1e-7):
    ctx.disagreements_checked += 1
    a, b = np.asarray(a, dtype=float).ravel(), np.asarray(b, dtype=float).ravel()
    if a.shape != b.shape or np.any(np.isnan(a) != np.isnan(b)) or np.nanmax(np.abs(a - b) / np.maximum(1, np.abs(b)), initial=0) > tol:
        fails.append((size, key, '%s: with weights %r, on the replicated rows %r' % (what, a.tolist()[:4], b.tolist()[:4]), payload))
        return False
    return True


FITS = [0]


def refit(o, *a, **k):
    """fit; every other time fit a second time with the same arguments: the equivalence is a property of the estimator,
    not of its first fit() (weights multiplied into stored state would compound)"""
    if FITS[0] % 3 == 0:
        ec.poke(o)           # displays / diagnostics / plots between specification and fit()
    o.fit(*a, **k)
    if FITS[0] % 2 == 1:      # decided per comparison (see both), the same for the weighted and the replicated run
        o.fit(*a, **k)


def both(fn, df, rep, key, what, fails, ctx, payload, gee_may_fail=False):
    """fn(frame, weights_or_None) -> vector of point estimates.  gee_may_fail: the comparison involves identity- / log-link
    binomial GEE fits with a continuous covariate, which statsmodels may declare infeasible on either frame (mean outside
    (0,1) during IRLS): such a pair is counted, not compared -- the property is about fits that exist"""
    FITS[0] += 1
    if gee_may_fail:
        try:
            w = fn(df, WL[0])
            r = fn(rep, None)
        except ValueError as e:
            if 'estimation infeasible' in str(e) or 'invalid value' in str(e):
                ctx.count('MSM with covariate: GEE infeasible on one of the two frames (not compared)')
                return None
            raise
        ctx.programs += 1
        same(fails, ctx, key, what, w, r, payload, len(df))
        return w, r
    try:
        w = fn(df, WL[0])
    except Exception as e:   # noqa
        fails.append((len(df), key + '.raises', '%s with a weights column raised %s: %s' % (what, type(e).__name__, str(e)[:120]), payload))
        return None
    try:
        r = fn(rep, None)
    except Exception as e:   # noqa
        fails.append((len(df), key + '.replicated-raises', '%s on the replicated frame raised %s: %s' % (what, type(e).__name__, str(e)[:120]), payload))
        return None
    ctx.programs += 1
    same(fails, ctx, key, what, w, r, payload, len(df))
    return w, r


def estimator_part(ctx, fails):
    from zepid.causal.ipw import IPTW, StochasticIPTW
    from zepid.causal.gformula import TimeFixedGFormula
    from zepid.causal.doublyrobust import AIPTW
    from zepid.causal.snm import GEstimationSNM
    n = 6 if ctx.quick else 45
    for i in range(n):
        otype = ['binary', 'normal', 'poisson'][i % 3]
        df, meta = datagen.mixed_frame(ctx.rng, n=ctx.rng.randint(50, 90), outcome=otype)
        rs = np.random.RandomState(ctx.rng.randrange(2 ** 31))
        df['w'] = rs.randint(1, 6, size=len(df))
        # a three-level exposure as two dummy columns, related to the weights (the weighted and unweighted fits then differ)
        lvl = (df['w'].to_numpy() + rs.randint(0, 2, size=len(df)) + df['A'].fillna(0).astype(int).to_numpy()) % 3
        df['E1'], df['E2'] = (lvl == 1).astype(int), (lvl == 2).astype(int)
        WL[0] = ['w', '_w_', 0, ''][i % 4]          # an integer-0 label is what pd.concat([df, pd.Series(w)], axis=1) produces; '_w_' is a label like any other
        if WL[0] != 'w':
            df = df.rename(columns={'w': WL[0]})
        ctx.count('weights column label:%r' % (WL[0],))
        df, dr = datagen.dress(df, ctx.rng, i)       # row labels / exposure storage type of the weighted frame only
        ctx.count('row labels:' + dr['index'])
        ctx.count('exposure dtype:' + dr['adtype'])
        rep = replicate(df)
        rhs = meta['rhs']
        payload = {'part': 'estimators', 'frame': datagen.pack_frame(df), 'meta': meta}
        ctx.evaluations += 1
        ctx.count('outcome:' + otype)
        ctx.nontriv([otype, df['Y'].tolist()[:8], df[WL[0]].tolist()[:8]])
        dist = {'binary': None, 'normal': 'gaussian', 'poisson': 'poisson'}[otype]
        for stab in (True, False):
            for std in ('population', 'exposed', 'unexposed'):
                def f(frame, w, stab=stab, std=std):
                    ip = IPTW(frame, 'A', 'Y', weights=w, standardize=std)
                    ip.treatment_model(rhs, stabilized=stab, print_results=False)
                    ip.marginal_structural_model('A')
                    refit(ip, continuous_distribution=dist) if dist else refit(ip)
                    if otype == 'binary':
                        return [ip.risk_difference['RD'].iloc[1], ip.risk_ratio['RR'].iloc[1], ip.odds_ratio['OR'].iloc[1]]
                    return list(ip.average_treatment_effect['ATE'])
                both(f, df, rep, 'IPTW.%s.%s' % ('stabilized' if stab else 'unstabilized', std),
                     'IPTW(standardize=%s, stabilized=%s)' % (std, stab), fails, ctx, payload)

                def f2(frame, w, stab=stab, std=std):      # a marginal structural model that is NOT saturated in treatment
                    ip = IPTW(frame, 'A', 'Y', weights=w, standardize=std)
                    ip.treatment_model(rhs, stabilized=stab, print_results=False)
                    ip.marginal_structural_model('A + ' + meta['covs'][0])
                    refit(ip, continuous_distribution=dist) if dist else refit(ip)
                    if otype == 'binary':
                        # the logistic MSM only: identity- and log-link binomial fits with a continuous covariate need not
                        # converge, and then there is nothing to compare
                        return list(ip.odds_ratio['OR'])
                    return list(ip.average_treatment_effect['ATE'])
                if std == 'population' or ctx.rng.random() < 0.5:
                    both(f2, df, rep, 'IPTW.msm-with-covariate.%s.%s' % ('stabilized' if stab else 'unstabilized', std),
                         'IPTW(standardize=%s, stabilized=%s) with MSM A + %s' % (std, stab, meta['covs'][0]), fails, ctx, payload,
                         gee_may_fail=(otype == 'binary'))
        if otype != 'poisson':
            for p in (0.3, 1.0):
                def f(frame, w, p=p):
                    sp = StochasticIPTW(frame, 'A', 'Y', weights=w)
                    sp.treatment_model(rhs, print_results=False)
                    refit(sp, p=p)
                    return [sp.marginal_outcome]
                both(f, df, rep, 'StochasticIPTW.p', 'StochasticIPTW(p=%g)' % p, fails, ctx, payload)
        for std in ('population', 'exposed', 'unexposed'):
            for plan in ('all', 'none'):
                def f(frame, w, std=std, plan=plan):
                    g = TimeFixedGFormula(frame, 'A', 'Y', outcome_type=otype, standardize=std, weights=w)
                    g.outcome_model('A + ' + rhs, print_results=False)
                    refit(g, plan)
                    return [g.marginal_outcome]
                both(f, df, rep, 'TimeFixedGFormula.%s' % std, 'TimeFixedGFormula(standardize=%s).fit(%s)' % (std, plan), fails, ctx, payload)

        for std in ('population',):
            for pname, plan in (('level-1', ['True', 'False']), ('level-2', ['False', 'True']), ('level-0', ['False', 'False'])):
                def f(frame, w, std=std, plan=plan):
                    g = TimeFixedGFormula(frame, ['E1', 'E2'], 'Y', exposure_type='categorical', outcome_type=otype, standardize=std, weights=w)
                    g.outcome_model('E1 + E2 + ' + rhs, print_results=False)
                    refit(g, plan)
                    return [g.marginal_outcome]
                both(f, df, rep, 'TimeFixedGFormula.categorical-exposure', 'TimeFixedGFormula(exposure=[E1, E2], exposure_type=categorical).fit(%s)' % pname, fails, ctx, payload)

        def f(frame, w):
            ai = AIPTW(frame, 'A', 'Y', weights=w)
            ai.exposure_model(rhs, print_results=False)
            ai.outcome_model('A + ' + rhs, continuous_distribution=dist, print_results=False) if dist else ai.outcome_model('A + ' + rhs, print_results=False)
            refit(ai)
            return [ai.risk_difference, ai.risk_ratio] if otype == 'binary' else [ai.average_treatment_effect]
        both(f, df, rep, 'AIPTW', 'AIPTW', fails, ctx, payload)
        # AIPTW with missing outcomes
        dfm = df.copy()
        dfm.loc[dfm.index[rs.choice(len(dfm), size=max(2, len(dfm) // 10), replace=False)], 'Y'] = np.nan
        both(f, dfm, replicate(dfm), 'AIPTW.missing-outcome', 'AIPTW with missing outcomes', fails, ctx,
             {'part': 'estimators', 'data': {c: [None if (isinstance(v, float) and v != v) else v for v in dfm[c].tolist()] for c in dfm.columns}, 'meta': meta})
        # outcomes missing with a probability that depends on the treatment AND on the weight, handled by a missing-outcome
        # model: every nuisance model (the missingness model's denominator too) must be a frequency-weighted fit
        if otype != 'poisson':
            dfw = df.copy()
            pmis = 0.08 + 0.2 * (np.asarray(dfw['A'], dtype=float) == 1) + 0.3 * (np.asarray(dfw[WL[0]]) >= 4)
            dfw.loc[dfw.index[rs.uniform(size=len(dfw)) < pmis], 'Y'] = np.nan
            repw = replicate(dfw)
            payw = {'part': 'estimators', 'frame': datagen.pack_frame(dfw), 'meta': meta}
            ctx.count('missingness related to the weights, with missing_model()')
            for stab in (True, False):
                def fm(frame, w, stab=stab):
                    ip = IPTW(frame, 'A', 'Y', weights=w)
                    ip.treatment_model(rhs, stabilized=stab, print_results=False)
                    ip.missing_model('A + ' + rhs, stabilized=stab, print_results=False)
                    ip.marginal_structural_model('A')
                    refit(ip, continuous_distribution=dist) if dist else refit(ip)
                    if otype == 'binary':
                        return [ip.risk_difference['RD'].iloc[1], ip.risk_ratio['RR'].iloc[1]]
                    return list(ip.average_treatment_effect['ATE'])
                both(fm, dfw, repw, 'IPTW.missing_model.%s' % ('stabilized' if stab else 'unstabilized'),
                     'IPTW(stabilized=%s) with missing_model() and missingness related to the weights' % stab, fails, ctx, payw)

                def fm2(frame, w, stab=stab):      # a marginal structural model that is not saturated in treatment: factors of the
                    ip = IPTW(frame, 'A', 'Y', weights=w)          # weights that depend on A alone no longer cancel
                    ip.treatment_model(rhs, stabilized=stab, print_results=False)
                    ip.missing_model('A + ' + rhs, stabilized=stab, print_results=False)
                    ip.marginal_structural_model('A + ' + meta['covs'][0])
                    refit(ip, continuous_distribution=dist) if dist else refit(ip)
                    return list(ip.odds_ratio['OR']) if otype == 'binary' else list(ip.average_treatment_effect['ATE'])
                both(fm2, dfw, repw, 'IPTW.missing_model.msm-with-covariate.%s' % ('stabilized' if stab else 'unstabilized'),
                     'IPTW(stabilized=%s) with missing_model(), MSM A + %s, missingness related to the weights' % (stab, meta['covs'][0]), fails, ctx, payw,
                     gee_may_fail=(otype == 'binary'))

            def fa(frame, w):
                ai = AIPTW(frame, 'A', 'Y', weights=w)
                ai.exposure_model(rhs, print_results=False)
                ai.missing_model('A + ' + rhs, print_results=False)
                ai.outcome_model('A + ' + rhs, continuous_distribution=dist, print_results=False) if dist else ai.outcome_model('A + ' + rhs, print_results=False)
                refit(ai)
                return [ai.risk_difference, ai.risk_ratio] if otype == 'binary' else [ai.average_treatment_effect]
            both(fa, dfw, repw, 'AIPTW.missing_model', 'AIPTW with missing_model() and missingness related to the weights', fails, ctx, payw)

            def fs(frame, w):
                g = GEstimationSNM(frame, exposure='A', outcome='Y', weights=w)
                g.exposure_model(rhs, print_results=False)
                g.missing_model('A + ' + rhs, print_results=False)
                g.structural_nested_model('A')
                refit(g)
                return list(g.psi)
            both(fs, dfw, repw, 'GEstimationSNM.missing_model', 'GEstimationSNM with missing_model() and missingness related to the weights',
                 fails, ctx, payw)
        for std in ('population', 'exposed', 'unexposed'):
            def f(frame, w, std=std):
                g = TimeFixedGFormula(frame, 'A', 'Y', outcome_type=otype, standardize=std, weights=w)
                g.outcome_model('A + ' + rhs, print_results=False)
                vals = []
                for plan in ('all', 'none'):
                    for pm in (True, False):
                        g.fit(plan, predict_missing=pm)
                        vals.append(g.marginal_outcome)
                return vals
            both(f, dfm, replicate(dfm), 'TimeFixedGFormula.missing-outcome.%s' % std,
                 'TimeFixedGFormula(standardize=%s) with missing outcomes, predict_missing True and False' % std, fails, ctx,
                 {'part': 'estimators', 'frame': datagen.pack_frame(dfm), 'meta': meta})
        if otype != 'poisson':
            def f(frame, w):
                g = GEstimationSNM(frame, exposure='A', outcome='Y', weights=w)
                g.exposure_model(rhs, print_results=False)
                g.structural_nested_model('A')
                refit(g)
                return list(g.psi)
            both(f, df, rep, 'GEstimationSNM', 'GEstimationSNM', fails, ctx, payload)


def transport_part(ctx, fails):
    WL[0] = 'w'
    from zepid.causal.generalize import GTransportFormula
    n = 2 if ctx.quick else 20
    for i in range(n):
        df, meta = datagen.mixed_frame(ctx.rng, n=ctx.rng.randint(80, 120), outcome='binary', n_cont=1, n_cat=1)
        rs = np.random.RandomState(ctx.rng.randrange(2 ** 31))
        df['S'] = rs.binomial(1, 0.6, size=len(df))
        df.loc[df['S'] == 0, ['A', 'Y']] = np.nan
        df['w'] = rs.randint(1, 5, size=len(df))
        rep = replicate(df)
        payload = {'part': 'transport', 'data': {c: [None if (isinstance(v, float) and v != v) else v for v in df[c].tolist()] for c in df.columns}}
        ctx.evaluations += 1
        ctx.nontriv(['transport', df['w'].tolist()[:8]])
        for gen in (True, False):
            def f(frame, w, gen=gen):
                e = GTransportFormula(frame, exposure='A', outcome='Y', selection='S', generalize=gen, weights=w)
                e.outcome_model('A + ' + meta['rhs'], print_results=False)
                refit(e)
                return [e.risk_difference, e.risk_ratio]
            both(f, df, rep, 'GTransportFormula', 'GTransportFormula(generalize=%s)' % gen, fails, ctx, payload)


def survival_part(ctx, fails):
    WL[0] = 'w'
    from zepid.causal.gformula import SurvivalGFormula
    n = 2 if ctx.quick else 20
    for i in range(n):
        rs = np.random.RandomState(ctx.rng.randrange(2 ** 31))
        rows = []
        nid = ctx.rng.randint(30, 60)
        for pid in range(nid):
            a = rs.binomial(1, 0.5)
            wv = rs.randint(1, 5)
            for t in range(1, 5):
                d = rs.binomial(1, 0.15 + 0.1 * a)
                rows.append([pid, t, a, d, wv])
                if d or rs.random() < 0.1:
                    break
        df = pd.DataFrame(rows, columns=['id', 't', 'A', 'd', 'w'])
        # replicate whole subjects: copies get fresh ids
        reps = []
        nxt = 0
        for pid, g in df.groupby('id'):
            for k in range(int(g['w'].iloc[0])):
                gg = g.drop(columns=['w']).copy()
                gg['id'] = nxt
                nxt += 1
                reps.append(gg)
        rep = pd.concat(reps, ignore_index=True)
        payload = {'part': 'survival', 'data': df.to_dict('list')}
        ctx.evaluations += 1
        ctx.nontriv(['survival', df['d'].tolist()[:10]])
        for plan in ('all', 'none', 'natural'):
            def f(frame, w, plan=plan):
                g = SurvivalGFormula(frame, idvar='id', exposure='A', outcome='d', time='t', weights=w)
                g.outcome_model('A + C(t)', print_results=False)
                refit(g, plan)
                return np.asarray(g.marginal_outcome, dtype=float)
            both(f, df, rep, 'SurvivalGFormula', 'SurvivalGFormula.fit(%s)' % plan, fails, ctx, payload)


def coq_part(ctx, fails):
    """small categorical frames: the Coq models on the weighted rows and on the replicated rows vs both runs"""
    from zepid.causal.ipw import IPTW
    from zepid.causal.gformula import TimeFixedGFormula
    n = 6 if ctx.quick else 45
    exprs, refs = [], []
    for i in range(n):
        df, meta = datagen.cat_frame(ctx.rng, n_cov=1, arities=[2], cell=(2, 3), outcome='binary')
        rs = np.random.RandomState(ctx.rng.randrange(2 ** 31))
        df['w'] = rs.randint(1, 4, size=len(df))
        payload = {'part': 'coq', 'data': df.to_dict('list')}
        try:
            ip = IPTW(df, 'A', 'Y', weights='w')
            ip.treatment_model(meta['sat_L'], stabilized=False, print_results=False)
            ip.marginal_structural_model('A')
            refit(ip)
            g = TimeFixedGFormula(df, 'A', 'Y', weights='w', standardize='population')
            g.outcome_model(meta['sat_AL'], print_results=False)
            refit(g, 'all')
            q1 = np.asarray(g.predicted_df['Y'], dtype=float)
            gf1 = float(g.marginal_outcome)
        except Exception as e:   # noqa
            fails.append((len(df), 'coq-part.raises', 'weighted run raised %s: %s' % (type(e).__name__, str(e)[:100]), payload))
            continue
        nn = int(df['w'].sum())
        S, A = np.asarray(ip.df['S']), np.asarray(ip.df['A']).astype(int)
        Y = [ec.frac_y(y) for y in np.asarray(ip.df['Y'], dtype=float)]
        gg = ec.snap_vec(ip.df['__denom__'], nn)[0]
        qq = ec.snap_vec(q1, nn)[0]
        rows = ec.coq_rows(S, A, Y, g1=gg, q1=qq)
        mfun = '(fun r => nth (Nat.pred 0) [] 0%nat)'   # placeholder replaced below
        # multiplicities as a lookup by position: encode m through the rows' wt in a second list
        wrows = ec.coq_rows(S, A, Y, W=[Fraction(int(x)) for x in ip.df['w']], g1=gg, q1=qq)
        reprows = ec.coq_rows(np.repeat(S, ip.df['w']), np.repeat(A, ip.df['w']), [y for y, k in zip(Y, ip.df['w']) for _ in range(int(k))],
                              g1=[x for x, k in zip(gg, ip.df['w']) for _ in range(int(k))],
                              q1=[x for x, k in zip(qq, ip.df['w']) for _ in range(int(k))])
        exprs.append('(let l := %s in Qflat [iptw_mu false TAll (1#2) 1 1 true l; iptw_mu false TAll (1#2) 1 1 false l; gf_marginal TAll true l; std TAll true l], '
                     'let l := %s in Qflat [iptw_mu false TAll (1#2) 1 1 true l; iptw_mu false TAll (1#2) 1 1 false l; gf_marginal TAll true l; std TAll true l])'
                     % (wrows, reprows))
        rd = float(ip.risk_difference['RD'].iloc[1])
        refs.append((rd, gf1, payload, len(df)))
    res, errs = coq_eval(ctx, 'c09', IMPORTS, exprs, shard=2)
    if errs:
        ctx.broken_ties.append('coq evaluation failed: ' + errs[0][1][-300:])
    for (rd, gf1, payload, size), r in zip(refs, res):
        ctx.evaluations += 1
        if r is None:
            continue
        w, rp = [frac(x) for x in r[0]], [frac(x) for x in r[1]]
        ctx.programs += 1
        ctx.nontriv(['coq', payload['data']['Y'], payload['data']['w']])
        if w != rp:
            ctx.broken_ties.append('model: weighted and replicated evaluations differ (%s vs %s) -- contradicts theorem C09' % (w, rp))
        if not close(rd, w[0] - w[1], TOL_FIT):
            fails.append((size, 'IPTW.weights.vs-model', 'weighted IPTW RD %r, Coq model on weighted rows %s' % (rd, w[0] - w[1]), payload))
        if not close(gf1, w[2], TOL_FIT) or not close(gf1, w[3], TOL_FIT):
            fails.append((size, 'TimeFixedGFormula.weights.vs-model', 'weighted g-formula %r, Coq model %s, weighted standardisation %s' % (gf1, w[2], w[3]), payload))
        ctx.sample({'weighted_rd': rd, 'model_rd_weighted_rows': str(w[0] - w[1]), 'model_rd_replicated_rows': str(rp[0] - rp[1])}, cap=3)


def run(ctx):
    fails = []
    estimator_part(ctx, fails)
    transport_part(ctx, fails)
    survival_part(ctx, fails)
    coq_part(ctx, fails)
    report(ctx, fails)


def report(ctx, fails):
    fails.sort(key=lambda f: f[0])
    seen = set()
    for size, key, what, payload in fails:
        if key in seen:
            continue
        seen.add(key)
        n = sum(1 for f in fails if f[1] == key)
        ctx.violation(key, what + ' [%d failing cases]' % n, payload)


def replay(ctx, payload):
    run(ctx)
