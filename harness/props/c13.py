"""C13 -- Monte Carlo g-formula simulates well-formed histories obeying the plan.

Every run: build a small long-format data set, fit the nuisance models through the public API, wrap
MonteCarloGFormula._predict and DataFrame.sample at run time to record every random draw, call fit() (with recorders
called from the public in_recode / out_recode strings), hand the recorded draws to the Coq model
(Model/MonteCarlo.v) and require predicted_outcomes, the per-step frames and the baseline table to equal the
model's EXACTLY; evaluate the boolean specification in Coq on the rows the implementation produced; check the
invariants directly on the implementation's output as well."""
import random
import sys
import types
import warnings
from fractions import Fraction

import numpy as np
import pandas as pd

from common import coq_eval

PROP_FILE = 'theories/Properties/C13.v'
MODEL_FILES = ['theories/Model/MonteCarlo.v']
GEN_GROUPS = []
RULE = ('random long-format person-period data (40-120 ids, 2-5 periods, binary baseline W, binary L1, binary or continuous L2, '
        'binary exposure/outcome, drop-out, shuffled or default index, optional integer weights, times stored as int or float) x plan (all, none, natural, custom '
        'rule from a small expression language incl. rules on lagged exposure, time and a continuous covariate) x 0/1/2 covariate '
        'models (labels in/out of call order, ties) x censoring model on/off x lags (none, simple, chained, badly ordered chain) x '
        'low_memory on/off (plus paired runs of both on one seed) x sample 20..300 x t_max (data maximum, 1, 2, beyond the data) '
        'x numpy seed; plus EVERY 0/1 draw stream of tiny runs (1-3 individuals, 2-3 steps) dictated to _predict depth-first; every draw of '
        'np.random inside _predict and the rows drawn by DataFrame.sample are recorded and replayed '
        'through the Coq model; non-trivial = distinct (configuration, data seed, numpy seed) whose fit() completed')
TRUSTED = ['run-time wrappers around MonteCarloGFormula._predict and pandas.DataFrame.sample (record the draw stream) and the recorder '
           'module called from the public in_recode/out_recode strings',
           'pandas row-wise semantics of column assignment, boolean .loc filtering, reset_index, concat, sort_values and '
           'DataFrame.sample (modelled by Model.MonteCarlo; compared exactly on every run)',
           'statsmodels GLM/GLS fits and predict only supply probabilities to np.random; the theorems hold for every draw']

VARS = ['A', 'L1', 'L2', 'W', 'lag_A', 'lag_L1', 'lag_L2', 'lag2_A']
CODE = {v: i for i, v in enumerate(VARS)}


# ------------------------------------------------------------------------------------------------ data
def gen_long(spec):
    rng = random.Random(spec['data_seed'])
    n, T = spec['n_ids'], spec['T_in']
    ids = rng.sample(range(1, 5 * n), n)
    py, pc = rng.uniform(0.06, 0.22), rng.uniform(0.03, 0.15)
    rows = []
    for pid in ids:
        W = rng.randint(0, 1)
        lagA, lag2A, lagL1 = 0, 0, rng.randint(0, 1)
        lagL2 = round(rng.gauss(0.5, 1.0), 3) if spec['cont_L2'] else rng.randint(0, 1)
        # left truncation: some individuals enter follow-up late, their first record does not start at time 0
        entry = rng.choice([0, 0, 1, 2]) if spec.get('late_entry') else 0
        for t in range(entry, entry + T):
            L1 = int(rng.random() < 0.25 + 0.35 * lagL1 + 0.1 * W)
            if spec['cont_L2']:
                L2 = round(0.4 * lagL2 + 0.5 * L1 + 0.3 * lagA + rng.gauss(0, 1.0), 3)
                l2hi = L2 > 0.5
            else:
                L2 = int(rng.random() < 0.2 + 0.3 * lagL2 + 0.2 * L1)
                l2hi = L2 == 1
            A = int(rng.random() < 0.2 + 0.3 * L1 + 0.25 * lagA + (0.1 if l2hi else 0))
            Y = int(rng.random() < py + 0.08 * L1 - 0.04 * A + 0.03 * W)
            C = int(rng.random() < pc + 0.04 * L1)
            rows.append({'id': pid, 't_in': t, 't_out': t + 1, 'W': W, 'L1': L1, 'L2': L2, 'A': A, 'Y': Y, 'lag_A': lagA,
                         'lag_L1': lagL1, 'lag_L2': lagL2, 'lag2_A': lag2A, 'fw': rng.randint(1, 3)})
            if Y == 1 or C == 1:
                break
            lag2A, lagA, lagL1, lagL2 = lagA, A, L1, L2
    if spec['index'] == 'shuffled':
        rng.shuffle(rows)
    df = pd.DataFrame(rows)
    if spec['index'] == 'shuffled':
        df.index = rng.sample(range(1000, 1000 + 3 * len(df)), len(df))
    if not spec['cont_L2']:
        df['L2'] = df['L2'].astype(int)
        df['lag_L2'] = df['lag_L2'].astype(int)
    if spec.get('int_lag'):
        df['lag_L2'] = df['lag_L2'].round().astype(int)
    # two never-true baseline flags whose NAMES contain the words the plan keywords are made of (autumn enrolment, not enrolled):
    # a custom rule may mention them
    df['fall'] = 0
    df['nonenrolled'] = 0
    if spec.get('float_time'):          # whole-number times stored as floats (t_max then comes out of np.max as a float)
        df['t_in'] = df['t_in'].astype(float)
        df['t_out'] = df['t_out'].astype(float)
    return df


COV_ORDERS = {   # add_covariate_model calls in call order: (label, covariate)
    'one': [(1, 'L1')],
    'asc': [(1, 'L1'), (2, 'L2')],
    'desc_calls': [(2, 'L2'), (1, 'L1')],
    'tie': [(5, 'L1'), (5, 'L2')],
    'tie_rev': [(5, 'L2'), (5, 'L1')],
    'gap': [(7, 'L2'), (-3, 'L1')],
}
LAGS = {
    'none': None,
    'simple': [('A', 'lag_A'), ('L1', 'lag_L1'), ('L2', 'lag_L2')],
    'chain': [('lag_A', 'lag2_A'), ('A', 'lag_A'), ('L1', 'lag_L1'), ('L2', 'lag_L2')],
    'chain_bad': [('A', 'lag_A'), ('lag_A', 'lag2_A'), ('L1', 'lag_L1')],   # lag2_A receives the CURRENT A (user's ordering error)
}


def lags_ok(lags):
    done = []
    for i, (k, v) in enumerate(lags or []):
        if k in done or v in [x[1] for x in lags[i + 1:]]:
            return False
        done.append(v)
    return True


def rule_py(r):
    t = r[0]
    if t == 'eq':
        return "(g['%s']==%r)" % (r[1], r[2])
    if t == 'ge':
        return "(g['%s']>=%r)" % (r[1], r[2])
    if t == 'tge':
        return "(g['t_in']>=%d)" % r[1]
    if t == 'and':
        return '(%s & %s)' % (rule_py(r[1]), rule_py(r[2]))
    if t == 'or':
        return '(%s | %s)' % (rule_py(r[1]), rule_py(r[2]))
    if t == 'not':
        return '(~%s)' % rule_py(r[1])
    raise AssertionError(r)


def rule_coq(r):
    t = r[0]
    if t == 'eq':
        return '(REq %d%%nat %s)' % (CODE[r[1]], q(r[2]))
    if t == 'ge':
        return '(RGe %d%%nat %s)' % (CODE[r[1]], q(r[2]))
    if t == 'tge':
        return '(RTimeGe (%d)%%Z)' % r[1]
    if t in ('and', 'or'):
        return '(%s %s %s)' % ('RAnd' if t == 'and' else 'ROr', rule_coq(r[1]), rule_coq(r[2]))
    if t == 'not':
        return '(RNot %s)' % rule_coq(r[1])
    raise AssertionError(r)


def rule_reads(r, name):
    if r[0] in ('eq', 'ge'):
        return r[1] == name
    if r[0] == 'tge':
        return False
    return any(rule_reads(x, name) for x in r[1:])


def gen_rule(rng, spec):
    atoms = [['eq', 'L1', 1], ['eq', 'L1', 0], ['eq', 'lag_A', 1], ['eq', 'W', 1], ['tge', rng.randint(1, 3)],
             ['eq', 'lag_L1', 1], ['eq', 'A', 1], ['eq', 'lag2_A', 1]]
    atoms.append(['ge', 'L2', round(rng.uniform(-0.5, 1.5), 2)] if spec['cont_L2'] else ['eq', 'L2', 1])
    k = rng.choice(['atom', 'atom', 'or', 'and', 'not', 'itt', 'deep'])
    a, b, c = (rng.choice(atoms) for _ in range(3))
    if k == 'atom':
        return a
    if k == 'or':
        return ['or', a, b]
    if k == 'and':
        return ['and', a, b]
    if k == 'not':
        return ['not', a]
    if k == 'itt':                      # the documentation's natural course under intent-to-treat
        return ['or', ['eq', 'A', 1], ['eq', 'lag_A', 1]]
    return ['or', ['and', a, ['not', b]], c]


def gen_spec(rng, k, quick):
    cont = rng.random() < 0.3
    spec = {'data_seed': rng.randrange(2 ** 31), 'np_seed': rng.randrange(2 ** 31),
            'n_ids': rng.choice([40, 60, 80, 120]), 'T_in': rng.choice([2, 3, 3, 4, 4, 5]), 'cont_L2': cont,
            'index': rng.choice(['range', 'range', 'shuffled']), 'weights': rng.random() < 0.15}
    spec['plan'] = ['all', 'none', 'natural', 'custom'][k % 4]
    if spec['plan'] == 'custom':
        spec['rule'] = gen_rule(rng, spec)
    spec['covs'] = rng.choice(['none', 'one', 'one', 'asc', 'desc_calls', 'tie', 'tie_rev', 'gap'])
    spec['cens'] = rng.random() < 0.5
    spec['lags'] = rng.choice(['none', 'simple', 'simple', 'simple', 'chain', 'chain', 'chain_bad'])
    spec['lm'] = rng.random() < 0.5
    spec['paired'] = rng.random() < 0.35
    spec['spy'] = rng.random() < 0.85
    spec['sample'] = rng.choice([20, 20, 25, 33, 50, 64, 100, 150] + ([300] if (k % 10 == 0 or not quick) else [80]))
    spec['t_max'] = rng.choice([None, None, None, None, 1, 2, 2, 'beyond', 'beyond'])
    spec['itt_restriction'] = rng.random() < 0.2
    spec['float_time'] = rng.random() < 0.15
    # a continuous covariate whose lagged copy is STORED as whole numbers (lab counts, shift(fill_value=0), ...)
    spec['int_lag'] = bool(cont and spec['lags'] in ('simple', 'chain') and rng.random() < 0.6)
    spec['late_entry'] = rng.random() < 0.3
    return spec


# ------------------------------------------------------------------------------------------------ implementation
class Spy:
    """records DataFrame.sample, every _predict result and the frames handed to the recorder strings"""

    def __init__(self, forced=None):
        self.draws, self.samples, self.ins, self.outs = [], [], [], []
        self.forced = None if forced is None else list(forced)     # exhaustive part: the 0/1 draws are dictated, in order
        self.consumed = 0

    def take(self, n):
        bits = self.forced[self.consumed:self.consumed + n]
        bits += [0] * (n - len(bits))
        self.consumed += n
        return np.array(bits, dtype=int)

    def __enter__(self):
        from zepid.causal.gformula import MonteCarloGFormula
        self.cls = MonteCarloGFormula
        self.orig_predict = MonteCarloGFormula.__dict__['_predict']
        self.orig_sample = pd.DataFrame.sample
        fn = self.orig_predict.__func__
        spy = self

        def predict(df, model, variable):
            out = fn(df=df, model=model, variable=variable)
            if spy.forced is not None:
                out = spy.take(len(out))
            spy.draws.append((len(df), variable, np.array(out, copy=True)))
            return out

        def sample(frame, *a, **k):
            out = spy.orig_sample(frame, *a, **k)
            spy.samples.append((frame.copy(), out.copy(), dict(k)))
            return out

        MonteCarloGFormula._predict = staticmethod(predict)
        pd.DataFrame.sample = sample
        mod = types.ModuleType('verif_rec')
        mod.rec = lambda tag, g: (self.ins if tag == 'in' else self.outs).append(g.copy())
        sys.modules['verif_rec'] = mod
        return self

    def __exit__(self, *exc):
        self.cls._predict = self.orig_predict
        pd.DataFrame.sample = self.orig_sample
        sys.modules.pop('verif_rec', None)
        return False


def build(spec, df):
    from zepid.causal.gformula import MonteCarloGFormula
    g = MonteCarloGFormula(df, idvar='id', exposure='A', outcome='Y', time_in='t_in', time_out='t_out',
                           weights='fw' if spec['weights'] else None)
    covs = COV_ORDERS.get(spec['covs'], [])
    order = [c for _, c in sorted(covs, key=lambda lc: lc[0])]
    g.exposure_model('L1 + L2 + lag_A + W', restriction="g['lag_A']==0" if spec['itt_restriction'] else None, print_results=False)
    g.outcome_model('A + L1 + L2 + W + t_in', print_results=False)
    for label, cov in covs:
        if cov == 'L1':
            f = 'lag_L1 + lag_A + W' + (' + L2' if order.index('L1') > 0 else '')
            g.add_covariate_model(label=label, covariate='L1', model=f, print_results=False)
        else:
            f = 'lag_L2 + lag_A + W' + (' + L1' if order.index('L2') > 0 else '')
            g.add_covariate_model(label=label, covariate='L2', model=f, print_results=False,
                                  var_type='continuous' if spec['cont_L2'] else 'binary')
    if spec['cens']:
        g.censoring_model('L1 + A + lag_A', print_results=False)
    return g


def tmax_of(spec, df):
    if spec['t_max'] is None:
        return None, int(df['t_out'].max())
    if spec['t_max'] == 'beyond':
        t = int(df['t_out'].max()) + 2
        return t, t
    return int(spec['t_max']), int(spec['t_max'])


def fit_once(spec, g, df, lm):
    """one fit() under the spies; returns a dict of python-native observations"""
    lags = LAGS[spec['lags']]
    plan = spec['plan'] if spec['plan'] != 'custom' else rule_py(spec['rule'])
    if spec['plan'] == 'custom' and spec['data_seed'] % 2 == 0:
        # the same rule, written with a clause that is never true: a rule is Python evaluated on the simulated rows, whatever the
        # column names in it look like
        plan = "(%s | (g['%s']==1))" % (plan, ['fall', 'nonenrolled'][spec['data_seed'] // 2 % 2])
    t_arg, T = tmax_of(spec, df)
    kw = {}
    if spec['spy']:
        kw = {'in_recode': "__import__('verif_rec').rec('in',g)", 'out_recode': "__import__('verif_rec').rec('out',g)"}
    with Spy(spec.get('forced')) as spy:
        np.random.seed(spec['np_seed'])
        try:
            g.fit(plan, lags=dict(lags) if lags else None, sample=spec['sample'], t_max=t_arg, low_memory=lm, **kw)
        except Exception as e:   # noqa
            import traceback
            return {'error': '%s: %s' % (type(e).__name__, str(e)[:200]), 'traceback': traceback.format_exc()[-1500:]}
    po = g.predicted_outcomes
    return {'po': po.copy(), 'draws': spy.draws, 'samples': spy.samples, 'ins': spy.ins, 'outs': spy.outs, 'T': T,
            'po_index_ok': list(po.index) == list(range(len(po))), 'consumed': spy.consumed}


# ------------------------------------------------------------------------------------------------ Coq terms
def q(x):
    fr = Fraction(x) if not isinstance(x, (int, np.integer)) else Fraction(int(x))
    if fr.numerator < 0:
        return '((-%d)#%d)' % (-fr.numerator, fr.denominator)
    return '(%d#%d)' % (fr.numerator, fr.denominator)


def z(x):
    return '(%d)%%Z' % int(x)


def b(x):
    return 'true' if x else 'false'


def exact(x):
    """python/numpy scalar -> Fraction (exact); None for NaN"""
    if isinstance(x, (bool, np.bool_)):
        return Fraction(int(x))
    if isinstance(x, (int, np.integer)):
        return Fraction(int(x))
    xf = float(x)
    if xf != xf:
        return None
    return Fraction(xf)


PREAMBLE = '''
Open Scope Z_scope.
Definition NV := %d%%nat.
Definition VARS := seq 0 NV.
Definition mkenv (l : list Q) : env := combine VARS l.
Definition lr (i a o : Z) (l : list Q) : lrow := mkL i a o (mkenv l).
Definition tr (u o a t : Z) (y c : bool) (l : list Q) : record := mkRec (mkUnit u o a t y c (mkenv l)) (mkenv l).
Definition dr := mkDraw.
Definition qi (z : Z) : Q := inject_Z z.
(* a row of predicted_outcomes: uid, id, time_in, time_out, outcome, exposure, covariates in call order *)
Definition porow := (Z * Z * Z * Z * bool * Q * list Q)%%type.
Definition po (u o a t : Z) (y : bool) (x : Q) (l : list Q) : porow := (u, o, a, t, y, x, l).
Fixpoint ql_eqb (a b : list Q) : bool :=
  match a, b with [] , [] => true | x :: a', y :: b' => Qeq_bool x y && ql_eqb a' b' | _, _ => false end.
Fixpoint zl_eqb (a b : list Z) : bool :=
  match a, b with [] , [] => true | x :: a', y :: b' => Z.eqb x y && zl_eqb a' b' | _, _ => false end.
Fixpoint first_diff {A B} (same : A -> B -> bool) (k : Z) (a : list A) (b : list B) : Z :=
  match a, b with
  | [], [] => -1
  | x :: a', y :: b' => if same x y then first_diff same (k + 1) a' b' else k
  | _, _ => k
  end.
Definition envs (e : env) : list Q := map (fun v => get v e) VARS.
Definition po_same (c : cfg) (r : record) (p : porow) : bool :=
  let '(u, o, a, t, y, x, l) := p in
  Z.eqb (ruid r) u && Z.eqb (oid (r_unit r)) o && Z.eqb (rtin r) a && Z.eqb (rtout r) t && Bool.eqb (routc r) y
  && Qeq_bool (rexpo c r) x && ql_eqb (map (fun lv : Z * var => get (snd lv) (uenv (r_unit r))) (c_covs c)) l.
(* model record vs implementation row recorded at out_recode: everything but the stacked columns *)
Definition tr_same (r s : record) : bool :=
  Z.eqb (ruid r) (ruid s) && Z.eqb (oid (r_unit r)) (oid (r_unit s)) && Z.eqb (rtin r) (rtin s) && Z.eqb (rtout r) (rtout s)
  && Bool.eqb (routc r) (routc s) && Bool.eqb (runc r) (runc s) && ql_eqb (envs (r_seen r)) (envs (r_seen s)).
Definition rec_same (r s : record) : bool := tr_same r s && ql_eqb (envs (uenv (r_unit r))) (envs (uenv (r_unit s))).
Definition base_same (a b : lrow) : bool :=
  Z.eqb (l_id a) (l_id b) && Z.eqb (l_tin a) (l_tin b) && Z.eqb (l_tout a) (l_tout b) && ql_eqb (envs (l_env a)) (envs (l_env b)).
(* rows entering step s+1 carry the columns stacked at the end of step s (lag update applied); step 0: the sampled row *)
Definition cmp_po (c : cfg) (model : list record) (impl : option (list porow)) :=
  match impl with
  | None => (-2, 0, 0, [])
  | Some rows => let k := first_diff (po_same c) 0 model rows in
                 (k, Z.of_nat (length model), Z.of_nat (length rows),
                  if k <? 0 then [] else print_recs VARS (firstn 1 (skipn (Z.to_nat k) model)))
  end.
Definition report (c : cfg) (n : nat) (picks : list nat) (long : list lrow) (draws : list (list udraw))
                  (base_i : list lrow) (po_full po_low : option (list porow)) (spy : bool) (trace : list record)
                  (uids_in uids_out : list (list Z)) :=
  let base := baseline long in
  let full := run false c n picks long draws in
  let low := run true c n picks long draws in
  let su := map (map ruid) (steps c (init_pop n picks base) draws) in
  let kt := if spy then first_diff tr_same 0 full trace else -1 in
  (first_diff base_same 0 base base_i,
   cmp_po c full po_full, cmp_po c low po_low,
   (kt, Z.of_nat (length full), Z.of_nat (length trace), if kt <? 0 then [] else print_recs VARS (firstn 1 (skipn (Z.to_nat kt) full))),
   (if spy then first_diff zl_eqb 0 su uids_in else -1, if spy then first_diff zl_eqb 0 su uids_out else -1, map (fun l => Z.of_nat (length l)) su),
   (map zb (spec_trace c n picks base trace), zb (lags_okb [] (c_lags c)), first_diff rec_same 0 (lasts n full) low)).
''' % len(VARS)


def qv(x):
    '''Q literal; integers through inject_Z (shorter to parse)'''
    fr = x if isinstance(x, Fraction) else Fraction(x)
    if fr.denominator == 1:
        return '(qi %d)' % fr.numerator if fr.numerator >= 0 else '(qi (%d))' % fr.numerator
    return q(fr)


def coq_case(spec, obs, T, po_full, po_low, shared=False):
    '''the Coq expression of one run: configuration, long data, recorded picks and draws, implementation rows'''
    covs = COV_ORDERS.get(spec['covs'], [])
    lags = LAGS[spec['lags']] or []
    plan = {'all': 'PAll', 'none': 'PNone', 'natural': 'PNatural'}.get(spec['plan'])
    if plan is None:
        plan = '(PCustom (reval %s))' % rule_coq(spec['rule'])
    cfg = '(mkCfg %s %d%%nat [%s] [%s] %s %d%%nat)' % (
        plan, CODE['A'], '; '.join('(%s, %d%%nat)' % (z(l), CODE[c]) for l, c in covs),
        '; '.join('(%d%%nat, %d%%nat)' % (CODE[k], CODE[v]) for k, v in lags), b(spec['cens']), T)

    def lrows(rows):
        return '[' + ';'.join('lr %s %s %s [%s]' % (z(r['id']), z(r['t_in']), z(r['t_out']), ';'.join(qv(x) for x in r['env'])) for r in rows) + ']'

    def porows(rows):
        if rows is None:
            return 'None'
        return '(Some [' + ';'.join('po %s %s %s %s %s %s [%s]' % (z(r[0]), z(r[1]), z(r[2]), z(r[3]), b(r[4]), qv(r[5]), ';'.join(qv(x) for x in r[6]))
                                    for r in rows) + '])'

    def zll(ll):
        return '[' + ';'.join('[' + ';'.join(z(x) for x in l) + ']' for l in ll) + ']'
    if shared == 'defs':
        return 'Definition xlong := %s.\nDefinition xbase := %s.\n' % (lrows(obs['long']), lrows(obs['base']))
    picks = '[' + ';'.join('%d' % p for p in obs['picks']) + ']%nat'
    draws = '[' + ';\n '.join('[' + ';'.join('dr [%s] %s %s %s' % (';'.join(qv(c) for c in d[0]), b(d[1]), b(d[2]), b(d[3])) for d in st) + ']'
                              for st in obs['udraws']) + ']'
    trace = '[' + ';'.join('tr %s %s %s %s %s %s [%s]' % (z(r['uid']), z(r['id']), z(r['t_in']), z(r['t_out']), b(r['Y']), b(r['unc']),
                                                       ';'.join(qv(x) for x in r['env'])) for r in obs['trace']) + ']'
    spy = obs['trace_steps'] is not None
    uin = zll([[r['uid'] for r in st] for st in obs['in_steps']]) if spy else '[]'
    uout = zll([[r['uid'] for r in st] for st in obs['trace_steps']]) if spy else '[]'
    return 'report %s %d%%nat %s\n %s\n %s\n %s\n %s\n %s %s\n %s\n %s %s' % (
        cfg, spec['sample'], picks, 'xlong' if shared else lrows(obs['long']), draws, 'xbase' if shared else lrows(obs['base']),
        porows(po_full), porows(po_low), b(spy), trace, uin, uout)


# ------------------------------------------------------------------------------------------------ observation -> model inputs
class Broken(Exception):
    """the recorded stream does not have the shape the model assumes (a correspondence failure, reported as such)"""


def toint(x, what):
    fr = exact(x)
    if fr is None or fr.denominator != 1:
        raise Broken('%s is %r, not an integer' % (what, x))
    return int(fr)


def tofrac(x, what):
    fr = exact(x)
    if fr is None:
        raise Broken('%s is NaN' % what)
    return fr


def frame_rows(fr):
    out = []
    for rec in fr.to_dict('records'):
        out.append({'uid': toint(rec['uid_g_zepid'], 'uid_g_zepid'), 'id': toint(rec['id'], 'id'), 't_in': toint(rec['t_in'], 'time_in'),
                    't_out': toint(rec['t_out'], 'time_out'), 'Y': toint(rec['Y'], 'outcome'), 'unc': toint(rec['uncensored'], 'uncensored'),
                    'env': [tofrac(rec[v], v) for v in VARS]})
    return out


_LONG = {}


def digest(spec, df, res):
    """turn the spies' recordings into the model's inputs; raises Broken when the stream has an unexpected shape"""
    obs = {}
    if _LONG.get('df') is not df:
        _LONG.update(df=df, rows=[{'id': int(r['id']), 't_in': int(r['t_in']), 't_out': int(r['t_out']), 'env': [exact(r[v]) for v in VARS]}
                                  for r in df.to_dict('records')])
    obs['long'] = _LONG['rows']
    if len(res['samples']) != 1:
        raise Broken('DataFrame.sample called %d times' % len(res['samples']))
    recv, drawn, kw = res['samples'][0]
    if not recv.index.is_unique:
        raise Broken('baseline table has a duplicated index')
    pos = recv.index.get_indexer(drawn.index)
    if len(pos) != spec['sample'] or (pos < 0).any():
        raise Broken('DataFrame.sample returned %d rows for n=%d' % (len(pos), spec['sample']))
    # oracle: every drawn row is the receiver's row at that position
    a, c = recv.iloc[pos].reset_index(drop=True), drawn.reset_index(drop=True)
    if not a.equals(c):
        raise Broken('DataFrame.sample returned rows that are not rows of its receiver')
    obs['picks'] = [int(p) for p in pos]
    obs['base'] = [{'id': int(r['id']), 't_in': int(r['t_in']), 't_out': int(r['t_out']), 'env': [exact(r[v]) for v in VARS]}
                   for r in recv.to_dict('records')]
    # draws: calls per step in execution order
    ncov = len(COV_ORDERS.get(spec['covs'], []))
    has_exp = spec['plan'] in ('natural', 'custom')
    per = ncov + (1 if has_exp else 0) + 1 + (1 if spec['cens'] else 0)
    calls = res['draws']
    T = res['T']
    if len(calls) != per * T:
        raise Broken('%d _predict calls, expected %d steps x %d models' % (len(calls), T, per))
    udraws, sizes = [], []
    for s in range(T):
        cs = calls[s * per:(s + 1) * per]
        n = cs[0][0]
        if any(c[0] != n or len(c[2]) != n for c in cs):
            raise Broken('step %d: _predict calls of different lengths %r' % (s, [c[0] for c in cs]))
        sizes.append(n)
        cov = [cs[j][2] for j in range(ncov)]
        k = ncov
        ex = cs[k][2] if has_exp else None
        k += 1 if has_exp else 0
        out = cs[k][2]
        cen = cs[k + 1][2] if spec['cens'] else None
        for name, vec in (('exposure', ex), ('outcome', out), ('censoring', cen)):
            if vec is not None and not set(np.unique(vec).tolist()) <= {0, 1}:
                raise Broken('%s draws are not 0/1' % name)
        udraws.append([([exact(cv[i]) for cv in cov], bool(ex[i]) if has_exp else False, bool(out[i]), bool(cen[i]) if spec['cens'] else False)
                       for i in range(n)])
    obs['udraws'], obs['sizes'] = udraws, sizes
    # trace recorded at out_recode
    trace = []
    if spec['spy']:
        if len(res['ins']) != T or len(res['outs']) != T:
            raise Broken('recorders called %d/%d times for %d steps' % (len(res['ins']), len(res['outs']), T))
        for fr in res['outs']:
            trace.extend(frame_rows(fr))
    obs['trace_steps'] = [frame_rows(fr) for fr in res['outs']] if spec['spy'] else None
    obs['in_steps'] = [frame_rows(fr) for fr in res['ins']] if spec['spy'] else None
    obs['trace'] = sorted(trace, key=lambda r: (r['uid'], r['t_in']))
    return obs


def po_rows(spec, po):
    covs = [c for _, c in COV_ORDERS.get(spec['covs'], [])]
    expect_cols = ['uid_g_zepid', 'id', 'A', 'Y', 't_in', 't_out'] + covs
    if list(po.columns) != expect_cols:
        return None, 'columns %r' % list(po.columns)
    rows = []
    try:
        for rec in po.to_dict('records'):
            rows.append((toint(rec['uid_g_zepid'], 'uid'), toint(rec['id'], 'id'), toint(rec['t_in'], 'time_in'), toint(rec['t_out'], 'time_out'),
                         toint(rec['Y'], 'outcome'), tofrac(rec['A'], 'exposure'), tuple(tofrac(rec[c], c) for c in covs)))
    except Broken as e:
        return None, 'a value that %s' % e
    return rows, None


# ------------------------------------------------------------------------------------------------ direct invariants (python)
def direct_invariants(spec, obs, res, T):
    """the property checked on the implementation's own output, without the model"""
    bad = []
    po = res['po']
    n = spec['sample']
    lm = res['lm']
    if sorted(po['uid_g_zepid'].unique().tolist()) != list(range(n)):
        bad.append(('exactly-sample', 'simulated individuals are not exactly 0..%d' % (n - 1)))
    if not res['po_index_ok']:
        bad.append(('index', 'predicted_outcomes index is not 0..len-1'))
    base_by_pick = [obs['base'][p] for p in obs['picks']]
    for uid, h in po.groupby('uid_g_zepid', sort=True):
        tin, tout, y = h['t_in'].tolist(), h['t_out'].tolist(), h['Y'].tolist()
        if lm and len(h) != 1:
            bad.append(('low-memory-one-row', 'uid %d has %d rows in the low-memory output' % (uid, len(h))))
        if not lm and tin != list(range(len(h))):
            bad.append(('consecutive', 'uid %d has time_in %r' % (uid, tin)))
        if any(o != i + 1 for i, o in zip(tin, tout)):
            bad.append(('unit-length', 'uid %d has intervals %r' % (uid, list(zip(tin, tout)))))
        if sum(y) > 1 or any(v not in (0, 1) for v in y):
            bad.append(('one-event', 'uid %d has outcomes %r' % (uid, y)))
        if any(v == 1 for v in y[:-1]):
            bad.append(('after-event', 'uid %d has a record after its event: %r' % (uid, y)))
        if max(tout) > T or min(tin) < 0:
            bad.append(('beyond-tmax', 'uid %d has time_out %r > t_max %d' % (uid, max(tout), T)))
        if 0 <= uid < n and set(h['id'].tolist()) != {base_by_pick[uid]['id']}:
            bad.append(('id', 'uid %d carries id %r, sampled row has %r' % (uid, h['id'].tolist(), base_by_pick[uid]['id'])))
    if spec['plan'] == 'all' and not (po['A'] == 1).all():
        bad.append(('plan-all', "treatment='all' but exposure column has %r" % sorted(po['A'].unique().tolist())))
    if spec['plan'] == 'none' and not (po['A'] == 0).all():
        bad.append(('plan-none', "treatment='none' but exposure column has %r" % sorted(po['A'].unique().tolist())))
    if obs['trace_steps'] is not None:
        outs = res['outs']
        allrows = pd.concat(outs, ignore_index=True) if outs else None
        if allrows is not None and len(allrows):
            if spec['plan'] == 'custom' and not rule_reads(spec['rule'], 'A'):
                g = allrows    # noqa: F841  (the rule string names the frame g)
                want = np.where(eval(rule_py(spec['rule'])), 1, 0)
                if not (np.asarray(allrows['A']) == want).all():
                    bad.append(('plan-custom', 'exposure differs from the rule evaluated row by row on the simulated covariates'))
            tr = allrows.sort_values(['uid_g_zepid', 't_in'])
            # no record after simulated censoring; everybody censored at t_max
            for uid, h in tr.groupby('uid_g_zepid', sort=True):
                u = h['uncensored'].tolist()
                if any(v == 0 for v in u[:-1]):
                    bad.append(('after-censor', 'uid %d simulated after censoring: uncensored=%r' % (uid, u)))
                if h['t_out'].iloc[-1] == T and u[-1] != 0:
                    bad.append(('censor-at-tmax', 'uid %d not censored at t_max' % uid))
                if h['Y'].iloc[-1] == 0 and u[-1] != 0:
                    bad.append(('unfinished', 'uid %d stops without event or censoring' % uid))
                if lags_ok(LAGS[spec['lags']]) and LAGS[spec['lags']] and 0 <= int(uid) < n:
                    b0 = dict(zip(VARS, base_by_pick[int(uid)]['env']))
                    prev = None
                    for rec in h.to_dict('records'):
                        for k, v in LAGS[spec['lags']]:
                            want = b0[v] if prev is None else exact(prev[k])
                            if exact(rec[v]) != want:
                                bad.append(('lag', 'uid %d t_in %d: %s=%r, previous %s=%r' % (uid, rec['t_in'], v, rec[v], k, want)))
                        prev = rec
            # the output is the trace (all rows, or only terminal rows)
            keep = tr if not lm else tr.loc[(tr['Y'] > 0) | (tr['uncensored'] == 0)]
            cols = list(po.columns)
            if len(keep) != len(po) or not (keep[cols].reset_index(drop=True).astype(float).values == po.astype(float).values).all():
                bad.append(('output-vs-steps', 'predicted_outcomes is not the %s rows of the per-step frames' % ('terminal' if lm else 'stacked')))
    return bad


# ------------------------------------------------------------------------------------------------ one case
_BUILT = {}


def run_case(spec):
    """run the implementation (one or two fits on the same seed); returns (df, jobs, early failures)"""
    fails, jobs = [], []
    key = repr([spec.get(k) for k in ('data_seed', 'n_ids', 'T_in', 'cont_L2', 'index', 'weights', 'covs', 'cens', 'itt_restriction', 'float_time')])
    if _BUILT.get('key') == key:            # the exhaustive part refits nothing between draw streams
        df, g = _BUILT['df'], _BUILT['g']
    else:
        df = gen_long(spec)
        try:
            with warnings.catch_warnings():
                warnings.simplefilter('ignore')
                g = build(spec, df)
        except Exception as e:   # noqa
            return None, [], 'nuisance: %s: %s' % (type(e).__name__, str(e)[:100])
        _BUILT.update(key=key, df=df, g=g)
    modes = [spec['lm']] + ([not spec['lm']] if spec['paired'] else [])
    for lm in modes:
        with warnings.catch_warnings():
            warnings.simplefilter('ignore')
            res = fit_once(spec, g, df, lm)
        res['lm'] = lm
        payload = {'spec': spec, 'lm': lm}
        if 'error' in res:
            payload['traceback'] = res['traceback']
            fails.append((size_of(spec), 'MonteCarloGFormula.fit.raises', 'fit(%s) raised %s' % (describe(spec, lm), res['error']), payload))
            continue
        try:
            obs = digest(spec, df, res)
        except (Broken, KeyError) as e:
            if isinstance(e, KeyError):
                # the recorder could not observe a working column of the simulated frame: still judge what the public output shows
                po = res.get('po')
                if po is not None and 'uid_g_zepid' in po.columns:
                    uids = sorted(po['uid_g_zepid'].unique().tolist())
                    if uids != list(range(spec['sample'])):
                        fails.append((size_of(spec), 'MonteCarloGFormula.fit.invariant.exactly-sample',
                                      'fit(%s): predicted_outcomes holds %d distinct simulated individuals, sample=%d'
                                      % (describe(spec, lm), len(uids), spec['sample']), payload))
                        continue
                e = 'the per-step frame has no column %s (working column of the simulation the recorder reads)' % e
            fails.append((size_of(spec), 'MonteCarloGFormula.fit.draw-stream', 'fit(%s): %s' % (describe(spec, lm), e), payload))
            continue
        rows, err = po_rows(spec, res['po'])
        if err:
            fails.append((size_of(spec), 'MonteCarloGFormula.fit.columns', 'fit(%s): predicted_outcomes has %s' % (describe(spec, lm), err), payload))
            continue
        res['rows'] = rows
        jobs.append((lm, obs, res))
    if len(jobs) == 2:
        a, c = jobs[0], jobs[1]
        full, low = (a, c) if not a[0] else (c, a)
        # same seed => same draws, same per-step frames; low-memory output = last record of every history of the full output
        same = len(full[2]['draws']) == len(low[2]['draws']) and all(
            x[0] == y[0] and np.array_equal(x[2], y[2]) for x, y in zip(full[2]['draws'], low[2]['draws']))
        if not same or full[1]['picks'] != low[1]['picks'] or full[1]['trace'] != low[1]['trace']:
            fails.append((size_of(spec), 'MonteCarloGFormula.fit.low-memory-draws', 'fit(%s): the two low_memory settings consumed different draws '
                          'or simulated different rows from the same seed' % describe(spec, None), {'spec': spec}))
            jobs = jobs[:1]
        else:
            last = {}
            for r in full[2]['rows']:
                last[r[0]] = r
            if [last[k] for k in sorted(last)] != low[2]['rows']:
                fails.append((size_of(spec), 'MonteCarloGFormula.fit.low-memory-last', 'fit(%s): low_memory output is not the last record of '
                              'every history of the full output' % describe(spec, None), {'spec': spec}))
    return df, jobs, fails


def size_of(spec):
    return spec['sample'] * 10 + spec['n_ids']


def describe(spec, lm):
    d = {k: spec[k] for k in ('plan', 'covs', 'cens', 'lags', 'sample', 't_max', 'np_seed', 'data_seed', 'n_ids', 'T_in', 'cont_L2', 'weights', 'index')}
    if spec['plan'] == 'custom':
        d['treatment'] = rule_py(spec['rule'])
    if lm is not None:
        d['low_memory'] = lm
    if spec.get('forced') is not None:
        d['dictated 0/1 draws'] = ''.join(str(x) for x in spec['forced'])
    return ', '.join('%s=%r' % kv for kv in d.items())


SPEC_NAMES = ['uids-in-range', 'history-shape', 'plan-obeyed', 'lags-are-previous', 'id-of-sampled-row']


def compare(spec, jobs, T, coq, fails):
    """read the Coq side's verdicts: model vs implementation (exact), and the specification on the implementation's rows"""
    obs = jobs[0][1]
    size = size_of(spec)
    k_base, cmp_full, cmp_low, cmp_trace, (k_in, k_out, sizes), (spec_bits, lags_okb, k_lasts) = coq
    tag0 = describe(spec, None)
    if k_base != -1:
        fails.append((size, 'MonteCarloGFormula.fit.baseline-rows', 'fit(%s): the table the individuals are sampled from differs at row %d from '
                      'the first row (by time_out) of every id' % (tag0, k_base), {'spec': spec}))
    for lm, _, res in jobs:
        tag = describe(spec, lm)
        payload = {'spec': spec, 'lm': lm}
        k, n_model, n_impl, mrow = cmp_low if lm else cmp_full
        if k == -2:
            raise AssertionError('no implementation rows were passed for low_memory=%r' % lm)
        if k != -1:
            fails.append((size, 'MonteCarloGFormula.fit.predicted_outcomes',
                          'fit(%s): predicted_outcomes has %d rows, the model %d; first difference at row %d: implementation %s, model %s '
                          '[uid,id,time_in,time_out,outcome,uncensored,stacked %s,seen]' % (tag, n_impl, n_model, k, show(res['rows'], k), mrow, VARS), payload))
        for key, what in direct_invariants(spec, obs, res, T)[:3]:
            fails.append((size, 'MonteCarloGFormula.fit.invariant.' + key, 'fit(%s): %s' % (tag, what), payload))
    payload = {'spec': spec, 'lm': jobs[0][0]}
    if sizes != obs['sizes']:
        fails.append((size, 'MonteCarloGFormula.fit.at-risk-count', 'fit(%s): _predict was called on %r rows per step, the model keeps %r '
                      'event-free uncensored rows' % (tag0, obs['sizes'], sizes), payload))
    if obs.get('in_steps') is not None:
        # in_recode is the documented place to maintain functional forms of the entry time (g['t_sq'] = g['t_in']**2, read by models
        # and custom plans): when it runs at step i the time column of every row is already i
        for i, st in enumerate(obs['in_steps']):
            late = [r for r in st if r['t_in'] != i]
            if late:
                fails.append((size, 'MonteCarloGFormula.fit.in_recode-time', 'fit(%s): at in_recode of step %d the entry-time column of uid %d is %d '
                              '(%d of %d rows): terms derived from it there lag one interval behind' % (tag0, i, late[0]['uid'], late[0]['t_in'], len(late), len(st)), payload))
                break
    if obs['trace_steps'] is not None:
        if k_in != -1 or k_out != -1:
            fails.append((size, 'MonteCarloGFormula.fit.at-risk-set', 'fit(%s): the rows simulated at step %d are not the rows still event-free '
                          'and uncensored (in frame order)' % (tag0, max(k_in, k_out)), payload))
        k, n_model, n_impl, mrow = cmp_trace
        if k != -1:
            fails.append((size, 'MonteCarloGFormula.fit.step-rows', 'fit(%s): row %d (by uid, time_in) of the per-step frames seen at out_recode: '
                          'implementation %s, model %s [uid,id,time_in,time_out,outcome,uncensored,%s] (%d vs %d rows)'
                          % (tag0, k, show_tr(obs['trace'], k), mrow, VARS, n_impl, n_model), payload))
        # the specification evaluated in Coq on the implementation's rows
        for name, bit in zip(SPEC_NAMES, spec_bits):
            if name == 'lags-are-previous' and not lags_okb:
                continue
            if not bit:
                fails.append((size, 'MonteCarloGFormula.fit.spec.' + name, 'fit(%s): the Coq specification `%s` is false on the rows the '
                              'implementation simulated' % (tag0, name), payload))
    if k_lasts != -1:
        fails.append((size, 'model.lasts', 'model: low-memory run differs at row %d from the last record of each history of the full run (%s)'
                      % (k_lasts, tag0), payload))
    if bool(lags_okb) != lags_ok(LAGS[spec['lags']]):
        fails.append((size, 'harness.lags_ok', 'python and Coq disagree on lags_ok', payload))


def show(rows, k):
    if k >= len(rows):
        return '<no such row>'
    return str(tuple([str(y) for y in x] if isinstance(x, (list, tuple)) else (str(x) if isinstance(x, Fraction) else x) for x in rows[k]))


def show_tr(rows, k):
    if k >= len(rows):
        return '<no such row>'
    r = rows[k]
    return str((r['uid'], r['id'], r['t_in'], r['t_out'], r['Y'], r['unc'], [str(x) for x in r['env']]))


def collect(ctx, spec, fails, work, exprs, shared=False):
    df, jobs, early = run_case(spec)
    ctx.evaluations += 1
    if df is None:
        ctx.count('skipped:nuisance-model-did-not-fit')
        if len(ctx.notes) < 5:
            ctx.notes.append('skipped: ' + early)
        return None
    fails.extend(early)
    if not jobs:
        return None
    T = tmax_of(spec, df)[1]
    ctx.oracle_checks += len(jobs)      # DataFrame.sample returned `sample` rows of its receiver; exposure/outcome/censoring draws are 0/1
    rows = {lm: res['rows'] for lm, _, res in jobs}
    work.append((spec, jobs, T))
    exprs.append(coq_case(spec, jobs[0][1], T, rows.get(False), rows.get(True), shared))
    return jobs


def evaluate(ctx, work, exprs, fails, preamble, shard, tag='c13', detail=True):
    res_coq, errs = coq_eval(ctx, tag, ['Zepid.Model.MonteCarlo'], exprs, shard=shard, preamble=preamble, timeout=900)
    if errs:
        ctx.broken_ties.append('coq evaluation failed: ' + errs[0][1][-600:])
    for (spec, jobs, T), rc in zip(work, res_coq):
        if rc is None:
            continue
        obs = jobs[0][1]
        for lm, _, res in jobs:
            ctx.programs += 1
            ctx.disagreements_checked += 1
            ctx.nontriv([spec, lm])
            ctx.count('low_memory:%s' % lm)
            ctx.count('records', len(res['po']))
        if detail:
            for k in ('plan', 'covs', 'lags', 'cens', 't_max', 'spy', 'cont_L2', 'weights', 'index', 'paired', 'float_time', 'int_lag', 'late_entry'):
                ctx.count('%s:%s' % (k, spec.get(k)))
            ctx.count('sample<=50' if spec['sample'] <= 50 else 'sample<=150' if spec['sample'] <= 150 else 'sample=300')
            ctx.sample({'config': describe(spec, jobs[0][0]), 'steps': T, 'at_risk_per_step': obs['sizes'], 'rows_out': len(jobs[0][2]['po']),
                        'events': int(jobs[0][2]['po']['Y'].sum())}, cap=3)
        ctx.count('draw-vectors', len(jobs[0][2]['draws']))
        ctx.count('unit-steps', sum(obs['sizes']))
        compare(spec, jobs, T, rc, fails)


def process(ctx, specs, fails):
    work, exprs = [], []
    for spec in specs:
        collect(ctx, spec, fails, work, exprs)
    evaluate(ctx, work, exprs, fails, PREAMBLE, shard=1 if len(exprs) <= 48 else 4)


# ------------------------------------------------------------------------------------------------ every draw stream of tiny runs
EXHAUSTIVE = {   # name: (tier, spec overrides): every 0/1 draw stream is dictated to _predict, depth-first
    'two-units-natural-censoring': ('quick', {'plan': 'natural', 'covs': 'none', 'cens': True, 'lags': 'simple', 'sample': 2, 't_max': 2}),
    'one-unit-custom-covariate-two-steps': ('quick', {'plan': 'custom', 'rule': ['or', ['eq', 'L1', 1], ['eq', 'lag_A', 1]], 'covs': 'one',
                                                      'cens': True, 'lags': 'chain', 'sample': 1, 't_max': 2}),
    'one-unit-custom-time-rule-three-steps': ('quick', {'plan': 'custom', 'rule': ['tge', 1], 'covs': 'none', 'cens': False, 'lags': 'simple',
                                                        'sample': 1, 't_max': 3}),
    'one-unit-custom-time-and-covariate': ('thorough', {'plan': 'custom', 'rule': ['and', ['tge', 2], ['eq', 'L1', 1]], 'covs': 'one', 'cens': False,
                                                        'lags': 'simple', 'sample': 1, 't_max': 3}),
    'one-unit-custom-covariate': ('thorough', {'plan': 'custom', 'rule': ['or', ['eq', 'L1', 1], ['eq', 'lag_A', 1]], 'covs': 'one', 'cens': True,
                                               'lags': 'chain', 'sample': 1, 't_max': 3}),
    'three-units-all': ('thorough', {'plan': 'all', 'covs': 'none', 'cens': True, 'lags': 'simple', 'sample': 3, 't_max': 2}),
    'two-units-none-three-steps': ('thorough', {'plan': 'none', 'covs': 'none', 'cens': True, 'lags': 'chain', 'sample': 2, 't_max': 3}),
    'two-units-custom-covariate': ('thorough', {'plan': 'custom', 'rule': ['and', ['eq', 'L1', 1], ['not', ['eq', 'lag2_A', 1]]], 'covs': 'one',
                                                'cens': False, 'lags': 'chain', 'sample': 2, 't_max': 2}),
}


def exhaustive_part(ctx, fails):
    for name, (tier, over) in EXHAUSTIVE.items():
        if tier == 'thorough' and ctx.quick:
            continue
        base = {'data_seed': ctx.rng.randrange(2 ** 31), 'np_seed': ctx.rng.randrange(2 ** 31), 'n_ids': 40, 'T_in': 3, 'cont_L2': False,
                'index': 'range', 'weights': False, 'spy': True, 'itt_restriction': False, 'paired': False, 'lm': False}
        base.update(over)
        work, exprs, bits, k, defs = [], [], [], 0, None
        while True:
            spec = dict(base, forced=list(bits), lm=bool(k % 2), paired=(k % 5 == 0))
            jobs = collect(ctx, spec, fails, work, exprs, shared=True)
            if jobs is None:
                break
            if defs is None:
                defs = coq_case(spec, jobs[0][1], 0, None, None, shared='defs')
            m = jobs[0][2]['consumed']
            used = (list(bits) + [0] * m)[:m]
            while used and used[-1] == 1:
                used.pop()
            k += 1
            if not used or k > 20000:
                break
            used[-1] = 1
            bits = used
        ctx.count('exhaustive:%s:streams' % name, k)
        if work:
            evaluate(ctx, work, exprs, fails, PREAMBLE + defs, shard=max(8, len(exprs) // 16 + 1), tag='c13x_' + name.replace('-', '_'), detail=False)


def run(ctx):
    import time
    warnings.showwarning = lambda *a, **k: None      # statsmodels re-enables its rank/convergence warnings
    n = 40 if ctx.quick else 400
    specs = [gen_spec(ctx.rng, k, ctx.quick) for k in range(n)]
    fails = []
    t0 = time.time()
    for i in range(0, len(specs), 80):
        process(ctx, specs[i:i + 80], fails)
    t1 = time.time()
    exhaustive_part(ctx, fails)
    ctx.notes.append('random runs %.0fs, exhaustive tiny runs %.0fs' % (t1 - t0, time.time() - t1))
    report(ctx, fails)


def report(ctx, fails):
    fails.sort(key=lambda f: f[0])
    seen = set()
    for size, key, what, payload in fails:
        if key in seen:
            continue
        seen.add(key)
        n = sum(1 for f in fails if f[1] == key)
        ctx.violation(key, what + ' [%d failing cases]' % n, payload)


def replay(ctx, payload):
    fails = []
    if payload and 'spec' in payload:
        spec = dict(payload['spec'])
        if payload.get('lm') is not None and not spec.get('paired'):
            spec['lm'] = payload['lm']
        process(ctx, [spec], fails)
        report(ctx, fails)
    else:
        run(ctx)
