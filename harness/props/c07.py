"""C07 -- effect measures from counts and from data frames match their definitions."""
import itertools
import json
import math
import os
from fractions import Fraction

import warnings
import numpy as np
import pandas as pd

from common import coq_eval, frac, close, qlit, TOL_ARITH, COQ

PROP_FILE = 'theories/Properties/C07.v'
MODEL_FILES = ['theories/Spec/Measures.v', 'theories/Model/Frames.v']
GEN_GROUPS = ['calc', 'basefit']
RULE = ('count functions: every table 1<=a,b,c,d<=B (B=6 quick, 11 thorough) plus random large/float tables, every '
        'single-cell corruption to 0 / negative must raise; rate functions on random (a,c,t1,t2); data-frame classes on '
        'random frames with 2-4 exposure levels (int/float/str codes), arbitrary reference, missing exposure/outcome/time; '
        'non-trivial = distinct (function, table) or distinct frame signature')
TRUSTED = ['pandas boolean masks and .sum() used by the zepid.base classes (modelled by Model.Frames, exercised by the run)']

ALPHAS = [0.05, 0.01, 0.1, 0.5, 0.2, 0.0125, 1 / 3, 0.05 / 3, 1e-5, 0.999]   # incl. levels that are not round in 1 - alpha/2
F4 = ['risk_ratio', 'risk_difference', 'odds_ratio', 'number_needed_to_treat']


SHOWN = [0]


def sidecar():
    return {s['name']: s for s in json.load(open(os.path.join(COQ, 'gen', 'sidecar.json')))['calc']}


def as_scalar_type(tab, i):
    """the counts as they arrive from a typed column or array: python int, numpy int64 / int32 / int16 (when they fit), float"""
    if not all(float(x) == int(x) for x in tab):
        return tab, 'float'
    m = max(int(x) for x in tab)
    kinds = ['python', 'int64', 'int32', 'int16' if m < 32000 else 'int32', 'float64', 'uint8' if m < 256 else 'int32']
    k = kinds[i % len(kinds)]
    if k == 'python':
        return tuple(int(x) for x in tab), k
    return tuple(getattr(np, k)(int(x)) for x in tab), k


def call_counts(tab, alpha):
    import zepid.calc as zc
    a, b, c, d = tab
    out = {}
    for f in F4:
        try:
            r = getattr(zc, f)(a, b, c, d, alpha=alpha)
            out[f] = [float(r.point_estimate), float(r.lower_bound), float(r.upper_bound), float(r.standard_error)]
        except ValueError:
            out[f] = 'ValueError'
    for f in ('attributable_community_risk', 'population_attributable_fraction'):
        try:
            out[f] = [float(getattr(zc, f)(a, b, c, d))]
        except ValueError:
            out[f] = 'ValueError'
    return out


def call_rates(a, c, t1, t2, alpha):
    import zepid.calc as zc
    out = {}
    for f in ('incidence_rate_ratio', 'incidence_rate_difference'):
        try:
            r = getattr(zc, f)(a, c, t1, t2, alpha=alpha)
            out[f] = [float(r.point_estimate), float(r.lower_bound), float(r.upper_bound), float(r.standard_error)]
        except ValueError:
            out[f] = 'ValueError'
    return out


def limits_ok(vals, alpha, log):
    """C06 on the implementation: limits = est -/+ z * se on the documented scale"""
    from scipy.stats import norm
    est, lo, hi, sd = vals
    z = norm.ppf(1 - alpha / 2)
    if log:
        e_lo, e_hi = math.exp(math.log(est) - z * sd), math.exp(math.log(est) + z * sd)
    else:
        e_lo, e_hi = est - z * sd, est + z * sd
    return abs(lo - e_lo) <= 1e-9 * max(1, abs(e_lo)) and abs(hi - e_hi) <= 1e-9 * max(1, abs(e_hi))


def count_part(ctx, fails):
    B = 6 if ctx.quick else 11
    tabs = [t for t in itertools.product(range(1, B + 1), repeat=4)]
    nrand = 100 if ctx.quick else 1500
    for _ in range(nrand):
        k = ctx.rng.choice(['big', 'float'])
        if k == 'big':
            tabs.append(tuple(ctx.rng.randint(1, 5000) for _ in range(4)))
        else:
            tabs.append(tuple(ctx.rng.randint(1, 4000) / 8.0 for _ in range(4)))
    # near-null tables: equal or almost equal risks in very large arms (RD of order 1e-10 .. 1e-6, RR/OR within 1e-5 of 1),
    # and balanced tables with RD exactly 0 -- the measures are still 1/RD, log-ratios etc., not their limits
    for _ in range(12 if ctx.quick else 120):
        n1 = ctx.rng.choice([10 ** 5, 3 * 10 ** 5, 10 ** 6])
        k = ctx.rng.choice([1, 2, 7, 500, n1 // 2])
        tabs.append((k, n1 - k, k, n1 - k + ctx.rng.choice([0, 1, 3])))
        tabs.append((k + 1, n1 - k - 1, k, n1 - k + ctx.rng.choice([1, 2])))
    side = sidecar() if ctx.gen.get('calc', {}).get('ok') else None
    tr = None
    if side:
        import gen_targets
        tr = gen_targets.load('calc')
    from scipy.stats import norm
    impl, exprs = [], []
    for i, t in enumerate(tabs):
        alpha = ALPHAS[i % len(ALPHAS)]
        targ, tk = as_scalar_type(t, i)
        ctx.count('count arguments passed as:' + tk)
        with warnings.catch_warnings():
            warnings.simplefilter('ignore')
            im = call_counts(targ, alpha)
        impl.append((t, alpha, im))
        q = ' '.join(qlit(x) for x in t)
        twin = '(@nil (list (list Z)))'
        if side:
            parts = []
            for f in F4:
                parts.append('Qoflat (%s_Q %s %s)' % (f, q, qlit(Fraction(str(alpha)))))
            for f in ('attributable_community_risk', 'population_attributable_fraction'):
                parts.append('Qoflat (%s_Q %s)' % (f, q))
            twin = '[' + '; '.join(parts) + ']'
        exprs.append('(Qflat (measures4 %s), %s)' % (q, twin))
    imports = ['Zepid.Base.QUtil', 'Zepid.Spec.Measures'] + (['ZepidGen.Gen_calc_Q'] if side else [])
    res, errs = coq_eval(ctx, 'c07cnt', imports, exprs, shard=250)
    if errs:
        ctx.broken_ties.append('coq evaluation failed: ' + errs[0][1][-300:])
    names = ['rr', 'var_lnrr', 'rd', 'var_rd', 'or', 'var_lnor', 'acr', 'paf']
    for (t, alpha, im), r in zip(impl, res):
        ctx.evaluations += 1
        if r is None:
            continue
        spec = dict(zip(names, [frac(x) for x in r[0][:8]]))
        ctx.count('table:' + ('small' if max(t) <= 11 and all(float(x).is_integer() for x in t) else 'large/float'))
        ctx.nontriv(['cnt', t])
        ctx.programs += 1
        ctx.sample({'table': t, 'alpha': alpha, 'impl_rr': im['risk_ratio'], 'spec_rr': str(spec['rr'])}, cap=2)

        def bad(key, what):
            fails.append((sum(t), key, what, {'table': t, 'alpha': alpha, 'impl': im}))
        if any(v == 'ValueError' for v in im.values()):
            bad('calc.raises', 'a count function raised on the positive table %r' % (t,))
            continue
        chk = [('risk_ratio', 'rr', 'var_lnrr', True), ('risk_difference', 'rd', 'var_rd', False),
               ('odds_ratio', 'or', 'var_lnor', True)]
        for f, pk, vk, log in chk:
            v = im[f]
            if not close(v[0], spec[pk], TOL_ARITH):
                bad('calc.%s.point' % f, '%s%r = %r, definition gives %s' % (f, t, v[0], spec[pk]))
            elif not close(v[3] ** 2, spec[vk], TOL_ARITH):
                bad('calc.%s.se' % f, '%s%r SE^2 = %r, documented variance %s' % (f, t, v[3] ** 2, spec[vk]))
            elif not limits_ok(v, alpha, log):
                bad('calc.%s.ci' % f, '%s%r limits %r/%r are not est -/+ z(1-alpha/2)*SE (alpha=%g)' % (f, t, v[1], v[2], alpha))
        v = im['number_needed_to_treat']
        if spec['rd'] != 0:
            if not close(v[0], 1 / spec['rd'], TOL_ARITH):
                bad('calc.nnt.point', 'NNT%r = %r, 1/RD = %s' % (t, v[0], 1 / spec['rd']))
        elif v[0] != float('inf'):
            bad('calc.nnt.point', 'NNT%r = %r but RD = 0' % (t, v[0]))
        rdv = im['risk_difference']
        for k in (1, 2):
            exp = (1 / rdv[k]) if rdv[k] != 0 else float('inf')
            if not (abs(v[k] - exp) <= 1e-9 * max(1, abs(exp)) or v[k] == exp):
                bad('calc.nnt.ci', 'NNT%r limit %r is not the reciprocal of the RD limit %r' % (t, v[k], rdv[k]))
        if not close(im['attributable_community_risk'][0], spec['acr'], TOL_ARITH):
            bad('calc.acr', 'ACR%r = %r, definition %s' % (t, im['attributable_community_risk'][0], spec['acr']))
        if not close(im['population_attributable_fraction'][0], spec['paf'], TOL_ARITH):
            bad('calc.paf', 'PAF%r = %r, definition %s' % (t, im['population_attributable_fraction'][0], spec['paf']))
        # symmetries on the implementation
        a, b, c, d = t
        sw = call_counts((c, d, a, b), alpha)
        tp = call_counts((a, c, b, d), alpha)
        if sw['risk_difference'] != 'ValueError':
            if abs(sw['risk_difference'][0] + rdv[0]) > 1e-12 or abs(sw['risk_difference'][3] - rdv[3]) > 1e-12:
                bad('calc.swap.rd', 'swapping groups does not negate RD / keep SE for %r' % (t,))
            if abs(sw['risk_ratio'][0] * im['risk_ratio'][0] - 1) > 1e-9 or abs(sw['risk_ratio'][3] - im['risk_ratio'][3]) > 1e-12:
                bad('calc.swap.rr', 'swapping groups does not invert RR / keep SE for %r' % (t,))
            if abs(sw['odds_ratio'][0] * im['odds_ratio'][0] - 1) > 1e-9 or abs(sw['odds_ratio'][3] - im['odds_ratio'][3]) > 1e-12:
                bad('calc.swap.or', 'swapping groups does not invert OR / keep SE for %r' % (t,))
            if abs(tp['odds_ratio'][0] - im['odds_ratio'][0]) > 1e-9 * im['odds_ratio'][0] or abs(tp['odds_ratio'][3] - im['odds_ratio'][3]) > 1e-12:
                bad('calc.transpose.or', 'transposing the table changes OR or its SE for %r' % (t,))
        # translator ties
        if side and r[1]:
            ctx.disagreements_checked += 1
            for f, tw in zip(F4 + ['attributable_community_risk', 'population_attributable_fraction'], r[1]):
                obs = side[f]['qobs']
                rets = side[f]['returns']
                for lab, val in zip(obs, tw):
                    qv = frac(val)
                    if lab.endswith('_sq'):
                        iv = im[f][rets.index(lab[:-3])] ** 2
                    else:
                        iv = im[f][rets.index(lab)]
                    if not close(iv, qv, TOL_ARITH):
                        ctx.broken_ties.append('correspondence: translated %s.%s = %s but implementation gives %r on %r' % (f, lab, qv, iv, t))
                pv = tr[f].pyeval(list(t) + ([alpha] if 'alpha' in side[f]['inputs'] else []), lambda p: norm.ppf(p))
                for x, y in zip(pv or [], im[f]):
                    if not (abs(x - y) <= 1e-9 * max(1, abs(y)) or x == y):
                        ctx.broken_ties.append('correspondence: float evaluation of the translated %s gives %r, implementation %r on %r' % (f, pv, im[f], t))
                        break


def reject_part(ctx, fails):
    import itertools
    import warnings
    import zepid.calc as zc

    def must_reject(f, args, key):
        try:
            with warnings.catch_warnings():
                warnings.simplefilter('ignore')
                getattr(zc, f)(*args)
            fails.append((0, 'calc.%s.accepts-nonpositive' % f, '%s accepted %r (a non-positive cell)' % (f, list(args)), {key: list(args)}))
        except ValueError:
            pass
        except Exception as e:   # noqa  -- failing later for another reason is not a rejection of the input
            fails.append((0, 'calc.%s.accepts-nonpositive' % f, '%s(%r): the non-positive cell was not rejected (it fell through to %s)'
                          % (f, list(args), type(e).__name__), {key: list(args)}))
    n = 40 if ctx.quick else 400
    four = F4 + ['attributable_community_risk', 'population_attributable_fraction']
    for _ in range(n):
        t = [ctx.rng.randint(1, 30) for _ in range(4)]
        pos = ctx.rng.randrange(4)
        t[pos] = ctx.rng.choice([0, -1, -7, 0.0, -0.5])
        ctx.evaluations += 1
        ctx.count('reject:cell')
        for f in four:
            must_reject(f, t, 'table')
        a, c = ctx.rng.randint(1, 30), ctx.rng.randint(1, 30)
        t1, t2 = ctx.rng.uniform(1, 100), ctx.rng.uniform(1, 100)
        args = [a, c, t1, t2]
        pos = ctx.rng.randrange(4)
        args[pos] = ctx.rng.choice([0, -1]) if pos < 2 else -abs(args[pos])
        for f in ('incidence_rate_ratio', 'incidence_rate_difference'):
            must_reject(f, args, 'args')
    # negative person-time of less than one unit (-0.5 person-years is as negative as -5), in either arm and in both
    for tbad in (-0.5, -0.25, -1e-3, -0.999):
        for which in ((2,), (3,), (2, 3)):
            args = [ctx.rng.randint(2, 40), ctx.rng.randint(2, 40), round(ctx.rng.uniform(1, 100), 2), round(ctx.rng.uniform(1, 100), 2)]
            for ppos in which:
                args[ppos] = tbad
            ctx.evaluations += 1
            ctx.count('reject:fractional negative person-time')
            for f in ('incidence_rate_ratio', 'incidence_rate_difference'):
                must_reject(f, args, 'args')
    # every NON-EMPTY set of bad positions (a table with two or four negative cells is as invalid as one with a single one), the bad
    # cells being negative or zero
    for k in range(1, 5):
        for positions in itertools.combinations(range(4), k):
            for bad in (-3, 0):
                t = [ctx.rng.randint(2, 40) for _ in range(4)]
                for ppos in positions:
                    t[ppos] = bad if bad else 0
                ctx.evaluations += 1
                ctx.count('reject:%d bad cells' % k)
                for f in four:
                    must_reject(f, t, 'table')
                if positions == (2, 3) or positions == (0, 1) or k == 1:
                    args = [ctx.rng.randint(2, 40), ctx.rng.randint(2, 40), ctx.rng.uniform(1, 100), ctx.rng.uniform(1, 100)]
                    # event counts: negative or zero; person-time: negative (the documented guard on person-time is non-negativity,
                    # a person-time of exactly 0 is not a cell count and is not judged here)
                    for ppos in positions:
                        args[ppos] = (bad if bad else 0) if ppos < 2 else -abs(args[ppos])
                    for f in ('incidence_rate_ratio', 'incidence_rate_difference'):
                        must_reject(f, args, 'args')
    # every position of the bad cell x every arrangement of small (sparse-table) and large valid cells around it
    for pos in range(4):
        for bad in (0, -2):
            for others in itertools.product((3, 12), repeat=3):
                t = list(others)
                t.insert(pos, bad)
                ctx.evaluations += 1
                ctx.count('reject:systematic')
                for f in four:
                    must_reject(f, t, 'table')
                if pos < 2:
                    for f in ('incidence_rate_ratio', 'incidence_rate_difference'):
                        must_reject(f, [t[0], t[1], 40.5, 77.25], 'args')


def rate_part(ctx, fails):
    n = 150 if ctx.quick else 2000
    impl, exprs = [], []
    for i in range(n):
        a, c = ctx.rng.randint(1, 400), ctx.rng.randint(1, 400)
        t1, t2 = ctx.rng.randint(1, 80000) / 16.0, ctx.rng.randint(1, 80000) / 16.0
        alpha = ALPHAS[i % len(ALPHAS)]
        impl.append(((a, c, t1, t2), alpha, call_rates(a, c, t1, t2, alpha)))
        exprs.append('Qflat (measures_rate %s)' % ' '.join(qlit(x) for x in (a, c, t1, t2)))
    res, errs = coq_eval(ctx, 'c07rate', ['Zepid.Base.QUtil', 'Zepid.Spec.Measures'], exprs, shard=250)
    if errs:
        ctx.broken_ties.append('coq evaluation failed: ' + errs[0][1][-300:])
    for (t, alpha, im), r in zip(impl, res):
        ctx.evaluations += 1
        if r is None:
            continue
        ctx.nontriv(['rate', t])
        ctx.programs += 1
        sp = [frac(x) for x in r]
        for f, pi, vi, log in (('incidence_rate_ratio', 0, 1, True), ('incidence_rate_difference', 2, 3, False)):
            v = im[f]
            if v == 'ValueError':
                fails.append((0, 'calc.%s.raises' % f, '%s raised on %r' % (f, t), {'args': t}))
            elif not close(v[0], sp[pi], TOL_ARITH):
                fails.append((0, 'calc.%s.point' % f, '%s%r = %r, definition %s' % (f, t, v[0], sp[pi]), {'args': t}))
            elif not close(v[3] ** 2, sp[vi], TOL_ARITH):
                fails.append((0, 'calc.%s.se' % f, '%s%r SE^2 = %r, documented %s' % (f, t, v[3] ** 2, sp[vi]), {'args': t}))
            elif not limits_ok(v, alpha, log):
                fails.append((0, 'calc.%s.ci' % f, '%s%r limits not est -/+ z*SE' % (f, t), {'args': t, 'alpha': alpha}))
        a, c, t1, t2 = t
        sw = call_rates(c, a, t2, t1, alpha)
        if abs(sw['incidence_rate_ratio'][0] * im['incidence_rate_ratio'][0] - 1) > 1e-9 or \
                abs(sw['incidence_rate_difference'][0] + im['incidence_rate_difference'][0]) > 1e-9 * max(1, abs(im['incidence_rate_difference'][0])):
            fails.append((0, 'calc.swap.rate', 'swapping groups does not invert IRR / negate IRD for %r' % (t,), {'args': t}))


# ------------------------------------------------------------------------------------------------ frames
def gen_frame(rng):
    nlev = rng.choice([2, 2, 3, 4])
    kind = rng.choice(['int', 'int', 'float', 'str'])
    # level codes are arbitrary numbers: change scores and centred doses are negative, and 0 (the default reference) need not be
    # the smallest level
    codes = rng.sample(range(-3, 7), nlev)
    if rng.random() < 0.4 and 0 not in codes:
        codes[-1] = 0
    rows = []
    for code in codes:
        for yv in (1, 0):
            for _ in range(rng.randint(2, 12)):
                rows.append([code, yv, rng.randint(1, 400) / 4.0])
    miss = rng.choice(['none', 'e', 'y', 't', 'ey', 'all'])
    for _ in range(rng.randint(1, 8) if miss != 'none' else 0):
        code, yv, t = rng.choice(codes), rng.randint(0, 1), rng.randint(1, 400) / 4.0
        m = rng.choice({'e': ['e'], 'y': ['y'], 't': ['t'], 'ey': ['e', 'y', 'ey'], 'all': ['e', 'y', 't', 'ey', 'et', 'yt', 'eyt']}[miss])
        rows.append([None if 'e' in m else code, None if 'y' in m else yv, None if 't' in m else t])
    rng.shuffle(rows)
    ref = rng.choice(codes) if 0 not in codes or rng.random() < 0.5 else 0
    return {'rows': rows, 'codes': codes, 'kind': kind, 'ref': ref, 'miss': miss,
            'index': rng.choice(['range', 'shift', 'str', 'dup']), 'alpha': rng.choice(ALPHAS)}


def enc(kind, code):
    return {'int': code, 'float': code + 0.5, 'str': 'lv%d' % code}[kind]


def frame_df(fr):
    k = fr['kind']
    e = [None if r[0] is None else enc(k, r[0]) for r in fr['rows']]
    if k == 'str':
        e = pd.Series(e, dtype=object)
    else:
        e = pd.Series([np.nan if v is None else v for v in e], dtype=float)
    df = pd.DataFrame({'e': e, 'y': [np.nan if r[1] is None else float(r[1]) for r in fr['rows']],
                       't': [np.nan if r[2] is None else r[2] for r in fr['rows']]})
    n = len(df)
    # a bystander column the analysis does not name, with missing values of its own
    df['cd4'] = [np.nan if (i * 7 + n) % 3 == 0 else 100.0 + i for i in range(n)]
    if fr['index'] == 'shift':
        df.index = range(50, 50 + n)
    elif fr['index'] == 'str':
        df.index = ['i%d' % i for i in range(n)]
    elif fr['index'] == 'dup':
        df.index = [i // 3 for i in range(n)]
    return df


def run_frame(fr):
    import zepid
    df = frame_df(fr)
    k = fr['kind']
    ref = enc(k, fr['ref'])
    if k != 'str':
        ref = float(ref)
    out = {}
    snap = df.copy(deep=True)
    for cls, cols, time in (('RiskRatio', ['RiskRatio', 'SD(RR)', 'RR_LCL', 'RR_UCL', 'Risk', 'SD(Risk)'], False),
                            ('RiskDifference', ['RiskDifference', 'SD(RD)', 'RD_LCL', 'RD_UCL', 'LowerBound', 'UpperBound'], False),
                            ('OddsRatio', ['OddsRatio', 'SD(OR)', 'OR_LCL', 'OR_UCL'], False),
                            ('NNT', ['NNT', 'SD(RD)', 'NNT_LCL', 'NNT_UCL'], False),
                            ('IncidenceRateRatio', ['IncRateRatio', 'SD(IRR)', 'IRR_LCL', 'IRR_UCL', 'IncRate', 'SD(IncRate)'], True),
                            ('IncidenceRateDifference', ['IncRateDiff', 'SD(IRD)', 'IRD_LCL', 'IRD_UCL'], True)):
        obj = getattr(zepid, cls)(reference=ref, alpha=fr['alpha'])
        try:
            if time:
                obj.fit(df, exposure='e', outcome='y', time='t')
            else:
                obj.fit(df, exposure='e', outcome='y')
        except Exception as ex:   # noqa
            out[cls] = {'error': type(ex).__name__ + ': ' + str(ex)[:80]}
            continue
        SHOWN[0] = len(fr['rows']) + len(cls)       # a function of the case, so that a replay makes the same calls
        if SHOWN[0] % 2 == 0:
            # the documented display call between fit() and reading the results must not alter them
            import io
            import contextlib
            with contextlib.redirect_stdout(io.StringIO()):
                try:
                    obj.summary(decimal=[0, 2, 3][SHOWN[0] // 2 % 3])
                except Exception as ex:   # noqa
                    out[cls] = {'error': 'summary(): ' + type(ex).__name__ + ': ' + str(ex)[:80]}
                    continue
        res = obj.results
        o = {'levels': {}, 'miss': [obj._missing_e, obj._missing_d, obj._missing_ed]}
        for code in fr['codes']:
            v = enc(k, code)
            lab = str(float(v)) if k != 'str' else str(v)
            if code == fr['ref']:
                lab = 'Ref:' + lab
            if lab not in res.index:
                o['levels'][code] = None
                continue
            o['levels'][code] = [None if res.loc[lab, c] is None or (isinstance(res.loc[lab, c], float) and math.isnan(res.loc[lab, c]))
                                 else float(res.loc[lab, c]) for c in cols]
        out[cls] = o
    out['mutated'] = not snap.equals(df)
    return out


def coq_frows(fr):
    def o(v, f):
        return 'None' if v is None else 'Some ' + f(v)
    return '[' + '; '.join('{| fe := %s; fy := %s; ft := %s |}' % (
        o(r[0], lambda v: '(%d)%%Z' % v), o(r[1], lambda v: 'true' if v else 'false'), o(r[2], qlit)) for r in fr['rows']) + ']'


def frame_part(ctx, fails):
    n = 40 if ctx.quick else 500
    frame_part_list(ctx, fails, [gen_frame(ctx.rng) for _ in range(n)])


def frame_part_list(ctx, fails, frames):
    exprs = []
    for fr in frames:
        lv = [c for c in fr['codes'] if c != fr['ref']]
        exprs.append('let rows := %s in (Qflat (missing_counts rows), [%s], [%s])' % (
            coq_frows(fr),
            '; '.join('Qflat (measures_for rows (%d)%%Z (%d)%%Z)' % (fr['ref'], l) for l in lv),
            '; '.join('Qflat (rates_for rows (%d)%%Z (%d)%%Z)' % (fr['ref'], l) for l in lv)))
    res, errs = coq_eval(ctx, 'c07fr', ['Zepid.Base.QUtil', 'Zepid.Spec.Measures', 'Zepid.Model.Frames'], exprs, shard=25)
    if errs:
        ctx.broken_ties.append('coq evaluation failed: ' + errs[0][1][-300:])
    for fr, r in zip(frames, res):
        ctx.evaluations += 1
        if r is None:
            continue
        im = run_frame(fr)
        ctx.count('frame:levels=%d' % len(fr['codes']))
        ctx.count('frame:kind=' + fr['kind'])
        ctx.count('frame:miss=' + fr['miss'])
        ctx.nontriv(['frame', fr['rows'], fr['ref'], fr['kind']])
        ctx.programs += 1
        ctx.sample({'frame_rows': len(fr['rows']), 'levels': fr['codes'], 'ref': fr['ref'], 'kind': fr['kind'], 'missing': fr['miss']}, cap=4)
        payload = {'frame': fr}
        size = len(fr['rows'])
        miss = [frac(x) for x in r[0]]
        if im.get('mutated'):
            fails.append((size, 'base.mutated', 'an effect-measure class modified the input frame', payload))
        lv = [c for c in fr['codes'] if c != fr['ref']]
        for cls in ('RiskRatio', 'RiskDifference', 'OddsRatio', 'NNT', 'IncidenceRateRatio', 'IncidenceRateDifference'):
            o = im[cls]
            if 'error' in o:
                fails.append((size, 'base.%s.raises' % cls, '%s.fit raised %s on a frame whose cells are all positive' % (cls, o['error']), payload))
                continue
            if [Fraction(x) for x in o['miss']] != miss:
                fails.append((size, 'base.%s.missing-counters' % cls, '%s missing counters %r, specification %s' % (cls, o['miss'], [str(m) for m in miss]), payload))
            for l, mq, rq in zip(lv, r[1], r[2]):
                got = o['levels'].get(l)
                if got is None:
                    fails.append((size, 'base.%s.level-missing' % cls, '%s has no row for exposure level %r' % (cls, l), payload))
                    continue
                m = [frac(x) for x in mq]     # a b c d rr var_lnrr rd var_rd or var_lnor acr paf risk var_risk risk0 var_risk0
                q = [frac(x) for x in rq]     # a c t1 t2 irr var_lnirr ird var_ird ir var_ir ir0 var_ir0
                exp = {'RiskRatio': (m[4], m[5]), 'RiskDifference': (m[6], m[7]), 'OddsRatio': (m[8], m[9]),
                       'NNT': ((1 / m[6]) if m[6] != 0 else None, m[7]),
                       'IncidenceRateRatio': (q[4], q[5]), 'IncidenceRateDifference': (q[6], q[7])}[cls]
                if not close(got[0], exp[0], TOL_ARITH) or not close(got[1] ** 2, exp[1], TOL_ARITH):
                    fails.append((size, 'base.%s.value' % cls,
                                  '%s level %r vs reference %r: estimate %r (SE^2 %r) but the count function on the cross-tabulation of '
                                  'complete rows gives %s (variance %s)' % (cls, l, fr['ref'], got[0], got[1] ** 2,
                                                                             exp[0], exp[1]), payload))
                    continue
                if cls != 'NNT' and not limits_ok([got[0], got[2], got[3], got[1]], fr['alpha'], cls in ('RiskRatio', 'OddsRatio', 'IncidenceRateRatio')):
                    fails.append((size, 'base.%s.ci' % cls, '%s limits are not est -/+ z*SE at alpha=%g' % (cls, fr['alpha']), payload))
                if cls == 'RiskDifference' and len(got) >= 6 and got[4] is not None:
                    # the no-assumption bounds of a level: r1*p - r0*(1-p) - p and r1*p + (1-p) - r0*(1-p), p = (a+b)/n with n the rows
                    # observed on exposure AND outcome -- rows missing either (or both) are not data of this table
                    ncomp = sum(1 for rw in fr['rows'] if rw[0] is not None and rw[1] is not None)
                    pe = (m[0] + m[1]) / ncomp
                    r1_, r0_ = m[0] / (m[0] + m[1]), m[2] / (m[2] + m[3])
                    lo_, hi_ = r1_ * pe - r0_ * (1 - pe) - pe, r1_ * pe + (1 - pe) - r0_ * (1 - pe)
                    if not (close(got[4], lo_, TOL_ARITH) and close(got[5], hi_, TOL_ARITH)):
                        fails.append((size, 'base.RiskDifference.bounds', 'RiskDifference level %r vs reference %r: LowerBound/UpperBound %r/%r, from the '
                                      'cross-tabulation of the %d complete rows %s/%s' % (l, fr['ref'], got[4], got[5], ncomp, lo_, hi_), payload))
                if cls == 'RiskRatio' and not (close(got[4], m[12], TOL_ARITH) and close(got[5] ** 2, m[13], TOL_ARITH)):
                    fails.append((size, 'base.RiskRatio.risk', 'Risk / SD(Risk) column differs from a/(a+b)', payload))
                if cls == 'IncidenceRateRatio' and not (close(got[4], q[8], TOL_ARITH) and close(got[5] ** 2, q[9], TOL_ARITH)):
                    fails.append((size, 'base.IncidenceRateRatio.rate', 'IncRate column %r differs from events/person-time of complete rows %s'
                                  % (got[4], q[8]), payload))


def run(ctx):
    fails = []
    count_part(ctx, fails)
    reject_part(ctx, fails)
    rate_part(ctx, fails)
    frame_part(ctx, fails)
    report(ctx, fails)


def report(ctx, fails):
    fails.sort(key=lambda f: f[0])
    seen = set()
    for size, key, what, payload in fails:
        if key in seen:
            continue
        seen.add(key)
        n = sum(1 for f in fails if f[1] == key)
        ctx.violation(key, what + ' [%d failing cases]' % n, payload)


def replay(ctx, payload):
    fails = []
    if payload and 'frame' in payload:
        frame_part_list(ctx, fails, [payload['frame']])
    else:
        count_part(ctx, fails)
        rate_part(ctx, fails)
        reject_part(ctx, fails)
    report(ctx, fails)
