"""C05 -- inverse probability weights (IPTW, StochasticIPTW, IPMW, IPCW) equal their documented definitions."""
import json
import math
import os

import numpy as np
import pandas as pd

from fractions import Fraction

from common import coq_eval, frac, close, qlit, TOL_ARITH, TOL_FIT, COQ
import datagen
import est_common as ec

PROP_FILE = 'theories/Properties/C05.v'
MODEL_FILES = ['theories/Spec/WeightSpec.v', 'theories/Model/Ipw.v', 'theories/Model/IpwRun.v']
GEN_GROUPS = ['weights', 'siptw']
RULE = ('IPTW (n 40-80): frames with continuous + categorical predictors (separated / near-separated draws rejected: every '
        'needed logistic fit must converge with predictions in [1e-4, 1-1e-4]), EVERY stabilized x standardize x numerator-model '
        '(constant / covariate) x bound (none / symmetric float that bites / asymmetric pair that bites / unreached) combination '
        '= 36 per frame, optional frequency-weight column, all index kinds; IPTW.missing_model stabilized x bound; StochasticIPTW '
        '(n 24-36): marginal and conditional plans (exclusive+exhaustive with 2 and 3 conditions, non-exhaustive, overlapping), '
        'p incl. 0 and 1, optional weights; IPMW (n 40-90): monotone patterns over 1-3 variables (distinct, uniform-all, '
        'uniform-first-pair, uniform-last-pair, str / list argument, fewer models than variables), stabilized or not, '
        'stratum-saturated models for the telescoping identity, index kinds range/shift/shuffle/float/str/dup, plus the two '
        'uniformity predicates called directly; IPCW (14-30 subjects, <= 5 visits): long data, shuffled / reversed / sorted / grouped-by-id-but-time-permuted input, '
        'equal times across subjects, duplicated (id,time) keys, events before the last row, integer and half-integer time grids, '
        'all index kinds, a second permutation of every input.  Every row of every case is compared (tol 1e-9, inside Coq) with the '
        'model AND the specification evaluated at the code\'s own fitted probabilities; non-trivial = distinct (class, options, '
        'data signature); quick = 6+4+10+64+24 frames, thorough = 40+24+80+600+200')
TRUSTED = ['oracle: statsmodels GLM(Binomial) returns the logistic MLE -- assumed only through its predictions; validated on '
           'every fit by the score equations sum_i w_i x_i (y_i - p_i) = 0 (|.| <= 1e-6 x scale) on the patsy design',
           'oracle: DataFrame.sort_values([id, time]) returns a sorted permutation of its input (validated on every IPCW case)',
           'pandas groupby(id).cumprod / np.where / Series alignment (modelled by Model.Ipw, exercised by the run)',
           'spies installed by the harness at run time: zepid.causal.ipw.IPMW.propensity_score, '
           'zepid.causal.ipw.IPTW.propensity_score (records every fit and its predictions), numpy.average during '
           'StochasticIPTW.fit (records the per-row weights)']

TARGETS = {'population': 'Population', 'exposed': 'Exposed', 'unexposed': 'Unexposed'}
SEP_EPS = 1e-4
IMPORTS = ['Zepid.Base.QSum', 'Zepid.Base.QUtil', 'Zepid.Model.Bounds', 'Zepid.Spec.WeightSpec', 'Zepid.Model.Ipw',
           'Zepid.Model.IpwRun']
TOLQ = '(1 # 1000000000)'       # TOL_ARITH as a Coq rational
TOLFITQ = '(1 # 1000000)'       # TOL_FIT


# ----------------------------------------------------------------------------------------------- helpers
def b(x):
    return 'true' if x else 'false'


def frame_to_case(df):
    return {'columns': {c: [None if (isinstance(v, float) and v != v) else (v.item() if hasattr(v, 'item') else v)
                            for v in df[c].tolist()] for c in df.columns},
            'index': [i.item() if hasattr(i, 'item') else i for i in df.index.tolist()]}


def case_to_frame(cs):
    df = pd.DataFrame({c: [np.nan if v is None else v for v in vals] for c, vals in cs['columns'].items()})
    df.index = cs['index']
    return df


def score_residual(rhs, df, y, p, w=None):
    """max_j |sum_i w_i x_ij (y_i - p_i)| / scale_j on the patsy design of `rhs`"""
    import patsy
    X = np.asarray(patsy.dmatrix(rhs, df, return_type='dataframe'), dtype=float)
    y = np.asarray(y, dtype=float)
    if X.shape[0] != len(y):            # patsy cannot size an intercept-only design from the data
        X = np.ones((len(y), 1))
    p = np.asarray(p, dtype=float)
    w = np.ones(len(y)) if w is None else np.asarray(w, dtype=float)
    s = X.T @ (w * (y - p))
    scale = np.maximum(1.0, np.abs(X).T @ w)
    return float(np.max(np.abs(s) / scale))


class FitSpy:
    """wraps `propensity_score` of a zepid module: records formula, training frame, fitted model, every predict()"""

    def __init__(self, module):
        self.module = module
        self.records = []

    def __enter__(self):
        self.orig = self.module.propensity_score
        spy = self

        def wrapped(df, model, weights=None, print_results=True):
            fm = spy.orig(df, model, weights=weights, print_results=print_results)
            rec = {'formula': model, 'train': df.copy(), 'fm': fm, 'preds': [], 'weights': weights}
            spy.records.append(rec)
            return _Proxy(fm, rec)
        self.module.propensity_score = wrapped
        return self

    def __exit__(self, *a):
        self.module.propensity_score = self.orig
        return False


class _Proxy:
    def __init__(self, fm, rec):
        self._fm, self._rec = fm, rec

    def predict(self, d, *a, **k):
        out = self._fm.predict(d, *a, **k)
        self._rec['preds'].append(np.asarray(out, dtype=float).copy())
        return out

    def __getattr__(self, name):
        return getattr(self._fm, name)


def sidecar():
    return {s['name']: s for s in json.load(open(os.path.join(COQ, 'gen', 'sidecar.json'))).get('weights', [])}


def fl(x):
    return [float(v) for v in np.asarray(x, dtype=float).ravel()]


def ql(x):
    """exact Coq rational of a python number; floats (dyadic) as  dy m e = m / 2^e  (half the digits to parse)"""
    fr = Fraction(x)
    e = fr.denominator.bit_length() - 1
    if fr.denominator == 1 << e and e <= 1100:
        return 'dy (%d) %d' % (fr.numerator, e)
    return qlit(fr)


def qls(xs):
    return '[' + '; '.join(ql(x) for x in xs) + ']'


def oqls(xs):
    """floats with NaN -> list (option Q)"""
    return '[' + '; '.join('None' if x != x else 'Some (%s)' % ql(x) for x in xs) + ']'


def bls(xs):
    return '[' + '; '.join(b(x) for x in xs) + ']'


def nls(xs):
    return '[' + '; '.join('%d' % x for x in xs) + ']%nat'


def finite(xs):
    return all(x == x and abs(x) != float('inf') for x in xs)


def par_eval(ctx, jobs, workers=4):
    """jobs: (tag, imports, cases, shard, preamble); several coq_eval calls at once (each spawns coqc processes)"""
    from concurrent.futures import ThreadPoolExecutor
    with ThreadPoolExecutor(max_workers=workers) as ex:
        futs = [ex.submit(coq_eval, ctx, tag, imports, cases, shard, 900, pre) for tag, imports, cases, shard, pre in jobs]
        return [f.result() for f in futs]


def diag_eval(ctx, expr, preamble='', nbool=False):
    """print the expected values of one row (only for the case that gets reported)"""
    res, errs = coq_eval(ctx, 'c05diag', IMPORTS + ['ZepidGen.Gen_weights_Q'], [expr], shard=1, preamble=preamble)
    if errs or res[0] is None:
        return 'n/a'
    out = []
    for v in res[0]:
        if len(v) == 2 and v[1] > 0 and not (nbool and v is res[0][-1]):
            out.append(repr(float(Fraction(v[0], v[1]))))
        elif v == [0, 0] and not (nbool and v is res[0][-1]):
            out.append('NaN')
        else:
            out.append(v)
    return out


# =============================================================================================== IPTW
def gen_iptw_case(ctx, missing=False):
    r = ctx.rng
    for attempt in range(50):
        df, meta = datagen.mixed_frame(r, n=r.randint(40, 80), outcome=r.choice(['binary', 'binary', 'normal']),
                                       missing='mar' if missing else None, n_cat=r.choice([1, 1, 2]))
        df['fw'] = [r.choice([1, 1, 2, 3]) for _ in range(len(df))]
        df, kind = datagen.reindex(df, r)
        use_w = (not missing) and r.random() < 0.25
        cs = {'part': 'iptw-missing' if missing else 'iptw', 'frame': frame_to_case(df), 'rhs': meta['rhs'],
              'numers': ['1', meta['covs'][-1]], 'index_kind': kind, 'weights': 'fw' if use_w else None,
              'seed_bounds': r.random()}
        if not separated(cs):
            return cs
        ctx.count('rejected-separated-draw')
    raise RuntimeError('no non-separated draw in 50 attempts')


def separated(cs):
    """reject draws for which a logistic MLE does not (numerically) exist"""
    import statsmodels.api as sm
    import statsmodels.formula.api as smf
    df = case_to_frame(cs['frame'])
    try:
        forms = ['A ~ ' + cs['rhs']] + ['A ~ ' + m for m in cs['numers']]
        if cs['part'] == 'iptw-missing':
            df['_m_'] = df['Y'].notnull().astype(int)
            forms += ['_m_ ~ A + ' + cs['rhs'], '_m_ ~ A']
        for f in forms:
            kw = {'freq_weights': df[cs['weights']]} if cs.get('weights') else {}
            fm = smf.glm(f, df, family=sm.families.family.Binomial(), **kw).fit()
            p = np.asarray(fm.predict(df))
            if not fm.converged or p.min() < SEP_EPS or p.max() > 1 - SEP_EPS:
                return True
    except Exception:   # noqa  (PerfectSeparationError and friends)
        return True
    return False


def bounds_for(raw_d, u):
    """bound specs chosen from the fitted probabilities so that clipping really happens"""
    lo_q, hi_q = float(np.quantile(raw_d, 0.25)), float(np.quantile(raw_d, 0.75))
    sym = round(min(lo_q, 1 - hi_q) + 0.02 * u, 3)
    sym = min(max(sym, 0.02), 0.49)
    lo, hi = round(lo_q, 3), round(hi_q, 3)
    if not (0 < lo < hi < 1):
        lo, hi = 0.2, 0.8
    return [('none', False, None), ('sym', sym, (sym, 1 - sym)), ('pair', [lo, hi], (lo, hi)),
            ('unreached', 1e-6, (1e-6, 1 - 1e-6))]


def run_iptw(cs, stab, std, numer, bound, fails, size):
    from zepid.causal.ipw import IPTW
    df = case_to_frame(cs['frame'])
    try:
        ip = IPTW(df, 'A', 'Y', weights=cs['weights'], standardize=std)
        ip.treatment_model(cs['rhs'], model_numerator=numer, stabilized=stab, bound=bound, print_results=False)
        if ec.should_poke(df):
            ec.poke(ip)        # displays / diagnostics / plots: the exposed weights are read afterwards
        return {'a': [int(v) for v in ip.df['A']], 'd': fl(ip.df['__denom__']), 'n': fl(ip.df['__numer__']),
                'w': fl(ip.iptw), 'df': ip.df}
    except Exception as e:   # noqa
        fails.append((size, 'IPTW.treatment_model.raises', 'IPTW(standardize=%r).treatment_model(%r, model_numerator=%r, '
                      'stabilized=%r, bound=%r) raised %s: %s' % (std, cs['rhs'], numer, stab, bound, type(e).__name__, str(e)[:120]),
                      dict(cs, combo=[stab, std, numer, repr(bound)])))
        return None


def iptw_part(ctx, fails, cases):
    side = sidecar() if ctx.gen.get('weights', {}).get('ok') else {}
    jobs, work = [], []
    for cs in cases:
        size = len(cs['frame']['index'])
        ctx.evaluations += 1
        ctx.count('iptw-index:' + cs['index_kind'])
        ctx.count('iptw-weights:' + str(cs['weights']))
        # raw (unbounded) probabilities per numerator model
        raw = {}
        for numer in cs['numers']:
            o = run_iptw(cs, True, 'population', numer, False, fails, size)
            if o is None:
                break
            raw[numer] = o
        if len(raw) != len(cs['numers']):
            continue
        raw_d = raw['1']['d']
        a = raw['1']['a']
        n = len(a)
        fw = np.asarray(raw['1']['df'][cs['weights']], dtype=float) if cs['weights'] else None
        # oracle validation: score equations of every fit
        for numer in cs['numers']:
            for rhs, p in ((cs['rhs'], raw[numer]['d']), (numer, raw[numer]['n'])):
                res = score_residual(rhs, raw[numer]['df'], a, p, fw)
                ctx.oracle_checks += 1
                if res > 1e-6:
                    ctx.broken_ties.append('oracle: logistic score equations not solved for A ~ %s (residual %.3g)' % (rhs, res))
        # one Coq case per frame: shared vectors are let-bound once, every combination is one entry of the result list
        lets = ['Definition a := %s.' % bls(a), 'Definition rd := %s.' % qls(raw_d), 'Definition ones : list Q := repeat 1 %d.' % n]
        for k, numer in enumerate(cs['numers']):
            lets.append('Definition rn%d := %s.' % (k, qls(raw[numer]['n'])))
        entries, combos = [], []
        for bi, (bname, bound, lohi) in enumerate(bounds_for(raw_d, cs['seed_bounds'])):
            bq = 'None' if lohi is None else 'Some (%s, %s)' % (ql(lohi[0]), ql(lohi[1]))
            dname = None
            for stab in (True, False):
                for k, numer in (list(enumerate(cs['numers'])) if stab else [(0, '1')]):
                    nname = None
                    for std in ('population', 'exposed', 'unexposed'):
                        o = run_iptw(cs, stab, std, numer, bound, fails, size)
                        if o is None:
                            continue
                        payload = dict(cs, combo=[stab, std, numer, repr(bound)])
                        lab = 'IPTW(standardize=%r).treatment_model(stabilized=%r, model_numerator=%r, bound=%r)' % (std, stab, numer, bound)
                        if o['a'] != a or len(o['d']) != n or len(o['w']) != n or not finite(o['w']) or not finite(o['d']):
                            fails.append((size, 'IPTW.weight.shape', '%s: weights/probabilities are not n finite numbers in row order' % lab, payload))
                            continue
                        if not stab and any(v != 1.0 for v in o['n']):
                            ctx.count('note:unstabilized+bound leaves __numer__ != 1 (weights do not read it)')
                        # the vectors of probabilities used depend on (bound) resp. (bound, numerator) only: bind once, check equality
                        if dname is None:
                            dname = 'd%d' % bi
                            lets.append('Definition %s := %s.' % (dname, qls(o['d'])))
                            dvals = o['d']
                        elif o['d'] != dvals:
                            fails.append((size, 'IPTW.probabilities.unstable', '%s: __denom__ differs from the run with another standardize' % lab, payload))
                            continue
                        if stab:
                            if nname is None:
                                nname = 'n%d_%d' % (bi, k)
                                lets.append('Definition %s := %s.' % (nname, qls(o['n'])))
                                nvals = o['n']
                            elif o['n'] != nvals:
                                fails.append((size, 'IPTW.probabilities.unstable', '%s: __numer__ differs from the run with another standardize' % lab, payload))
                                continue
                        name = 'iptw_%s_%s' % ('stab' if stab else 'unstab', std)
                        tw = 'None'
                        if name in side and set(side[name]['inputs']) <= {'d', 'n'}:
                            tw = 'Some (fun a d n => %s_Q a %s)' % (name, ' '.join(side[name]['inputs']))
                        elif side:
                            ctx.broken_ties.append('correspondence: translated %s has inputs the harness cannot supply' % name)
                        entries.append('iptw_chk %s %s %s (%s) (%s) 0 a rd %s %s %s %s'
                                       % (TOLQ, b(stab), TARGETS[std], bq, tw, 'rn%d' % k if stab else 'ones', dname,
                                          nname if stab else 'ones', qls(o['w'])))
                        nclip = sum(1 for x, y in zip(raw_d, o['d']) if x != y)
                        combos.append((stab, std, numer, bname, bound, lohi, o, nclip, lab, payload, tw != 'None', k))
        # the frame's shared vectors are top-level definitions of a per-frame preamble, every combination is one case
        jobs.append(('c05a%d' % len(work), IMPORTS + ['ZepidGen.Gen_weights_Q'], entries, max(1, (len(entries) + 3) // 4),
                     'Open Scope Q_scope.\n' + '\n'.join(lets)))
        work.append([cs, a, raw, raw_d, combos, size])
    for wk, (r, errs) in zip(work, par_eval(ctx, jobs)):
        if errs:
            ctx.broken_ties.append('coq evaluation failed (iptw): ' + errs[0][1][-300:])
        wk.append(r)
    what = {0: 'vector lengths differ', 1: 'probabilities', 2: 'model', 3: 'spec', 4: 'twin'}
    for (cs, a, raw, raw_d, combos, size, r) in work:
        if len(r) != len(combos):
            continue
        for (stab, std, numer, bname, bound, lohi, o, nclip, lab, payload, has_tw, k), bad in zip(combos, r):
            if bad is None:
                continue
            ctx.programs += 1
            combo = 'stab=%s,std=%s,numer=%s,bound=%s' % (stab, std, 'const' if numer == '1' else 'cov', bname)
            ctx.count('iptw:' + combo)
            if bname in ('sym', 'pair'):
                ctx.count('iptw-bound-bites' if nclip else 'iptw-bound-idle')
            ctx.nontriv(['iptw', combo, o['d'][:4], o['a'][:8]])
            ctx.sample({'class': 'IPTW', 'combo': combo, 'n': size, 'w[:3]': o['w'][:3]}, cap=2)
            ctx.disagreements_checked += len(a) * (3 + (1 if has_tw else 0))
            if not bad:
                continue
            i, code = bad[0]
            rn = raw[numer]['n'][i] if stab else 1.0
            un = o['n'][i] if stab else 1.0
            bq = 'None' if lohi is None else 'Some (%s, %s)' % (ql(lohi[0]), ql(lohi[1]))
            dexpr = 'iptw_val %s %s (%s) %s (%s) (%s) (%s) (%s)' % (b(stab), TARGETS[std], bq, b(a[i]), ql(raw_d[i]), ql(rn), ql(o['d'][i]), ql(un))
            sv = '%s.%s' % ('stab' if stab else 'unstab', std)
            msg = '%s: row %d (A=%d, fitted d=%r n=%r): uses d=%r n=%r, weight %r' % (lab, i, a[i], raw_d[i], rn, o['d'][i], o['n'][i], o['w'][i])
            if code == 4:
                ctx.broken_ties.append('correspondence: translated iptw_%s_%s disagrees with the implementation (%s)' % ('stab' if stab else 'unstab', std, msg))
                continue
            key = {0: 'IPTW.weight.shape', 1: 'IPTW.probabilities.%s' % ('bound' if bname != 'none' else 'values'),
                   2: 'IPTW.weight.model.' + sv, 3: 'IPTW.weight.spec.' + sv}[code]
            fails.append((size, key, msg + ' -- disagrees with the %s' % what[code], payload,
                          lambda e=dexpr: ' [expected clip d, clip n, model weight, documented weight = %s]' % diag_eval(ctx, e)))


# --------------------------------------------------------------------------------- IPTW.missing_model
def missing_part(ctx, fails, cases):
    import importlib
    mod = importlib.import_module('zepid.causal.ipw.IPTW')
    from zepid.causal.ipw import IPTW
    exprs, work = [], []
    for cs in cases:
        size = len(cs['frame']['index'])
        ctx.evaluations += 1
        df = case_to_frame(cs['frame'])
        for stab in (True, False):
            for bname, bound, lohi in (('none', False, None), ('sym', 0.25, (0.25, 0.75)), ('pair', [0.1, 0.8], (0.1, 0.8))):
                payload = dict(cs, combo=[stab, repr(bound)])
                try:
                    with FitSpy(mod) as spy:
                        ip = IPTW(df, 'A', 'Y')
                        ip.treatment_model(cs['rhs'], print_results=False)
                        k0 = len(spy.records)
                        w_t = fl(ip.iptw)
                        ip.missing_model('A + ' + cs['rhs'], stabilized=stab, bound=bound, print_results=False)
                        recs = spy.records[k0:]
                    # diagnostics with both weight choices (iptw_only=True / False), then the exposed weights are read
                    ec.poke(ip)
                    if not np.allclose(np.asarray(fl(ip.iptw), dtype=float), np.asarray(w_t, dtype=float), rtol=1e-12, atol=0, equal_nan=True):
                        fails.append((size, 'IPTW.iptw.changed-by-diagnostics', 'IPTW.iptw after positivity / standardized_mean_differences / '
                                      'plot_love / run_diagnostics (iptw_only True and False) differs from the weights treatment_model() exposed', payload))
                except Exception as e:   # noqa
                    fails.append((size, 'IPTW.missing_model.raises', 'IPTW.missing_model(stabilized=%r, bound=%r) raised %s: %s'
                                  % (stab, bound, type(e).__name__, str(e)[:120]), payload))
                    continue
                obs = [int(v) for v in ip.df['__missing_indicator__']]
                d = fl(recs[0]['preds'][-1])
                n = fl(recs[1]['preds'][-1]) if stab else [1.0] * len(d)
                for rec in recs:
                    rhs = rec['formula'].split('~')[1]
                    ctx.oracle_checks += 1
                    res = score_residual(rhs, rec['train'], rec['train']['__missing_indicator__'], rec['fm'].predict(rec['train']))
                    if res > 1e-6:
                        ctx.broken_ties.append('oracle: score equations not solved for %s (residual %.3g)' % (rec['formula'], res))
                bq = 'None' if lohi is None else 'Some (%s, %s)' % (ql(lohi[0]), ql(lohi[1]))
                clip = '(fun v => v)' if lohi is None else '(clip1 (%s) (%s))' % (ql(lohi[0]), ql(lohi[1]))
                w = fl(ip.ipmw)
                exprs.append('miss_chk %s %s (%s) %s 0 %s %s %s %s' % (TOLQ, b(stab), bq, clip, bls(obs), qls(d), qls(n), oqls(w)))
                work.append((payload, stab, bname, bound, w, obs, d, n, size))
    res, errs = coq_eval(ctx, 'c05m', IMPORTS, exprs, shard=3)
    if errs:
        ctx.broken_ties.append('coq evaluation failed (missing_model): ' + errs[0][1][-300:])
    for (payload, stab, bname, bound, w, obs, d, n, size), r in zip(work, res):
        if r is None:
            continue
        ctx.programs += 1
        ctx.count('iptw-missing:stab=%s,bound=%s' % (stab, bname))
        ctx.nontriv(['iptw-missing', stab, bname, w[:5]])
        ctx.disagreements_checked += 2 * len(w)
        if r:
            i, code = r[0]
            fails.append((size, 'IPTW.missing_model.weight', 'IPTW.missing_model(stabilized=%r, bound=%r): row %d (outcome observed=%d, fitted '
                          'P(observed)=%r, numerator %r) has ipmw %r; disagrees with the %s'
                          % (stab, bound, i, obs[i], d[i], n[i], w[i], {0: 'vector lengths', 2: 'model', 3: 'documented n/d'}[code]), payload))


# =============================================================================================== StochasticIPTW
def gen_stoch_case(ctx):
    r = ctx.rng
    for attempt in range(50):
        df, meta = datagen.mixed_frame(r, n=r.randint(24, 36), outcome=r.choice(['binary', 'normal']), n_cat=1, n_cont=1)
        df['fw'] = [r.choice([1, 1, 2, 3]) for _ in range(len(df))]
        df, kind = datagen.reindex(df, r)
        cs = {'part': 'stochastic', 'frame': frame_to_case(df), 'rhs': meta['rhs'], 'numers': [], 'index_kind': kind,
              'weights': 'fw' if r.random() < 0.3 else None}
        if separated(cs):
            ctx.count('rejected-separated-draw')
            continue
        cut = round(float(np.median(df['W0'])), 2)
        p = lambda: r.choice([round(r.uniform(0.05, 0.95), 2), round(r.random(), 3), 0.0, 1.0, 0.5])   # noqa: E731
        cs['plans'] = [
            {'kind': 'marginal', 'p': p(), 'cond': None},
            {'kind': 'marginal', 'p': round(r.uniform(0.05, 0.95), 2), 'cond': None},
            {'kind': 'exclusive', 'p': [p(), p()], 'cond': ["df['W0']>%r" % cut, "df['W0']<=%r" % cut]},
            {'kind': 'exclusive3', 'p': [p(), p(), p()],
             'cond': ["(df['C0']==0) & (df['W0']>%r)" % cut, "df['C0']>=1", "(df['C0']==0) & (df['W0']<=%r)" % cut]},
            {'kind': 'nonexhaustive', 'p': [p()], 'cond': ["df['W0']>%r" % cut]},
            {'kind': 'overlapping', 'p': [p(), p(), p()], 'cond': ["df['W0']>%r" % (cut - 0.5), "df['C0']==0", "df['W0']>%r" % (cut + 0.4)]},
        ]
        return cs
    raise RuntimeError('no non-separated draw in 50 attempts')


def stoch_part(ctx, fails, cases):
    from zepid.causal.ipw import StochasticIPTW
    jobs, work = [], []
    for cs in cases:
        df = case_to_frame(cs['frame'])
        size = len(df)
        ctx.evaluations += 1
        try:
            sp = StochasticIPTW(df, 'A', 'Y', weights=cs['weights'])
            sp.treatment_model(cs['rhs'], print_results=False)
        except Exception as e:   # noqa
            fails.append((size, 'StochasticIPTW.treatment_model.raises', 'raised %s: %s' % (type(e).__name__, str(e)[:120]), cs))
            continue
        pd_ = fl(sp._pdenom_)
        a = [int(v) for v in sp.df['A']]
        y = fl(sp.df['Y'])
        w = fl(sp.df[cs['weights']]) if cs['weights'] else [1.0] * len(a)
        ctx.oracle_checks += 1
        res = score_residual(cs['rhs'], sp.df, a, pd_, w if cs['weights'] else None)
        if res > 1e-6:
            ctx.broken_ties.append('oracle: score equations not solved for A ~ %s (residual %.3g)' % (cs['rhs'], res))
        lets = ['Open Scope Q_scope.\nDefinition a := %s.\nDefinition y := %s.\nDefinition pd := %s.\nDefinition w := %s.' % (bls(a), qls(y), qls(pd_), qls(w))]
        entries, plans = [], []
        for plan in cs['plans']:
            payload = dict(cs, plans=[plan])
            rec = []
            orig = np.average

            def spy(arr, axis=None, weights=None, **kw):
                rec.append(None if weights is None else np.asarray(weights, dtype=float).copy())
                return orig(arr, axis=axis, weights=weights, **kw)
            np.average = spy
            try:
                sp.fit(p=plan['p'], conditional=plan['cond'])
                mo = float(sp.marginal_outcome)
            except Exception as e:   # noqa
                fails.append((size, 'StochasticIPTW.fit.raises.' + plan['kind'], 'StochasticIPTW.fit(p=%r, conditional=%r) raised %s: %s'
                              % (plan['p'], plan['cond'], type(e).__name__, str(e)[:120]), payload))
                continue
            finally:
                np.average = orig
            if len(rec) != 1 or rec[0] is None or len(rec[0]) != len(a):
                ctx.broken_ties.append('correspondence: np.average spy did not see exactly one weighted average of n rows')
                continue
            # truth value of every condition on every row, evaluated by the harness on the class's own frame
            if plan['cond'] is None:
                pl = '(fun _ => Marginal (%s))' % ql(plan['p'])
                pbs = ['Some (Some (%s))' % ql(plan['p'])] * len(a)
            else:
                truth = [np.asarray(eval(c, {'df': sp.df, 'np': np}), dtype=bool) for c in plan['cond']]
                pl = '(cond_plan [%s] %s)' % ('; '.join(bls(t) for t in truth), qls(plan['p']))
                pbs = []
                for i in range(len(a)):
                    hits = [p for t, p in zip(truth, plan['p']) if t[i]]
                    pbs.append('Some None' if not hits else ('Some (Some (%s))' % ql(hits[0]) if len(hits) == 1 else 'None'))
            iw = fl(rec[0])
            rows = '(mk_srows %s 0 a y pd w)' % pl
            entries.append('stoch_chk %s %s %s [%s] (%s)' % (TOLQ, rows, oqls(iw), '; '.join(pbs), 'None' if mo != mo else 'Some (%s)' % ql(mo)))
            plans.append((payload, plan, iw, mo, rows))
        jobs.append(('c05s%d' % len(work), IMPORTS, entries, 2, lets[0]))
        work.append([plans, lets[0], a, pd_, size])
    for wk, (r, errs) in zip(work, par_eval(ctx, jobs)):
        if errs:
            ctx.broken_ties.append('coq evaluation failed (stochastic): ' + errs[0][1][-300:])
        wk.append(r)
    for (plans, lets, a, pd_, size, r) in work:
        if len(r) != len(plans):
            continue
        for (payload, plan, iw, mo, rows), rr in zip(plans, r):
            if rr is None:
                continue
            nrows, bad_m, bad_s, mo_ok = rr
            ctx.programs += 1
            ctx.count('stochastic:' + plan['kind'] + (',weights' if payload['weights'] else ''))
            ctx.nontriv(['stochastic', plan['kind'], repr(plan['p']), iw[:4]])
            ctx.sample({'class': 'StochasticIPTW', 'plan': plan, 'marginal_outcome': mo}, cap=3)
            ctx.disagreements_checked += 2 * len(a) + 1
            lab = 'StochasticIPTW.fit(p=%r, conditional=%r)' % (plan['p'], plan['cond'])
            if nrows != len(a):
                ctx.broken_ties.append('correspondence: stochastic case built %d rows for %d' % (nrows, len(a)))
                continue
            for bad, kind, txt in ((bad_m, 'model', 'first-to-last overwrite model'), (bad_s, 'spec', 'plan probability / fitted probability of the treatment received')):
                if bad:
                    i = bad[0]
                    fails.append((size, 'StochasticIPTW.weight.%s.%s' % (kind, plan['kind']), '%s: row %d (A=%d, fitted P(A=1)=%r) has weight %r; disagrees with the %s'
                                  % (lab, i, a[i], pd_[i], iw[i], txt), payload,
                                  lambda e='stoch_val %s %d' % (rows, i), pre=lets: ' [expected weight, marginal outcome = %s]' % diag_eval(ctx, e, pre)))
                    break
            else:
                if not mo_ok:
                    fails.append((size, 'StochasticIPTW.marginal_outcome.' + plan['kind'], '%s: marginal_outcome %r is not the weighted mean of the outcome under the modelled weights'
                                  % (lab, mo), payload, lambda e='stoch_val %s 0' % rows, pre=lets: ' [expected weight of row 0, marginal outcome = %s]' % diag_eval(ctx, e, pre)))


# =============================================================================================== IPMW
PATTERNS = {1: ['single-str', 'single-list'], 2: ['distinct', 'uniform-all'],
            3: ['distinct', 'uniform-all', 'uniform-first', 'uniform-last']}


def gen_ipmw_case(ctx, index_kind=None, force=None):
    r = ctx.rng
    for attempt in range(200):
        K = r.choice([1, 2, 2, 3, 3, 3])
        pat = r.choice(PATTERNS[K] + (['distinct'] * 2 if K > 1 else []))
        if force:
            K, pat = 3, force
        n = r.randint(40, 90)
        rs = np.random.RandomState(r.randrange(2 ** 31))
        L = rs.binomial(1, 0.5, n)
        W = np.round(rs.normal(size=n), 2)
        step = lambda: rs.binomial(1, 1 / (1 + np.exp(-(-1.3 + 0.7 * L + 0.4 * W)))) == 1   # noqa: E731
        m0 = step()
        if pat in ('single-str', 'single-list'):
            miss = [m0]
        elif pat == 'distinct':
            miss = [m0]
            for _ in range(K - 1):
                miss.append(miss[-1] | step())
        elif pat == 'uniform-all':
            miss = [m0] * K
        elif pat == 'uniform-first':
            miss = [m0, m0, m0 | step()]
        else:
            m1 = m0 | step()
            miss = [m0, m1, m1]
        df = pd.DataFrame({'L': L, 'W': W})
        for k, m in enumerate(miss):
            v = np.round(rs.normal(size=n), 2)
            v[m] = np.nan
            df['M%d' % k] = v
        sat = r.random() < 0.3
        stab = (not sat) and r.random() < 0.5
        pool = ['C(L)'] if sat else ['L', 'W', 'L + W']
        nden = r.randint(1, K)
        dens = [r.choice(pool) for _ in range(nden)]
        nums = [r.choice(['1', 'L']) for _ in range(r.randint(1, K))] if stab else None
        if force and not sat:
            # one model per variable, all different: a variable that is skipped (uniform with its predecessor) must not shift
            # the models of the variables after it
            dens = ['L', 'L + W', 'W']
            nums = ['1', 'L', '1'] if stab else None
        df, kind = datagen.reindex(df, r, index_kind or r.choice(['range', 'range', 'range', 'shift', 'shuffle', 'float', 'str', 'dup']))
        cs = {'part': 'ipmw', 'frame': frame_to_case(df), 'K': K, 'pattern': pat, 'stabilized': stab, 'dens': dens, 'nums': nums,
              'saturated': sat, 'index_kind': kind}
        if ipmw_fits_exist(cs):
            return cs
        ctx.count('rejected-separated-draw')
    raise RuntimeError('no usable IPMW draw')


def expand(models, K):
    models = list(models)
    while len(models) < K:
        models.append(models[-1])
    return models


def ipmw_fits_exist(cs):
    """reference fits on a default-index copy: every needed logistic MLE must exist (else the draw is rejected)"""
    import statsmodels.api as sm
    import statsmodels.formula.api as smf
    df = case_to_frame(cs['frame']).reset_index(drop=True)
    K = cs['K']
    dens = expand(cs['dens'], K)
    nums = expand(cs['nums'], K) if cs['nums'] else None
    try:
        for k in range(K):
            if df['M%d' % k].isnull().sum() == 0 or df['M%d' % k].notnull().sum() < 8:
                return False
            tr = df if k == 0 else df.loc[df['M%d' % (k - 1)].notnull()]
            ind = tr['M%d' % k].notnull().astype(int)
            if ind.min() == 1:
                continue
            tr = tr.assign(_o_=ind)
            for f in [dens[k]] + ([nums[k]] if nums else []):
                fm = smf.glm('_o_ ~ ' + f, tr, family=sm.families.family.Binomial()).fit()
                p = np.asarray(fm.predict(df))
                if not fm.converged or p.min() < SEP_EPS or p.max() > 1 - SEP_EPS:
                    return False
    except Exception:   # noqa
        return False
    return True


def ipmw_key(cs, kind):
    site = '_single_variable' if cs['pattern'].startswith('single') or cs['pattern'] == 'uniform-all' else '_monotone_variables'
    idx = 'default-index' if cs['index_kind'] == 'range' else 'nondefault-index'
    return 'IPMW.%s.%s.%s' % (site, idx, kind)



def ipmw_part(ctx, fails, cases):
    import importlib
    mod = importlib.import_module('zepid.causal.ipw.IPMW')
    from zepid.causal.ipw import IPMW
    exprs, work, uexprs, uwork = [], [], [], []
    for cs in cases:
        df = case_to_frame(cs['frame'])
        df['_rid_'] = np.arange(len(df))
        n, K = len(df), cs['K']
        ctx.evaluations += 1
        ctx.count('ipmw:K=%d,%s,%s' % (K, cs['pattern'], 'stab' if cs['stabilized'] else 'unstab'))
        ctx.count('ipmw-index:' + cs['index_kind'])
        mv = 'M0' if cs['pattern'] == 'single-str' else ['M%d' % k for k in range(K)]
        if cs['pattern'] == 'single-str':
            dens_arg, nums_arg = cs['dens'][0], (cs['nums'][0] if cs['nums'] else '1')
        else:
            dens_arg, nums_arg = list(cs['dens']), (list(cs['nums']) if cs['nums'] else '1')
        lab = 'IPMW(missing_variable=%r, stabilized=%r) on a %s index, n=%d, pattern %s, models %r / %r' \
              % (mv, cs['stabilized'], cs['index_kind'], n, cs['pattern'], dens_arg, nums_arg)
        obs = [[bool(pd.notnull(df['M%d' % k].iloc[i])) for k in range(K)] for i in range(n)]
        # the two uniformity predicates, called directly on the caller's frame (whatever happens in the run below)
        if K > 1:
            mvs = ['M%d' % k for k in range(K)]
            try:
                got = [bool(IPMW._check_overall_uniform(df, mvs)[1])] + [bool(IPMW._check_uniform(df, mvs[j], mvs[j + 1])) for j in range(K - 1)]
            except Exception as e:   # noqa
                got = '%s: %s' % (type(e).__name__, str(e)[:80])
            uexprs.append('let rows := map (fun o => Build_mrow 0 o [] []) [%s] in '
                          '(overall_uniform rows %d :: map (fun j => uniform_pair rows j (S j)) (seq 0 (%d - 1)))' % ('; '.join(bls(o) for o in obs), K, K))
            uwork.append((cs, lab, got, n))
        try:
            with FitSpy(mod) as spy:
                ipm = IPMW(df, missing_variable=mv, stabilized=cs['stabilized'])
                ipm.regression_models(model_denominator=dens_arg, model_numerator=nums_arg, print_results=False)
                ipm.fit()
            if ec.should_poke(df):
                ec.poke(ipm)
            wt = fl(ipm.Weight)
        except Exception as e:   # noqa
            fails.append((n, ipmw_key(cs, 'raises'), '%s raised %s: %s' % (lab, type(e).__name__, str(e)[:100]), cs))
            continue
        per = 2 if cs['stabilized'] else 1
        recs = spy.records
        if len(recs) % per:
            fails.append((n, ipmw_key(cs, 'schedule'), '%s: %d model fits recorded, not a multiple of %d' % (lab, len(recs), per), cs))
            continue
        # which variable each recorded fit belongs to: its training indicator must be the observed flag of that variable
        fitted_vars, den, num, train_ids = [], {}, {}, {}
        ok = True
        for j in range(0, len(recs), per):
            rec = recs[j]
            ids = [int(v) for v in rec['train']['_rid_']]
            ind = [int(v) for v in rec['train']['_observed_indicator_']]
            cand = [k for k in range(K) if k not in fitted_vars and [int(obs[i][k]) for i in ids] == ind]
            if not cand:
                fails.append((n, ipmw_key(cs, 'schedule'), '%s: fit #%d (%s) predicts an indicator that is no variable\'s observed flag on its rows'
                              % (lab, j, rec['formula']), cs))
                ok = False
                break
            k = cand[0]
            fitted_vars.append(k)
            train_ids[k] = ids
            # ... and it is fitted with the model listed for THAT variable (the k-th entry; the last entry repeated when fewer
            # models than variables are given), denominator first, then the numerator when stabilized
            want_d = expand(cs['dens'], K)[k]
            got_d = rec['formula'].split('~', 1)[1].strip()
            if got_d.replace(' ', '') != want_d.replace(' ', ''):
                fails.append((n, ipmw_key(cs, 'model-of-variable'), '%s: the denominator model of variable %d was fitted as %r, the model listed for it is %r'
                              % (lab, k, got_d, want_d), cs))
            if per == 2:
                want_n = expand(cs['nums'], K)[k]
                got_n = recs[j + 1]['formula'].split('~', 1)[1].strip()
                if got_n.replace(' ', '') != want_n.replace(' ', ''):
                    fails.append((n, ipmw_key(cs, 'model-of-variable'), '%s: the numerator model of variable %d was fitted as %r, the model listed for it is %r'
                                  % (lab, k, got_n, want_n), cs))
            if not rec['preds'] or len(rec['preds'][-1]) != n or (per == 2 and (not recs[j + 1]['preds'] or len(recs[j + 1]['preds'][-1]) != n)):
                ok = False
                fails.append((n, ipmw_key(cs, 'schedule'), '%s: model of variable %d was not used to predict the full data' % (lab, k), cs))
                break
            den[k] = fl(rec['preds'][-1])
            if per == 2:
                num[k] = fl(recs[j + 1]['preds'][-1])
            for rr in recs[j:j + per]:
                ctx.oracle_checks += 1
                res = score_residual(rr['formula'].split('~')[1], rr['train'], rr['train']['_observed_indicator_'], rr['fm'].predict(rr['train']))
                if res > 1e-6:
                    ctx.broken_ties.append('oracle: score equations not solved for %s (residual %.3g)' % (rr['formula'], res))
        if not ok:
            continue
        strat = [int(v) for v in df['L']]
        raws = []
        for i in range(n):
            d = ['Some (%s)' % ql(den[k][i]) if k in den else 'None' for k in range(K)]
            nu = ['Some (%s)' % ql(num[k][i]) if k in num else 'None' for k in range(K)]
            raws.append('Build_rawm %d %s [%s] [%s]' % (strat[i], bls(obs[i]), '; '.join(d), '; '.join(nu)))
        raws = '[' + ';\n '.join(raws) + ']'
        exprs.append('ipmw_chk %s %s %s %d %s %s %s' % (TOLQ, TOLFITQ, b(cs['stabilized']), K, raws, oqls(wt), b(cs['saturated'])))
        work.append((cs, lab, wt, fitted_vars, train_ids, obs, n, raws))
    res, errs = coq_eval(ctx, 'c05p', IMPORTS, exprs, shard=3)
    if errs:
        ctx.broken_ties.append('coq evaluation failed (ipmw): ' + errs[0][1][-300:])
    ures, errs = coq_eval(ctx, 'c05u', IMPORTS, uexprs, shard=40)
    if errs:
        ctx.broken_ties.append('coq evaluation failed (ipmw uniformity): ' + errs[0][1][-300:])
    for (cs, lab, got, n), r in zip(uwork, ures):
        if r is None:
            continue
        ctx.disagreements_checked += len(r)
        if got != r:
            idx = 'default-index' if cs['index_kind'] == 'range' else 'nondefault-index'
            fails.append((n, 'IPMW._check_uniform.%s.%s' % (idx, 'raises' if isinstance(got, str) else 'value'),
                          '%s: [_check_overall_uniform, _check_uniform(adjacent pairs)...] = %r, the observed flags say %r' % (lab, got, r), cs))
    for (cs, lab, wt, fitted_vars, train_ids, obs, n, raws), r in zip(work, res):
        if r is None:
            continue
        ctx.programs += 1
        ctx.nontriv(['ipmw', cs['K'], cs['pattern'], cs['stabilized'], cs['dens'], cs['index_kind'], wt[:6]])
        ctx.sample({'class': 'IPMW', 'K': cs['K'], 'pattern': cs['pattern'], 'index': cs['index_kind'], 'n': n, 'Weight[:3]': wt[:3]}, cap=4)
        fits, trains, mono, bad_m, bad_s, bad_t = r
        if not mono:
            ctx.broken_ties.append('generator produced a non-monotone pattern')
            continue
        exp_vars = [k for k, f in enumerate(fits) if f]
        ctx.disagreements_checked += 1
        if fitted_vars != exp_vars:
            fails.append((n, ipmw_key(cs, 'schedule'), '%s: models were fitted for variables %r, the documented procedure fits %r '
                          '(a variable uniform with its predecessor is skipped)' % (lab, fitted_vars, exp_vars), cs))
            continue
        bad = [k for k in exp_vars if sorted(train_ids[k]) != sorted(trains[k])]
        ctx.disagreements_checked += len(exp_vars)
        if bad:
            k = bad[0]
            fails.append((n, ipmw_key(cs, 'training-rows'), '%s: the model of variable %d was fitted on %d rows, the rows observed on the previous '
                          'variable are %d' % (lab, k, len(train_ids[k]), len(trains[k])), cs))
            continue
        ctx.disagreements_checked += (3 if cs['saturated'] else 2) * n
        for bad, kind, txt in ((bad_m, 'weights', 'model'), (bad_s, 'weights', 'documented numerator / product of conditional observation probabilities'),
                               (bad_t, 'telescoping', 'n_s / #{fully observed in s} (saturated models)')):
            if bad:
                i = bad[0]
                fails.append((n, ipmw_key(cs, kind), '%s: row %d (observed %r) has Weight %r; disagrees with the %s'
                              % (lab, i, obs[i] if i < n else None, wt[i] if i < len(wt) else None, txt), cs,
                              lambda e='ipmw_val %s %d %s %d' % (b(cs['stabilized']), cs['K'], raws, i):
                              ' [expected model, documented, n_s/#full = %s]' % diag_eval(ctx, e)))
                break


# =============================================================================================== IPCW
def gen_ipcw_case(ctx):
    r = ctx.rng
    for attempt in range(200):
        nsub = r.randint(14, 30)
        tmax = r.randint(3, 5)
        half = r.random() < 0.3
        variant = r.choice(['plain', 'plain', 'plain', 'dupkey', 'early-event', 'fine-time-units'])
        rows = []
        for i in range(nsub):
            x = round(r.gauss(0, 1), 2)
            sid = 10 * (i + 1) - r.randint(0, 5)
            T = tmax
            ev = 0
            for t in range(1, tmax + 1):       # discrete hazards of event / drop-out
                u = r.random()
                if u < 0.12:
                    T, ev = t, 1
                    break
                if u < 0.12 + 1 / (1 + math.exp(-(-1.6 + 0.5 * x))) * 0.9 and t < tmax:
                    T, ev = t, 0
                    break
            for t in range(1, T + 1):
                rows.append({'id': sid, 't': float(t) - (0.5 if half else 0.0), 'd': int(ev and t == T), 'x': x,
                             'z': round(r.gauss(0.2 * t, 1), 2)})
        if variant == 'fine-time-units':
            # follow-up in minutes since enrolment (first visit at 1, later visits every 100000 minutes, some subjects seen a few
            # minutes earlier): only a record AT the last time of the file is the administrative end of follow-up
            jit = {sid: r.choice([0, 0, 1, 2, 3]) for sid in {q['id'] for q in rows}}
            for q in rows:
                tt = int(round(q['t'] + (0.5 if half else 0.0)))
                q['t'] = 1.0 if tt == 1 else float((tt - 1) * 100000 + 1 - jit[q['id']])
        if variant == 'dupkey':
            for _ in range(2):
                src = dict(r.choice(rows))
                src['z'] = round(r.gauss(0, 1), 2)
                rows.append(src)
        if variant == 'early-event':
            cand = [q for q in rows if q['t'] < max(p['t'] for p in rows if p['id'] == q['id'])]
            for q in r.sample(cand, min(2, len(cand))):
                q['d'] = 1
        order = r.choice(['shuffled', 'shuffled', 'by-id-time-permuted', 'by-id-time-permuted', 'sorted', 'reversed'])
        if order == 'shuffled':
            r.shuffle(rows)
        elif order == 'reversed':
            rows.reverse()
        elif order == 'by-id-time-permuted':
            # grouped by subject with ascending ids (as after a sort on id only), but NOT chronological within subject;
            # the first visit stays first so the late-entry guard of the constructor is not what answers
            out = []
            for sid in sorted({q['id'] for q in rows}):
                grp = sorted([q for q in rows if q['id'] == sid], key=lambda q: q['t'])
                rest = grp[1:]
                r.shuffle(rest)
                if len(rest) > 1 and rest == sorted(rest, key=lambda q: q['t']):
                    rest.reverse()
                out += grp[:1] + rest
            rows = out
        df = pd.DataFrame(rows)
        df['rid'] = np.arange(len(df))
        df, kind = datagen.reindex(df, r)
        cs = {'part': 'ipcw', 'frame': frame_to_case(df), 'den': r.choice(['t + x + z', 't + x', 'x + z']) if variant != 'fine-time-units' else 'x + z',
              'num': r.choice(['t', '1']) if variant != 'fine-time-units' else '1',
              'variant': variant, 'order': order, 'index_kind': kind, 'half': half, 'perm_seed': r.randrange(2 ** 31)}
        if ipcw_fits_exist(cs):
            return cs
        ctx.count('rejected-separated-draw')
    raise RuntimeError('no usable IPCW draw')


def ref_uncensored(df):
    """documented indicator, computed order-free by the harness (only to decide whether the MLE exists)"""
    tmax = df['t'].max()
    last = df.groupby('id')['t'].transform('max')
    return np.where((df['t'] == last) & (df['d'] == 0) & (df['t'] != tmax), 0, 1)


def ipcw_fits_exist(cs):
    import statsmodels.api as sm
    import statsmodels.formula.api as smf
    df = case_to_frame(cs['frame']).reset_index(drop=True)
    if df['t'].max() <= 1:
        return False
    df['_u_'] = ref_uncensored(df)
    if df['_u_'].min() == 1 or (df['_u_'] == 0).sum() < 3:
        return False
    try:
        for f in (cs['den'], cs['num']):
            fm = smf.glm('_u_ ~ ' + f, df, family=sm.families.family.Binomial()).fit()
            p = np.asarray(fm.predict(df))
            if not fm.converged or p.min() < SEP_EPS or p.max() > 1 - SEP_EPS:
                return False
    except Exception:   # noqa
        return False
    return True


def run_ipcw(df, cs):
    from zepid.causal.ipw import IPCW
    ipc = IPCW(df, idvar='id', time='t', event='d')
    ipc.regression_models(model_denominator=cs['den'], model_numerator=cs['num'], print_results=False)
    ipc.fit()
    if ec.should_poke(df):
        ec.poke(ipc)
    out = ipc.df
    return {'rid': [int(v) for v in out['rid']], 'id': [int(v) for v in out['id']], 't': fl(out['t']), 'd': [int(v) for v in out['d']],
            'u': [int(v) for v in out['__uncensored__']], 'num': fl(out['__numer__']), 'den': fl(out['__denom__']),
            'cnum': fl(out['__cnumer__']), 'cden': fl(out['__cdenom__']), 'w': fl(ipc.Weight),
            'index_same': bool(ipc.Weight.index.equals(out.index)), 'df': out}



def ipcw_part(ctx, fails, cases):
    exprs, work = [], []
    for cs in cases:
        df = case_to_frame(cs['frame'])
        n = len(df)
        ctx.evaluations += 1
        ctx.count('ipcw:%s,%s,%s' % (cs['variant'], cs['order'], 'half-grid' if cs['half'] else 'int-grid'))
        ctx.count('ipcw-index:' + cs['index_kind'])
        lab = 'IPCW on %d long rows (%s, %s input, %s index), models %r / %r' % (n, cs['variant'], cs['order'], cs['index_kind'], cs['den'], cs['num'])
        snap = df.copy(deep=True)
        try:
            o = run_ipcw(df, cs)
        except Exception as e:   # noqa
            fails.append((n, 'IPCW.raises', '%s raised %s: %s' % (lab, type(e).__name__, str(e)[:100]), cs))
            continue
        if not snap.equals(df):
            fails.append((n, 'IPCW.mutates-input', '%s modified the caller\'s frame' % lab, cs))
        # oracle validation: sort_values returned a sorted permutation of the input rows
        ctx.oracle_checks += 1
        inp = {int(q): (int(i), float(t), int(d)) for q, i, t, d in zip(df['rid'], df['id'], df['t'], df['d'])}
        keys = list(zip(o['id'], o['t']))
        if sorted(o['rid']) != sorted(inp) or any(inp[q] != (i, t, d) for q, i, t, d in zip(o['rid'], o['id'], o['t'], o['d'])) \
                or any(keys[j] > keys[j + 1] for j in range(len(keys) - 1)):
            ctx.broken_ties.append('oracle: sort_values([id, time]) did not return a sorted permutation of the input')
            continue
        strict = all(keys[j] < keys[j + 1] for j in range(len(keys) - 1))
        for rhs, p in ((cs['num'], o['num']), (cs['den'], o['den'])):
            ctx.oracle_checks += 1
            res = score_residual(rhs, o['df'], o['u'], p)
            if res > 1e-6:
                ctx.broken_ties.append('oracle: score equations not solved for __uncensored__ ~ %s (residual %.3g)' % (rhs, res))
        if not o['index_same'] or len(o['w']) != n or not finite(o['w']) or not finite(o['cnum']) or not finite(o['cden']):
            fails.append((n, 'IPCW.Weight.shape', '%s: Weight is not n finite numbers aligned with IPCW.df' % lab, cs))
            continue
        # the same rows in another order must get the same weights (implementation-level sort invariance)
        perm = np.random.RandomState(cs['perm_seed']).permutation(n)
        try:
            o2 = run_ipcw(df.iloc[perm], cs)
            w2 = dict(zip(o2['rid'], o2['w']))
            if strict:
                ctx.disagreements_checked += n
                worst = max(abs(w2[q] - w) / max(1.0, abs(w)) for q, w in zip(o['rid'], o['w']))
                if not worst <= TOL_FIT:
                    fails.append((n, 'IPCW.sort-invariance', '%s: permuting the input rows changes a weight by %.3g (relative)' % (lab, worst), cs))
        except Exception as e:   # noqa
            fails.append((n, 'IPCW.raises', '%s (permuted rows) raised %s: %s' % (lab, type(e).__name__, str(e)[:100]), cs))
        s = '[' + ';\n '.join('Build_crow (%d) (%s) %s (%s) (%s)' % (i, ql(t), b(d), ql(nu), ql(de))
                              for i, t, d, nu, de in zip(o['id'], o['t'], o['d'], o['num'], o['den'])) + ']'
        pos = {q: j for j, q in enumerate(o['rid'])}
        pm = nls([pos[int(q)] for q in df['rid']])
        exprs.append('ipcw_chk %s %s %s %s %s %s %s' % (TOLQ, s, pm, bls(o['u']), qls(o['cnum']), qls(o['cden']), qls(o['w'])))
        work.append((cs, lab, o, strict, n, s, pm))
    res, errs = coq_eval(ctx, 'c05c', IMPORTS, exprs, shard=2)
    if errs:
        ctx.broken_ties.append('coq evaluation failed (ipcw): ' + errs[0][1][-300:])
    for (cs, lab, o, strict, n, s, pm), r in zip(work, res):
        if r is None:
            continue
        ctx.programs += 1
        ctx.nontriv(['ipcw', cs['variant'], cs['order'], cs['den'], cs['num'], o['w'][:6]])
        ctx.sample({'class': 'IPCW', 'rows': n, 'variant': cs['variant'], 'order': cs['order'], 'index': cs['index_kind'], 'Weight[:3]': o['w'][:3]}, cap=4)
        sorted_ok, nin, bad_u, bad_cn, bad_cd, bad_w, bad_su, bad_sw = r
        if not sorted_ok or nin != n:
            ctx.broken_ties.append('oracle: Model.Ipw.sorted_bool rejects the frame sort_values returned')
            continue
        ctx.disagreements_checked += 4 * n + (2 * n if strict else 0)
        checks = [(bad_u, 'IPCW.uncensored.model', '__uncensored__ disagrees with the shift(-1) model'),
                  (bad_cn or bad_cd or bad_w, 'IPCW.cumprod.model', '__cnumer__/__cdenom__/Weight disagree with the per-id running products')]
        if strict:      # the order-free documented definitions are unambiguous only without duplicated (id, time)
            checks += [(bad_su, 'IPCW.uncensored.spec', '__uncensored__ is not the documented indicator (0 exactly on a subject\'s last row without '
                        'event and not at the maximum time)'),
                       (bad_sw, 'IPCW.weight.spec', 'Weight is not the product over the subject\'s rows up to t of numerator/denominator probability')]
        for bad, key, txt in checks:
            if bad:
                j = bad[0]
                fails.append((n, key, '%s: sorted row %d (id=%d, t=%r, event=%d): __uncensored__=%d __cnumer__=%r __cdenom__=%r Weight=%r; %s'
                              % (lab, j, o['id'][j], o['t'][j], o['d'][j], o['u'][j], o['cnum'][j], o['cden'][j], o['w'][j], txt), cs,
                              lambda e='ipcw_val %s %s %d' % (s, pm, j): ' [expected cnumer, cdenom, Weight, documented Weight, (model, documented) indicator = %s]'
                              % diag_eval(ctx, e, nbool=True)))
                break


# =============================================================================================== driver
def ipcw_large_part(ctx, fails, seeds):
    """a long-format file of realistic length (thousands of subjects, heavy per-visit drop-out): the cumulative products and the
    weights against a per-subject reference computed with numpy from the implementation's OWN per-row probabilities (the
    definition "product over the subject's earlier records" does not depend on how many subjects precede it in the file)"""
    from zepid.causal.ipw import IPCW
    for seed in seeds:
        rs = np.random.RandomState(seed)
        nsub = int(rs.randint(7000, 10000))
        x = np.round(rs.normal(size=nsub), 2)
        rows = []
        visits = rs.geometric(0.22, size=nsub).clip(1, 6)
        ev = rs.binomial(1, 0.1, size=nsub)
        ids = np.repeat(np.arange(1, nsub + 1), visits)
        t = np.concatenate([np.arange(1, v + 1) for v in visits]).astype(float)
        last = np.concatenate([np.r_[np.zeros(v - 1), 1] for v in visits])
        df = pd.DataFrame({'id': ids, 't': t, 'd': (last * np.repeat(ev, visits)).astype(int), 'x': np.repeat(x, visits)})
        df['rid'] = np.arange(len(df))
        cs = {'den': 'x + t', 'num': '1', 'seed': int(seed), 'part': 'ipcw-large'}
        ctx.evaluations += 1
        ctx.count('ipcw-large: %d-thousand rows' % (len(df) // 1000))
        try:
            o = run_ipcw(df, cs)
        except Exception as e:   # noqa
            fails.append((len(df), 'IPCW.raises', 'IPCW on a %d-row cohort raised %s: %s' % (len(df), type(e).__name__, str(e)[:100]), cs))
            continue
        ctx.programs += 1
        out = o['df']
        gid = out['id']
        for col, ccol in (('__numer__', '__cnumer__'), ('__denom__', '__cdenom__')):
            ref = np.exp(np.log(out[col].astype(float)).groupby(gid).cumsum())      # per-subject running product
            ref2 = out[col].astype(float).groupby(gid).cumprod()
            got = out[ccol].astype(float)
            ctx.disagreements_checked += 1
            rel = np.abs(got - ref2) / np.abs(ref2)
            if not np.all(np.isfinite(got)) or float(rel.max()) > 1e-9:
                j = int(np.argmax(np.where(np.isfinite(rel), rel, np.inf)))
                fails.append((len(df), 'IPCW.cumulative-product.large-file',
                              'IPCW on a %d-row cohort (%d subjects): %s of row %d (id %d) is %r, the product of the subject\'s own %s '
                              'up to that record is %r (log-sum check %r)' % (len(df), nsub, ccol, j, int(gid.iloc[j]), float(got.iloc[j]), col,
                                                                              float(ref2.iloc[j]), float(ref.iloc[j])), cs))
        w = np.asarray(o['w'], dtype=float)
        wref = np.asarray(out['__numer__'].astype(float).groupby(gid).cumprod() / out['__denom__'].astype(float).groupby(gid).cumprod())
        ctx.disagreements_checked += 1
        if not np.all(np.isfinite(w)) or float(np.max(np.abs(w - wref) / np.abs(wref))) > 1e-9:
            j = int(np.argmax(np.abs(w - wref) / np.abs(wref)))
            fails.append((len(df), 'IPCW.Weight.large-file', 'IPCW on a %d-row cohort: Weight of row %d is %r, cumulative numerator over cumulative '
                          'denominator of that subject is %r' % (len(df), j, float(w[j]), float(wref[j])), cs))


def run(ctx):
    import time
    fails = []
    q = ctx.quick
    kinds = ['range', 'range', 'range', 'shift', 'shuffle', 'float', 'str', 'dup']
    for name, fn in (
            ('iptw', lambda: iptw_part(ctx, fails, [gen_iptw_case(ctx) for _ in range(6 if q else 40)])),
            ('iptw-missing', lambda: missing_part(ctx, fails, [gen_iptw_case(ctx, missing=True) for _ in range(4 if q else 24)])),
            ('stochastic', lambda: stoch_part(ctx, fails, [gen_stoch_case(ctx) for _ in range(10 if q else 80)])),
            ('ipmw', lambda: ipmw_part(ctx, fails, [gen_ipmw_case(ctx, kinds[i % len(kinds)], force=('uniform-first' if i % 16 == 3 else 'uniform-last' if i % 16 == 11 else None)) for i in range(64 if q else 600)])),
            ('ipcw', lambda: ipcw_part(ctx, fails, [gen_ipcw_case(ctx) for _ in range(24 if q else 200)])),
            ('ipcw-large', lambda: ipcw_large_part(ctx, fails, [ctx.rng.randrange(2 ** 31) for _ in range(1 if q else 4)]))):
        t0 = time.time()
        fn()
        ctx.extra.setdefault('part_seconds', {})[name] = round(time.time() - t0, 1)
    report(ctx, fails)


def report(ctx, fails):
    fails.sort(key=lambda f: f[0])
    seen = set()
    for f in fails:
        size, key, what, payload = f[:4]
        if key in seen:
            continue
        seen.add(key)
        n = sum(1 for g in fails if g[1] == key)
        if len(f) > 4 and not any(k.get('property') == ctx.pid and k.get('key') == key for k in ctx.known):
            try:
                what += f[4]()
            except Exception:   # noqa
                pass
        ctx.violation(key, what + ' [%d failing cases]' % n, payload)


def replay(ctx, payload):
    fails = []
    part = (payload or {}).get('part')
    if part == 'iptw':
        iptw_part(ctx, fails, [payload])
    elif part == 'iptw-missing':
        missing_part(ctx, fails, [payload])
    elif part == 'stochastic':
        stoch_part(ctx, fails, [payload])
    elif part == 'ipmw':
        ipmw_part(ctx, fails, [payload])
    elif part == 'ipcw':
        ipcw_part(ctx, fails, [payload])
    elif part == 'ipcw-large':
        ipcw_large_part(ctx, fails, [payload['seed']])
    else:
        return run(ctx)
    report(ctx, fails)
