"""C04 -- cross-fit estimators never predict for a row with a model trained on that row.

Observation technique (no source hooks): spy learners (sklearn BaseEstimator subclasses) are passed as the
`estimator` of exposure_model/outcome_model; the first design column is a row identifier, so every
fit / predict / predict_proba call reveals which rows it saw.  A prediction is attributed to a fitted copy by the
training ids the predicting object holds at predict time (not by anything remembered at fit time), and the spies come
in composite flavours (nested sub-object trained in place, sklearn Pipeline, zEpid SuperLearner) so that copies that
share fitted state (shallow copy) are seen.  pandas.DataFrame.sample and
crossfit._sample_split_ are wrapped at run time to record the sampler's receiver/result and the parts.
Everything is then judged in Coq: Model.Crossfit recomputes parts and call schedule from the recorded sampler
outputs (correspondence), and the executable specification (partition_ok_b / no_leak_b / double_sep_b /
pick_ok_b, proved sound in Properties/C04.v) is evaluated on the implementation's own parts and call log."""
import itertools
import warnings

import numpy as np
import pandas as pd

from common import coq_eval, NCPU

PROP_FILE = 'theories/Properties/C04.v'
MODEL_FILES = ['theories/Model/Crossfit.v']
GEN_GROUPS = []
RULE = ('runs of SingleCrossfitAIPTW / DoubleCrossfitAIPTW / SingleCrossfitTMLE / DoubleCrossfitTMLE with spy learners: '
        'for every n_splits k in 2..6 every residue n mod k at sizes n in 7..60 (thorough: every n in 7..60), plus random '
        '(n, k, n_partitions 1..4, random_state, binary/continuous outcome, learner with predict_proba or predict only, '
        'index kind range/shifted/duplicated/string, 0-5 incomplete rows, learner family: state in own attributes / state in a '
        'nested sub-object trained in place / sklearn Pipeline(identity, spy) / zEpid SuperLearner with a spy candidate); which fitted '
        'copy predicts is read from the training ids the predicting object holds AT PREDICT TIME; each run is repeated with the same random_state; '
        'n_splits below the minimum (0,1 / 0,1,2) must be rejected; one Coq evaluation per partition; '
        'non-trivial = distinct (class, n, k, recorded parts)')
TRUSTED = ['spy learners and run-time wrappers around pandas.DataFrame.sample / crossfit._sample_split_ (observation only)',
           'oracle: DataFrame.sample(n=m) returns m distinct rows of its receiver (PickSpec; validated in Coq on every recorded call)',
           'oracle: numpy RandomState(seed).choice is a function of the seed (validated: seeds handed to _sample_split_ are '
           'recomputed from random_state); user learners are deterministic functions of their training data',
           'pandas Index.difference / .loc keep the remaining rows in frame order (modelled by remove_all, exercised by the correspondence)']

CLASSES = ['SingleCrossfitAIPTW', 'DoubleCrossfitAIPTW', 'SingleCrossfitTMLE', 'DoubleCrossfitTMLE']


def is_double(cls):
    return cls.startswith('Double')


# ------------------------------------------------------------------------------------------------ spies
class Recorder:
    """what one fit() call did, split by partition (= by _sample_split_ call)"""
    def __init__(self):
        self.parts = []       # dicts: seed, n_splits, splits, picks, log
        self.pre = []         # learner calls made before any partition started

    def cur(self):
        return self.parts[-1] if self.parts else None


REC = [None]


def _cur_log():
    rec = REC[0]
    if rec is None:
        return None
    return rec.cur()['log'] if rec.cur() is not None else rec.pre


def _log_fit(role, ids):
    """-> position j of this fit among the fits of `role` in the current partition"""
    log = _cur_log()
    rec = REC[0]
    j = 0
    if rec is not None and rec.cur() is not None:
        j = sum(1 for e in rec.cur()['log'] if e[0] == 'fit' and e[1] == role)
    if log is not None:
        log.append(('fit', role, j, list(ids)))
    return j


XREC = []      # (row ids, last design column) of every learner fit of the current run


def _rec_x(X):
    X = np.asarray(X)
    XREC.append(([int(v) for v in X[:, 0]], np.array(X[:, -1], dtype=float)))


def _log_predict(how, role, X, held):
    """held = the training row ids held, AT PREDICT TIME, by the object that computes the prediction (None = unfitted).
    Which fitted copy predicts is derived from these ids (enc_log), never from anything remembered at fit time."""
    log = _cur_log()
    expo = None if role == 'A' else sorted(set(float(v) for v in X[:, 1]))
    if log is not None:
        log.append((how, role, None, [int(v) for v in X[:, 0]], expo, None if held is None else list(held)))


def _values(mu, X):
    return np.full(X.shape[0], 0.5 if mu is None else mu) * 0.9 + 0.05 * np.clip(X[:, -1], 0, 1)


def _mu(y):
    y = np.asarray(y, dtype=float)
    return (float(np.sum(y)) + 1.0) / (len(y) + 2.0)


def _spy_classes():
    """Four families of user learners.
    plain    : fitted state in the learner's own attributes (any copy isolates it)
    warm     : as plain, but fit() accumulates the training rows of earlier fits of the same object lineage (warm start)
    core     : fitted state inside a mutable sub-object created in __init__ and trained in place (only a deep copy isolates it)
    pipeline : sklearn Pipeline(identity transformer, plain spy): the steps list is the shared sub-object
    sl       : zEpid's SuperLearner (fit appends to the list self.fit_estimators created in __init__) with a quiet candidate"""
    from sklearn.base import BaseEstimator
    from sklearn.pipeline import Pipeline
    from sklearn.preprocessing import FunctionTransformer
    from zepid.superlearner import SuperLearner

    class Spy(BaseEstimator):
        def __init__(self, role='A'):
            self.role = role

        def fit(self, X, y):
            ids = [int(v) for v in X[:, 0]]
            _rec_x(X)
            _log_fit(self.role, ids)
            self.state_ = {'ids': ids, 'mu': _mu(y)}
            return self

        def _held(self):
            st = getattr(self, 'state_', None)
            return (None, None) if st is None else (st['ids'], st['mu'])

        def predict(self, X):
            held, mu = self._held()
            _log_predict('predict', self.role, X, held)
            return _values(mu, X)

    class SpyProba(Spy):
        def predict_proba(self, X):
            held, mu = self._held()
            _log_predict('predict_proba', self.role, X, held)
            p = _values(mu, X)
            return np.column_stack([1 - p, p])

    class WarmSpy(Spy):
        """warm-start semantics (sklearn's documented warm_start=True, incremental learners): fit() continues from whatever
        fitted state the object already carries, so the rows a model has learnt from accumulate along a copy lineage"""
        def fit(self, X, y):
            ids = [int(v) for v in X[:, 0]]
            _rec_x(X)
            _log_fit(self.role, ids)
            prev = getattr(self, 'state_', None)
            self.state_ = {'ids': (list(prev['ids']) if prev else []) + ids, 'mu': _mu(y)}
            return self

    class WarmSpyProba(WarmSpy):
        predict_proba = SpyProba.predict_proba

    class Core:
        def __init__(self):
            self.state = None

        def train(self, ids, mu):
            self.state = {'ids': ids, 'mu': mu}

    class CoreSpy(Spy):
        def __init__(self, role='A'):
            self.role = role
            self.core = Core()

        def fit(self, X, y):
            ids = [int(v) for v in X[:, 0]]
            _rec_x(X)
            _log_fit(self.role, ids)
            self.core.train(ids, _mu(y))       # in place
            return self

        def _held(self):
            st = self.core.state
            return (None, None) if st is None else (st['ids'], st['mu'])

    class CoreSpyProba(CoreSpy):
        predict_proba = SpyProba.predict_proba

    class QuietCand(BaseEstimator):
        def __init__(self, role='A'):
            self.role = role

        def fit(self, X, y):
            self.ids_ = [int(v) for v in X[:, 0]]
            self.mu_ = _mu(y)
            return self

        def predict(self, X):
            return _values(self.mu_, X)

    class SpySL(SuperLearner):
        def __init__(self, role='A'):
            SuperLearner.__init__(self, [QuietCand(role)], ['cand'], folds=2, loss_function='L2', discrete=True)
            self.role = role

        def fit(self, X, y):
            _rec_x(X)
            _log_fit(self.role, [int(v) for v in X[:, 0]])
            return SuperLearner.fit(self, X, y)

        def predict(self, X):
            fe = self.fit_estimators
            held = getattr(fe[0], 'ids_', None) if fe else None     # SuperLearner.predict uses fit_estimators[est_id]
            _log_predict('predict', self.role, X, held)
            return SuperLearner.predict(self, X)

    class FunctionalSpy(Spy):
        """a learner in the statsmodels style: fit() returns a NEW fitted object and leaves the receiver as it was.  The object
        handed to the estimator has been tried out on the full data beforehand (it carries a fit on every row), so a library that
        keeps the receiver instead of what fit() returned predicts every row with a model trained on that row"""
        def fit(self, X, y):
            ids = [int(v) for v in X[:, 0]]
            _rec_x(X)
            _log_fit(self.role, ids)
            new = type(self)(self.role)
            new.state_ = {'ids': ids, 'mu': _mu(y)}
            return new

    class FunctionalSpyProba(FunctionalSpy):
        predict_proba = SpyProba.predict_proba

    def make(kind, role, proba):
        """-> (learner object, function telling whether the ORIGINAL object was fitted)"""
        if kind == 'functional':
            o = (FunctionalSpyProba if proba else FunctionalSpy)(role)
            o.state_ = {'ids': list(range(1000, 4000)), 'mu': 0.5}      # the analyst's own earlier fit on all rows (row ids start at 1000)
            return o, (lambda: False)
        if kind == 'core':
            o = (CoreSpyProba if proba else CoreSpy)(role)
            return o, (lambda: o.core.state is not None)
        if kind == 'pipeline':
            inner = (SpyProba if proba else Spy)(role)
            o = Pipeline([('ident', FunctionTransformer()), ('spy', inner)])
            return o, (lambda: hasattr(inner, 'state_') or hasattr(o.steps[-1][1], 'state_'))
        if kind == 'warm':
            o = (WarmSpyProba if proba else WarmSpy)(role)
            return o, (lambda: hasattr(o, 'state_'))
        if kind == 'sl':
            o = SpySL(role)
            return o, (lambda: len(o.fit_estimators) > 0)
        o = (SpyProba if proba else Spy)(role)
        return o, (lambda: hasattr(o, 'state_'))

    return make


class Wrappers:
    """install / remove the recording wrappers"""
    def __enter__(self):
        import zepid.causal.doublyrobust.crossfit as cf
        self.cf = cf
        self.orig_sample = pd.DataFrame.sample
        self.orig_split = cf._sample_split_
        orig_sample, orig_split = self.orig_sample, self.orig_split

        def sample(frame, *a, **kw):
            out = orig_sample(frame, *a, **kw)
            rec = REC[0]
            if rec is not None and rec.cur() is not None and 'rid' in frame.columns:
                m = kw.get('n', a[0] if a else None)
                rec.cur()['picks'].append(([int(v) for v in frame['rid']], int(m), [int(v) for v in out['rid']]))
            return out

        def split(data, n_splits, random_state=None):
            rec = REC[0]
            if rec is not None:
                rec.parts.append({'seed': None if random_state is None else int(random_state), 'n_splits': int(n_splits),
                                  'rows': [int(v) for v in data['rid']], 'picks': [], 'log': [], 'splits': None})
            out = orig_split(data, n_splits=n_splits, random_state=random_state)
            if rec is not None:
                rec.cur()['splits'] = [[int(v) for v in s['rid']] for s in out]
            return out

        pd.DataFrame.sample = sample
        cf._sample_split_ = split
        return self

    def __exit__(self, *exc):
        pd.DataFrame.sample = self.orig_sample
        self.cf._sample_split_ = self.orig_split
        REC[0] = None
        return False


# ------------------------------------------------------------------------------------------------ cases
def make_df(spec):
    r = np.random.RandomState(spec['dseed'])
    n, nmiss = spec['n'], spec['nmiss']
    tot = n + nmiss
    rid = r.permutation(np.arange(1000, 1000 + tot))
    L = r.binomial(1, 0.5, tot).astype(float)
    A = r.binomial(1, 0.3 + 0.4 * L, tot).astype(float)
    if spec['outcome'] == 'binary':
        Y = r.binomial(1, 0.25 + 0.3 * A + 0.2 * L, tot).astype(float)
    else:
        Y = np.round(r.normal(1 + A + L, 1.0, tot), 3)
    # both arms and both outcome levels present
    A[0], A[1] = 1.0, 0.0
    if spec['outcome'] == 'binary':
        Y[0], Y[1], Y[2 % tot], Y[3 % tot] = 1.0, 0.0, 0.0, 1.0
    df = pd.DataFrame({'rid': rid.astype(int), 'L': L, 'art': A, 'y': Y})
    complete = np.ones(tot, dtype=bool)
    if nmiss:
        pos = r.choice(np.arange(4, tot), size=nmiss, replace=False) if tot - 4 >= nmiss else np.arange(tot - nmiss, tot)
        for p in pos:
            col = ['L', 'art', 'y'][r.randint(3)]
            df.loc[p, col] = np.nan
            complete[p] = False
    kind = spec['index']
    if kind == 'shift':
        df.index = range(500, 500 + tot)
    elif kind == 'dup':
        df.index = [i // 3 for i in range(tot)]
    elif kind == 'str':
        df.index = ['r%03d' % (tot - i) for i in range(tot)]
    rows = [int(v) for v, c in zip(df['rid'], complete) if c]
    return df, rows


def run_once(spec):
    """one construction + fit of the real class with spies; returns what was observed"""
    import zepid.causal.doublyrobust as dr
    make = _spy_classes()
    df, rows = make_df(spec)
    snapshot = df.copy(deep=True)
    kind = spec.get('learner', 'plain')
    a_est, a_touched = make(kind, 'A', spec['proba'])
    y_est, y_touched = make(kind, 'Y', spec['proba'] and spec['outcome'] == 'binary')
    out = {'rows': rows, 'error': None}
    with warnings.catch_warnings(), Wrappers():
        warnings.simplefilter('ignore')
        rec = Recorder()
        REC[0] = rec
        try:
            est = getattr(dr, spec['cls'])(df, exposure='art', outcome='y')
            tf = spec.get('transform')
            lterm = '%s(L)' % tf if tf else 'L'        # patsy's stateful transforms memorise mean / sd from the rows they are GIVEN
            del XREC[:]
            est.exposure_model('rid + ' + lterm, a_est)
            est.outcome_model('rid + art + ' + lterm, y_est)
            if spec.get('prefit'):
                # the split/fit/predict schedule is a property of every fit(), not of the first one on an object
                est.fit(n_splits=spec['prefit'], n_partitions=1, random_state=spec['rs'] // 2)
                rec = Recorder()
                REC[0] = rec
            # a seed read from an array / a pandas column is a numpy integer, not a python int
            est.fit(n_splits=spec['k'], n_partitions=spec['nparts'], random_state=(np.int64(spec['rs']) if spec.get('np_seed') else spec['rs']))
            vec = est.risk_difference_vector if spec['outcome'] == 'binary' else est.ace_vector
            out['estimates'] = [float(v) for v in vec]
            out['point'] = float(est.risk_difference if spec['outcome'] == 'binary' else est.ace)
        except Exception as e:   # noqa
            out['error'] = '%s: %s' % (type(e).__name__, str(e)[:120])
    # every learner must have been trained on a design computed from the rows of ITS OWN part only
    out['leak'] = 0.0
    if spec.get('transform') and out['error'] is None:
        lmap = {int(i): float(v) for i, v in zip(df['rid'], df['L']) if v == v}
        for ids, col in XREC:
            raw = np.array([lmap[i] for i in ids])
            want = raw - raw.mean()
            if spec['transform'] == 'standardize':
                want = want / (raw.std() if raw.std() > 0 else 1.0)
            out['leak'] = max(out['leak'], float(np.max(np.abs(col - want))))
    out['parts'] = rec.parts
    out['pre'] = rec.pre
    out['estimator_touched'] = bool(a_touched() or y_touched())
    out['mutated'] = not snapshot.equals(df)
    return out


def _work(spec):
    """both fits of one case + the documented seed list (numpy draws a 5,000,000-permutation per call: ~0.5 s each,
    hence the process pool)"""
    from numpy.random import RandomState
    r1 = run_once(spec)
    r2 = run_once(spec)
    seeds = [int(s) for s in RandomState(spec['rs']).choice(range(5000000), size=spec['nparts'], replace=False)]
    return r1, r2, seeds


def pmap(f, xs):
    import multiprocessing as mp
    xs = list(xs)
    if len(xs) < 4:
        return [f(x) for x in xs]
    with mp.get_context('fork').Pool(max(2, min(8, NCPU))) as pool:
        return pool.map(f, xs, chunksize=2)


def enc_log(log):
    """spy log -> (events, held) ; events = [(tag, j, ids)] as Model.Crossfit.enc_event, held = [(held ids, predicted ids)].
    For a prediction, j is the position of the fit (same nuisance, this partition) whose training ids are exactly the ids
    the predicting object holds at predict time; 9998 = the object holds no fitted state, 9999 = it holds ids that no fit
    of this partition used.  None if an outcome prediction was asked for with a non-constant treatment column."""
    evs, held = [], []
    fits = {'A': [], 'Y': []}
    for e in log:
        if e[0] == 'fit':
            fits[e[1]].append(e[3])
            evs.append((0 if e[1] == 'A' else 1, e[2], e[3]))
            continue
        h = e[5]
        if h is None:
            j = 9998
        else:
            j = next((i for i, ids in enumerate(fits[e[1]]) if ids == h), 9999)
            held.append((h, e[3]))
        if e[1] == 'A':
            evs.append((2, j, e[3]))
        elif e[4] == [1.0]:
            evs.append((3, j, e[3]))
        elif e[4] == [0.0]:
            evs.append((4, j, e[3]))
        else:
            return None
    return evs, held


def zl(xs):
    return '[' + '; '.join('(%d)%%Z' % x for x in xs) + ']'


def coq_case(spec, part, evs, held):
    tbl = '[' + '; '.join('(%s, %s)' % (zl(p[0]), zl(p[2])) for p in part['picks']) + ']'
    picks_ok = '[' + '; '.join('pick_ok_b %s %d %s' % (zl(p[0]), p[1], zl(p[2])) for p in part['picks']) + ']'
    sp = '[' + '; '.join(zl(s) for s in part['splits']) + ']'
    ev = '[' + '; '.join('((%d)%%Z, (%d)%%Z, %s)' % (t, j, zl(ids)) for t, j, ids in evs) + ']'
    dbl = 'true' if is_double(spec['cls']) else 'false'
    return ('let rows := %s in let sp := %s in let evs := map dec_event %s in '
            '(print_result (crossfit_partition %s (pick_tbl %s) rows %d), %s, '
            '[nodup_b rows; partition_ok_b rows %d sp; no_leak_b evs rows; %s; '
            'forallb (fun hp => disjoint_b (fst hp) (snd hp)) %s])'
            % (zl(part['rows']), sp, ev, dbl, tbl, spec['k'], picks_ok, spec['k'],
               'double_sep_b evs' if is_double(spec['cls']) else 'true',
               '[' + '; '.join('(%s, %s)' % (zl(h), zl(ids)) for h, ids in held) + ']'))


def gen_specs(ctx):
    rng = ctx.rng
    specs = []

    def mk(cls, n, k, **kw):
        s = {'cls': cls, 'n': n, 'k': k, 'nparts': rng.randint(1, 4), 'rs': rng.randint(0, 2 ** 31 - 1),
             'dseed': rng.randint(0, 2 ** 31 - 1), 'outcome': rng.choice(['binary', 'binary', 'continuous']),
             'proba': rng.random() < 0.6, 'index': rng.choice(['range', 'range', 'shift', 'dup', 'str']),
             'nmiss': rng.choice([0, 0, 0, 1, 3, 5]),
             'learner': rng.choice(['plain', 'plain', 'warm', 'warm', 'core', 'core', 'core', 'pipeline', 'pipeline', 'sl', 'sl', 'functional', 'functional'])}
        if s['learner'] == 'sl' and n // k < 6:      # SuperLearner's inner 2-fold CV needs a few rows per part
            s['learner'] = 'core'
        kmin = 3 if is_double(cls) else 2
        others = [j for j in range(kmin, 7) if j != k and n // j >= (6 if s['learner'] == 'sl' else 1)]
        s['prefit'] = rng.choice(others) if others and rng.random() < 0.3 else None
        s['transform'] = rng.choice([None, None, None, 'center'])
        s['np_seed'] = rng.random() < 0.4     # (standardize() divides by a part's sd, which is 0 for a constant part)
        s.update(kw)
        return s
    for k in range(2, 7):
        if ctx.quick:
            ns = []
            for res in range(k):
                cand = [n for n in range(7, 61) if n % k == res]
                ns.append(rng.choice(cand))
            ns.append(7)
        else:
            ns = list(range(7, 61))
        for n in ns:
            for cls in CLASSES:
                if is_double(cls) and k < 3:
                    continue
                specs.append(mk(cls, n, k))
    for _ in range(30 if ctx.quick else 420):
        cls = rng.choice(CLASSES)
        k = rng.randint(3 if is_double(cls) else 2, 6)
        specs.append(mk(cls, rng.randint(7, 60), k))
    return specs


def guard_specs(ctx):
    out = []
    for cls in CLASSES:
        for k in range(0, 3 if is_double(cls) else 2):
            out.append({'cls': cls, 'n': 12, 'k': k, 'nparts': 1, 'rs': 1, 'dseed': 7, 'outcome': 'binary',
                        'proba': True, 'index': 'range', 'nmiss': 0, 'learner': ['plain', 'core', 'pipeline'][k]})
    return out


def check_specs(ctx, specs, fails):
    exprs, meta = [], []
    for spec, work in zip(specs, pmap(_work, specs)):
        ctx.programs += 1
        ctx.count('class:' + spec['cls'])
        ctx.count('k=%d' % spec['k'])
        ctx.count('n mod k=%d' % (spec['n'] % spec['k']) if spec['k'] else 'k=0')
        ctx.count('nparts=%d' % spec['nparts'])
        ctx.count('outcome:' + spec['outcome'])
        ctx.count('learner:' + ('predict_proba' if spec['proba'] else 'predict'))
        ctx.count('learner-kind:' + spec.get('learner', 'plain'))
        ctx.count('index:' + spec['index'])
        ctx.count('random_state type:' + ('numpy.int64' if spec.get('np_seed') else 'int'))
        ctx.count('earlier fit on the same object: ' + ('none' if not spec.get('prefit') else ('fewer splits' if spec['prefit'] < spec['k'] else 'more splits')))
        ctx.count('incomplete_rows=%d' % spec['nmiss'])
        size = spec['n'] * 10 + spec['k']
        payload = {'spec': spec}

        def bad(key, what, extra=None):
            p = dict(payload)
            if extra:
                p.update(extra)
            fails.append((size, key, '%s [%s n=%d k=%d n_partitions=%d random_state=%d outcome=%s learner=%s]'
                          % (what, spec['cls'], spec['n'], spec['k'], spec['nparts'], spec['rs'], spec['outcome'], spec.get('learner', 'plain')), p))
        r1, r2, seeds = work
        if r1['error'] and spec.get('learner') == 'sl' and 'SuperLearner' in r1['error']:
            ctx.count('learner-kind:sl refused a degenerate part (not judged)')
            continue
        if r1['error']:
            bad('%s.fit.raises' % spec['cls'], 'fit raised %s on valid input' % r1['error'])
            continue
        # ---- repeatability: same random_state => same calls, same parts, same estimates
        ctx.disagreements_checked += 1
        same_log = [(p['splits'], p['log'], p['seed']) for p in r1['parts']] == [(p['splits'], p['log'], p['seed']) for p in r2['parts']]
        same_est = r2['error'] is None and np.array_equal(np.array(r1['estimates']), np.array(r2['estimates']), equal_nan=True) \
            and (r1['point'] == r2['point'] or (r1['point'] != r1['point'] and r2['point'] != r2['point']))
        if not same_log:
            bad('%s.repeat.schedule' % spec['cls'], 'two fits with the same random_state produced different parts / learner calls')
        if not same_est:
            bad('%s.repeat.estimates' % spec['cls'], 'two fits with the same random_state returned different estimates %r vs %r'
                % (r1.get('estimates'), r2.get('estimates')))
        # ---- seeds are the documented function of random_state
        ctx.oracle_checks += 1
        if [p['seed'] for p in r1['parts']] != seeds:
            bad('%s.seeds' % spec['cls'], 'partition seeds %r are not RandomState(random_state).choice(range(5000000), n_partitions, replace=False) = %r'
                % ([p['seed'] for p in r1['parts']], seeds))
        if len(r1['parts']) != spec['nparts'] or len(r1['estimates']) != spec['nparts']:
            bad('%s.n_partitions' % spec['cls'], '%d partitions / %d estimates for n_partitions=%d'
                % (len(r1['parts']), len(r1['estimates']), spec['nparts']))
        if r1['pre']:
            bad('%s.calls-outside-partition' % spec['cls'], 'learner called before any partition was drawn: %r' % (r1['pre'][:2],))
        if r1['estimator_touched']:
            bad('%s.estimator-not-copied' % spec['cls'], 'the user-supplied estimator object itself was fitted (no deep copy)')
        if r1.get('leak', 0.0) > 1e-9:
            fails.append((spec['n'], '%s.design-from-other-parts' % spec['cls'], 'a learner was fitted on %s(L) values that are not computed from '
                          'the rows of its own part (max deviation %.3g): rows of other parts leak into its training design [%s]'
                          % (spec['transform'], r1['leak'], spec['cls']), {'spec': spec}))
        if r1['mutated']:
            bad('%s.mutated' % spec['cls'], 'the input frame was modified')
        for pi, part in enumerate(r1['parts']):
            if part['rows'] != r1['rows']:
                bad('%s.analysed-rows' % spec['cls'], 'analysed rows differ from the complete rows of the input (in frame order): %d vs %d rows'
                    % (len(part['rows']), len(r1['rows'])))
            enc = enc_log(part['log'])
            if enc is None:
                bad('%s.predict.exposure-not-set' % spec['cls'], 'outcome learner asked to predict with a non-constant treatment column')
                continue
            evs, held = enc
            exprs.append(coq_case(spec, part, evs, held))
            meta.append((spec, pi, part, evs, size))
    res, errs = coq_eval(ctx, 'c04', ['Zepid.Model.Crossfit'], exprs, shard=40)
    if errs:
        ctx.broken_ties.append('coq evaluation failed: ' + errs[0][1][-300:])
    for (spec, pi, part, evs, size), r in zip(meta, res):
        ctx.evaluations += 1
        if r is None:
            continue
        payload = {'spec': spec, 'partition': pi, 'splits': part['splits']}
        where = '[%s n=%d k=%d partition %d/%d random_state=%d seed=%r learner=%s]' % (
            spec['cls'], spec['n'], spec['k'], pi + 1, spec['nparts'], spec['rs'], part['seed'], spec.get('learner', 'plain'))
        status, m_sp, m_evs, picks_ok, (rows_nodup, part_ok, leak_ok, sep_ok, held_ok) = r   # Coq prints left-nested pairs flat
        ctx.nontriv([spec['cls'], spec['n'], spec['k'], part['splits']])
        ctx.sample({'class': spec['cls'], 'n': len(part['rows']), 'k': spec['k'], 'part_sizes': [len(s) for s in part['splits']],
                    'calls': len(evs), 'model_status': status}, cap=4)
        # (c) oracle hypotheses on what pandas returned
        ctx.oracle_checks += len(picks_ok)
        if not rows_nodup:
            ctx.broken_ties.append('harness: row identifiers not distinct ' + where)
        if not all(picks_ok) or len(part['picks']) != spec['k'] - 1:
            ctx.broken_ties.append('oracle: DataFrame.sample violated PickSpec or was called %d times for k=%d %s'
                                   % (len(part['picks']), spec['k'], where))
        # (a) correspondence model <-> implementation
        ctx.disagreements_checked += 1
        if status != 0:
            fails.append((size, '%s.model-rejects' % spec['cls'], 'model status %d but implementation ran %s' % (status, where), payload))
            continue
        if [list(s) for s in m_sp] != part['splits']:
            fails.append((size, '%s.splits' % spec['cls'],
                          'parts differ from _sample_split_ model: impl sizes %r model sizes %r %s'
                          % ([len(s) for s in part['splits']], [len(s) for s in m_sp], where), payload))
        m_list = [(t, j, list(ids)) for t, j, ids in m_evs]
        if m_list != [(t, j, list(ids)) for t, j, ids in evs]:
            d = next((i for i, (x, y) in enumerate(zip(m_list, evs)) if x != (y[0], y[1], list(y[2]))), min(len(m_list), len(evs)))
            fails.append((size, '%s.schedule' % spec['cls'],
                          'learner-call log differs from the model schedule at call %d (tag, model index, sorted row ids): impl %r model %r %s'
                          % (d, (evs[d][0], evs[d][1], sorted(evs[d][2])) if d < len(evs) else None,
                             (m_list[d][0], m_list[d][1], sorted(m_list[d][2])) if d < len(m_list) else None, where), payload))
        # (b) the property itself, Coq-evaluated on the implementation's parts and log
        if not part_ok:
            fails.append((size, '%s.partition' % spec['cls'],
                          'parts are not a near-equal partition of the analysed rows: sizes %r of n=%d %s'
                          % ([len(s) for s in part['splits']], len(part['rows']), where), payload))
        if not leak_ok:
            fails.append((size, '%s.leak' % spec['cls'],
                          'some row is not predicted exactly once per nuisance by a learner fitted without it %s' % where, payload))
        if not held_ok:
            fails.append((size, '%s.leak.held-at-predict' % spec['cls'],
                          'a learner object predicted rows that are among the training rows it holds at predict time '
                          '(fitted state shared between the per-part copies?) %s' % where, payload))
        if not sep_ok:
            fails.append((size, '%s.double-same-part' % spec['cls'],
                          'treatment and outcome learners used for a row were fitted on the same part %s' % where, payload))


def check_guards(ctx, specs, fails):
    exprs = []
    for spec in specs:
        exprs.append('print_result (crossfit_partition %s (pick_tbl []) %s %d)'
                     % ('true' if is_double(spec['cls']) else 'false', zl(range(spec['n'])), spec['k']))
    res, errs = coq_eval(ctx, 'c04g', ['Zepid.Model.Crossfit'], exprs, shard=40)
    if errs:
        ctx.broken_ties.append('coq evaluation failed: ' + errs[0][1][-300:])
    for spec, r in zip(specs, res):
        ctx.evaluations += 1
        ctx.programs += 1
        ctx.count('guard:k=%d' % spec['k'])
        if r is None:
            continue
        o = run_once(spec)
        impl = 'ValueError' if (o['error'] or '').startswith('ValueError') else ('ok' if o['error'] is None else o['error'])
        model = {0: 'ok', 1: 'ValueError', 2: 'IndexError'}[r[0]]
        ctx.disagreements_checked += 1
        if impl != model or (o['parts'] and model == 'ValueError'):
            fails.append((0, '%s.guard' % spec['cls'], '%s.fit(n_splits=%d): implementation %s (learner calls: %d), model %s'
                          % (spec['cls'], spec['k'], impl, sum(len(p['log']) for p in o['parts']), model), {'spec': spec, 'guard': True}))


def report(ctx, fails):
    fails.sort(key=lambda f: f[0])
    seen = set()
    for size, key, what, payload in fails:
        if key in seen:
            continue
        seen.add(key)
        n = sum(1 for f in fails if f[1] == key)
        ctx.violation(key, what + ' [%d failing cases]' % n, payload)


def split_seed_part(ctx, fails):
    """the splitter itself, at the seeds fit() may hand it (one drawn per partition from range(5000000), so 0 is among them):
    the parts are a function of (data, n_splits, seed) -- whatever the process-wide numpy generator holds -- and are the
    documented sequential draws of n // n_splits rows without replacement from RandomState(seed)"""
    import zepid.causal.doublyrobust.crossfit as cf
    from numpy.random import RandomState
    for rep in range(2 if ctx.quick else 8):
        n = ctx.rng.randint(11, 40)
        k = ctx.rng.choice([2, 3, 4])
        data = pd.DataFrame({'rid': list(range(100, 100 + n)), 'x': np.arange(n) * 0.5})
        if rep % 2:
            data.index = ['r%02d' % (n - i) for i in range(n)]
        for seed in (0, np.int64(0), 1, 4999999, np.int64(ctx.rng.randint(2, 4999998))):
            runs = []
            for pre in (12345, 54321):
                np.random.seed(pre)            # the state of the global generator is not an input
                runs.append([[int(v) for v in part['rid']] for part in cf._sample_split_(data, n_splits=k, random_state=seed)])
            ref, rest = [], data.copy()
            for _ in range(k - 1):
                smp = rest.sample(n=int(n / k), random_state=RandomState(seed))
                ref.append([int(v) for v in smp['rid']])
                rest = rest.loc[rest.index.difference(smp.index)]
            ref.append([int(v) for v in rest['rid']])
            ctx.evaluations += 1
            ctx.disagreements_checked += 2
            ctx.count('splitter called directly with seed %s' % ('0' if int(seed) == 0 else '4999999' if int(seed) == 4999999 else 'other'))
            ctx.nontriv(['split-seed', n, k, int(seed), type(seed).__name__, rep % 2])
            pay = {'part': 'split-seed', 'n': n, 'n_splits': k, 'seed': int(seed), 'seed_type': type(seed).__name__}
            if runs[0] != runs[1]:
                fails.append((n, '_sample_split_.seed-not-honoured', '_sample_split_(n=%d rows, n_splits=%d, random_state=%r [%s]) returned different parts '
                              'after np.random.seed(12345) and after np.random.seed(54321): %r vs %r'
                              % (n, k, int(seed), type(seed).__name__, runs[0][0][:6], runs[1][0][:6]), pay))
            elif [sorted(p) for p in runs[0]] != [sorted(p) for p in ref]:
                fails.append((n, '_sample_split_.not-the-documented-draws', '_sample_split_(n=%d rows, n_splits=%d, random_state=%r) parts %r, sequential '
                              'draws from RandomState(seed) give %r' % (n, k, int(seed), [sorted(p)[:5] for p in runs[0]], [sorted(p)[:5] for p in ref]), pay))


def run(ctx):
    fails = []
    check_guards(ctx, guard_specs(ctx), fails)
    split_seed_part(ctx, fails)
    check_specs(ctx, gen_specs(ctx), fails)
    report(ctx, fails)


def replay(ctx, payload):
    fails = []
    if payload and payload.get('guard'):
        check_guards(ctx, [payload['spec']], fails)
    elif payload and 'spec' in payload:
        check_specs(ctx, [payload['spec']], fails)
    elif payload and payload.get('part') == 'split-seed':
        split_seed_part(ctx, fails)
    else:
        run(ctx)
        return
    report(ctx, fails)
