"""C14 -- stochastic and conditional treatment plans mean what they say
(StochasticIPTW.fit, StochasticTMLE.fit, TimeFixedGFormula.fit_stochastic, stochastic_check_conditional)."""
import itertools
import math
import multiprocessing as mp
import warnings
from fractions import Fraction

import numpy as np
import pandas as pd

from common import coq_eval, frac, close, qlit, TOL_FIT, NCPU
import datagen
import est_common as ec

PROP_FILE = 'theories/Properties/C14.v'
MODEL_FILES = ['theories/Base/Rows.v', 'theories/Model/Estimators.v', 'theories/Model/Stochastic.v']
GEN_GROUPS = ['gfmarg', 'siptw', 'stmle']
RULE = ('random categorical frames (datagen.cat_frame: 1-3 covariates of arity 2-4, both arms in every stratum, both '
        'outcome values in every cell; binary and normal outcomes; one frame in eight carries an integer weights column '
        '(StochasticIPTW only)) with models saturated in the covariates; plans: unconditional p in {0, 1, grid} and conditional '
        'plans over exclusive exhaustive condition sets of size 1-4 (strings "df[\'S\'].isin([..])" / "df[\'L0\']==v" for '
        'StochasticIPTW and StochasticTMLE, the same with "g[...]" for TimeFixedGFormula.fit_stochastic) with '
        'probabilities from {0, 1, grid}, including all-{0,1} plans; StochasticIPTW in EVERY listing order, the simulating '
        'estimators in the given, the reversed and further orders (all orders in the thorough tier for <= 3 conditions) '
        'with 50-400 Monte-Carlo samples and seeds drawn from VERIF_SEED; plus overlapping (non-exclusive) and '
        'non-exhaustive condition sets for the warning / NaN behaviour, a spy custom_model for StochasticTMLE and the '
        'int(p*n) boundary (p=0.58, n=50).  Exact clauses at 1e-6 (fitted GLMs) against the Coq-evaluated mixture / '
        'model; simulated clauses by exact binomial tails (1e-9) on the recorded draws and a 6 SD z-test of the marginal '
        'with the exact variance of the simulation; non-trivial = distinct (frame, plan, order, estimator)')
TRUSTED = ['statsmodels GLM on a design saturated in the cells returns the cell proportion / cell mean as fitted value '
           '(validated on every frame: snap error < 1e-7)',
           'patsy builds the saturated design the formula says; python eval of the condition strings selects the rows of '
           'the strata the harness passes to Coq as c_in codes',
           'numpy.random.binomial(1, p) draws independent Bernoulli(p) and numpy.random.choice(index, size, replace=False) '
           'a uniform subset of that size (their law is assumed in the tail tests; the drawn treatments themselves are '
           'recorded by a proxy around the fitted outcome model\'s predict and checked exactly)',
           'recording proxies installed at run time: numpy.average (StochasticIPTW weights), StochasticTMLE.targeting_step '
           '(clever covariate), the outcome model\'s predict (drawn treatments and per-sample marginals)',
           'the strict monotonicity of the targeting score in epsilon (epsilon = 0 is its only root when the outcome '
           'model is saturated) is an analytic fact about expit outside Q; |epsilon| < 1e-6 is checked on every run']

IMPORTS = ec.IMPORTS + ['Zepid.Model.Stochastic']
GRID = ['0.1', '0.2', '0.25', '0.3', '0.4', '0.5', '0.6', '0.75', '0.8', '0.9']
K_MC = 'StochasticTMLE.fit.conditional-mc-ignores-condition'
K_CUSTOM = 'StochasticTMLE.fit.custom-model-mc-ignores-plan'
P_TAIL = 1e-9


# =================================================================================================== worker
class PredictProxy:
    """stands in for the fitted outcome model: records the treatment column it is asked to predict for"""

    def __init__(self, inner, exposure):
        self.inner, self.exposure = inner, exposure
        self.on = False
        self.draws, self.means = [], []

    def predict(self, df, *a, **k):
        out = self.inner.predict(df, *a, **k)
        if self.on:
            self.draws.append(np.asarray(df[self.exposure], dtype=float).copy())
            self.means.append(float(np.mean(np.asarray(out, dtype=float))))
        return out

    def __getattr__(self, name):
        return getattr(self.inner, name)


class CellMeans:
    """custom_model spy: a saturated learner on X = [A, S] (cell means), recording every X it predicts for"""

    def __init__(self):
        self.table = {}
        self.seen = []
        self.bad_design = 0       # rows whose derived columns (A:S) disagree with their A and S columns

    def get_params(self, deep=False):
        return {}

    def set_params(self, **p):
        return self

    def fit(self, X, y):
        X = np.asarray(X)
        y = np.asarray(y, dtype=float)
        for a, s in set(map(tuple, X[:, :2].astype(int).tolist())):
            m = (X[:, 0].astype(int) == a) & (X[:, 1].astype(int) == s)
            self.table[(a, s)] = float(y[m].mean())
        return self

    def predict_proba(self, X):
        X = np.asarray(X)
        self.seen.append(X[:, 0].astype(int).copy())
        if X.shape[1] >= 3:       # Q-model 'A + S + A:S': the design a learner is handed must be a design of ONE data set
            self.bad_design += int(np.sum(np.abs(X[:, 2] - X[:, 0] * X[:, 1]) > 1e-12))
        p = np.array([self.table[(int(a), int(s))] for a, s in X[:, :2]], dtype=float)
        return np.column_stack([1 - p, p])

    def predict(self, X):
        return self.predict_proba(X)[:, 1]


def _warned(ws):
    return any('NOT exclusive' in str(w.message) for w in ws)


def _summ_draws(draws, S, strata, heads=2):
    """draws: list of float arrays (0/1).  Returns head draws, per-stratum totals drawn into arm 1, NaN flag"""
    D = np.array(draws)
    bad = bool(np.isnan(D).any()) or not bool(np.isin(D, (0.0, 1.0)).all())
    D = np.nan_to_num(D).astype(int)
    K1 = {int(s): int(D[:, S == s].sum()) for s in strata}
    return {'heads': [D[i].tolist() for i in range(min(heads, len(D)))], 'K1': K1, 'bad': bad, 'samples': int(D.shape[0]),
            'D': D}


def work(job):
    import zepid  # noqa
    from zepid.causal.ipw import StochasticIPTW, IPTW
    from zepid.causal.doublyrobust import StochasticTMLE
    from zepid.causal.gformula import TimeFixedGFormula
    warnings.filterwarnings('ignore')
    df = pd.DataFrame(job['data'])
    meta = job['meta']
    if job.get('alias_denom'):
        df['__denom__'] = df['S']
    otype = meta['outcome']
    satL, satAL = meta['sat_L'], meta['sat_AL']
    wcol = 'W' if job.get('weighted') else None
    out = {'errors': {}, 'plans': []}

    def guard(name, fn):
        try:
            return fn()
        except Exception as e:   # noqa
            out['errors'][name] = '%s: %s' % (type(e).__name__, str(e)[:160])
            return None

    # ------------------------------------------------------------------ models (fitted once per frame)
    def mk_sip():
        ip = StochasticIPTW(df, 'A', 'Y', weights=wcol)
        ip.treatment_model(satL, print_results=False)
        return ip
    sip = guard('StochasticIPTW.treatment_model', mk_sip)
    if sip is not None:
        out['S'] = np.asarray(sip.df['S']).astype(int).tolist()
        out['A'] = np.asarray(sip.df['A']).astype(int).tolist()
        out['Y'] = np.asarray(sip.df['Y'], dtype=float).tolist()
        out['W'] = np.asarray(sip.df[wcol]).astype(int).tolist() if wcol else None
        out['g'] = np.asarray(sip._pdenom_, dtype=float).tolist()
        out['same_rows'] = bool(len(sip.df) == len(df) and (np.asarray(sip.df['S']) == np.asarray(df['S'])).all())
    S = np.asarray(df['S']).astype(int)
    strata = sorted(set(S.tolist()))

    gf = tm = None
    if not wcol:
        def mk_gf():
            g = TimeFixedGFormula(df, 'A', 'Y', outcome_type=otype)
            g.outcome_model(satAL, print_results=False)
            g.fit('all')
            out['gf_all'] = float(g.marginal_outcome)
            out['q1'] = np.asarray(g.predicted_df['Y'], dtype=float).tolist()
            g.fit('none')
            out['gf_none'] = float(g.marginal_outcome)
            out['q0'] = np.asarray(g.predicted_df['Y'], dtype=float).tolist()
            g._outcome_model = PredictProxy(g._outcome_model, 'A')
            return g
        gf = guard('TimeFixedGFormula.outcome_model', mk_gf)

        def mk_iptw():
            res = {}
            for tag, model in [('sat', satL)] + ([('sub', job['sub_model'])] if job.get('sub_model') else []):
                ip = IPTW(df, 'A', 'Y')
                ip.treatment_model(model, stabilized=False, print_results=False)
                ip.marginal_structural_model('A')
                if otype == 'binary':
                    ip.fit()
                    mu0 = float(ip.risk_difference['RD'].iloc[0])
                    mu1 = mu0 + float(ip.risk_difference['RD'].iloc[1])
                else:
                    ip.fit(continuous_distribution='gaussian')
                    b0, b1 = [float(x) for x in ip.average_treatment_effect['ATE']]
                    mu0, mu1 = b0, b0 + b1
                res[tag] = (mu1, mu0)
            out['iptw'] = res
            if job.get('sub_model'):
                sp = StochasticIPTW(df, 'A', 'Y')
                sp.treatment_model(job['sub_model'], print_results=False)
                sp.fit(p=1.0)
                m1 = float(sp.marginal_outcome)
                sp.fit(p=0.0)
                out['sip_sub'] = (m1, float(sp.marginal_outcome))
        guard('IPTW.fit', mk_iptw)

        if otype == 'binary':
            def mk_tm():
                t = StochasticTMLE(df, 'A', 'Y')
                t.exposure_model(satL)
                t.outcome_model(satAL)
                out['tm_den'] = np.asarray(t._denominator_, dtype=float).tolist()
                out['tm_q'] = np.asarray(t._Qinit_, dtype=float).tolist()
                t._outcome_model = PredictProxy(t._outcome_model, 'A')
                return t
            tm = guard('StochasticTMLE.outcome_model', mk_tm)

    if wcol:
        # with a weights column and a NON-saturated treatment model: StochasticIPTW(p=1 / 0) is still the arm mean of the unstabilised
        # marginal structural model fitted with the same weights and the same treatment model
        def mk_iptw_w():
            # a main-effects-only model of two covariates is not saturated and (unlike the intercept-only model) does not force the
            # weighted sum of A/g to equal the sum of the weights
            cand = [m_ for m_ in (job.get('meta') or {}).get('sub_models', []) if '+' in m_ and '*' not in m_ and ':' not in m_]
            model = cand[0] if cand else (job.get('sub_model') or '1')
            ip = IPTW(df, 'A', 'Y', weights=wcol)
            ip.treatment_model(model, stabilized=False, print_results=False)
            ip.marginal_structural_model('A')
            if otype == 'binary':
                ip.fit()
                mu0 = float(ip.risk_difference['RD'].iloc[0])
                mu1 = mu0 + float(ip.risk_difference['RD'].iloc[1])
            else:
                ip.fit(continuous_distribution='gaussian')
                b0, b1 = [float(x) for x in ip.average_treatment_effect['ATE']]
                mu0, mu1 = b0, b0 + b1
            sp = StochasticIPTW(df, 'A', 'Y', weights=wcol)
            sp.treatment_model(model, print_results=False)
            sp.fit(p=1.0)
            m1 = float(sp.marginal_outcome)
            sp.fit(p=0.0)
            out['iptw_w'] = (mu1, mu0, m1, float(sp.marginal_outcome), model)
        guard('IPTW.fit(weights)', mk_iptw_w)

    # ------------------------------------------------------------------ plans
    def sip_fit(p, conds):
        rec = {}
        orig = np.average

        def spy(a, axis=None, weights=None, **k):
            rec['w'] = np.asarray(weights, dtype=float).copy()
            return orig(a, axis=axis, weights=weights, **k)
        np.average = spy
        try:
            with warnings.catch_warnings(record=True) as ws:
                warnings.simplefilter('always')
                sip.fit(p=p, conditional=conds)
        finally:
            np.average = orig
        return {'marg': float(sip.marginal_outcome), 'w': rec.get('w', np.array([])).tolist(), 'warn': _warned(ws)}

    def tm_fit(p, conds, samples, seed):
        rec = {}

        def spy(y, q_init, iptw, verbose):
            rec['haw'] = np.asarray(iptw, dtype=float).copy()
            return StochasticTMLE.targeting_step(y=y, q_init=q_init, iptw=iptw, verbose=verbose)
        tm.targeting_step = spy
        px = tm._outcome_model
        px.draws, px.means, px.on = [], [], True
        try:
            with warnings.catch_warnings(record=True) as ws:
                warnings.simplefilter('always')
                tm.fit(p=p, conditional=conds, samples=samples, seed=seed)
        finally:
            px.on = False
        sm = _summ_draws(px.draws, S, strata)
        sm.pop('D')
        sm.update({'marg': float(tm.marginal_outcome), 'mv': [float(x) for x in list(tm.marginals_vector)[:2]],
                   'haw': rec['haw'].tolist(), 'eps': float(tm.epsilon), 'warn': _warned(ws),
                   'ci': [float(x) for x in tm.marginal_ci]})
        return sm

    def gf_fit(p, conds, samples, seed, blocks):
        px = gf._outcome_model
        px.draws, px.means, px.on = [], [], True
        try:
            with warnings.catch_warnings(record=True) as ws:
                warnings.simplefilter('always')
                gf.fit_stochastic(p=p, conditional=conds, samples=samples, seed=seed)
        finally:
            px.on = False
        sm = _summ_draws(px.draws, S, strata)
        D = sm.pop('D')
        # number of selected rows per sample in each block (all rows when unconditional)
        sizes = []
        for b in (blocks or [strata]):
            cnt = D[:, np.isin(S, b)].sum(axis=1)
            sizes.append(sorted(set(int(x) for x in cnt)))
        sm.update({'marg': float(gf.marginal_outcome), 'mv': px.means[:2], 'sizes': sizes, 'warn': _warned(ws)})
        return sm

    for pl in job['plans']:
        po = {'sip': {}, 'tm': {}, 'gf': {}}
        if pl['kind'] == 'uncond':
            p = float(Fraction(pl['p']))
            runs = [('u', p, None, None)]
        else:
            runs = []
            for od in pl['orders']:
                runs.append((','.join(map(str, od)), [float(Fraction(pl['ps'][j])) for j in od], [pl['strs'][j] for j in od],
                             [pl['blocks'][j] for j in od]))
        sim_keys = set(['u'] if pl['kind'] == 'uncond' else [','.join(map(str, od)) for od in pl.get('sim_orders', [])])
        for key, p, conds, blocks in runs:
            if sip is not None:
                # on some frames the stratum code is also stored under a name the library uses internally for its own scratch column
                # ('__denom__', e.g. kept from an earlier IPTW run): a condition may refer to the caller's column by that name
                sconds = [c.replace("df['S']", "df['__denom__']") for c in conds] if (conds and '__denom__' in df.columns) else conds
                r = guard('StochasticIPTW.fit', lambda: sip_fit(p, sconds))
                if r is not None:
                    po['sip'][key] = r
            if key in sim_keys and not wcol and pl.get('sims', True):
                if tm is not None:
                    r = guard('StochasticTMLE.fit', lambda: tm_fit(p, conds, pl['samples'], pl['seed']))
                    if r is not None:
                        po['tm'][key] = r
                if gf is not None and pl.get('gf', True):
                    gconds = [c.replace("df[", "g[") for c in conds] if conds else None
                    r = guard('TimeFixedGFormula.fit_stochastic', lambda: gf_fit(p, gconds, pl['samples'], pl['seed'], blocks))
                    if r is not None:
                        po['gf'][key] = r
        out['plans'].append(po)

    # ------------------------------------------------------------------ custom-model path of StochasticTMLE
    if job.get('custom') and otype == 'binary' and not wcol:
        def custom():
            res = {}
            for p in (1.0, 0.0):
                spyq = CellMeans()
                t = StochasticTMLE(df, 'A', 'Y')
                t.exposure_model(satL)
                qm = 'A + S' if job['custom'] % 2 else 'A + S + A:S'     # the learner reads A and S; the product column is checked
                t.outcome_model(qm, custom_model=spyq)
                n_before = len(spyq.seen)
                t.fit(p=p, samples=3, seed=job['custom'])
                mc = spyq.seen[n_before:]
                res[str(p)] = {'marg': float(t.marginal_outcome), 'eps': float(t.epsilon),
                               'a_frac': [float(np.mean(x)) for x in mc], 'obs_frac': float(np.mean(df['A'])),
                               'a_is_observed': [bool((x == np.asarray(t.df['A']).astype(int)).all()) for x in mc],
                               'bad_design': spyq.bad_design, 'qmodel': qm}
            out['custom'] = res
        guard('StochasticTMLE.fit(custom_model)', custom)
    return out


# =================================================================================================== jobs
def make_plans(rng, df, meta, quick, weighted):
    S = np.asarray(df['S']).astype(int)
    strata = sorted(set(S.tolist()))
    plans = []

    def sim_par():
        return {'samples': rng.choice([50, 100, 200] if quick else [50, 100, 200, 400]), 'seed': rng.randrange(1, 2 ** 31 - 1)}
    for p in ['0', '1'] + rng.sample(GRID, 1 if quick else 3):
        d = {'kind': 'uncond', 'p': p}
        d.update(sim_par())
        plans.append(d)
    n_sets = 2 if quick else 4
    sizes = [k for k in (1, 2, 3, 4) if k <= len(strata)]
    chosen = []
    for i in range(n_sets):
        k = rng.choice(sizes) if i else min(2, len(strata))       # every frame has a two-condition plan
        by_l0 = rng.random() < 0.4 and meta['arities'][0] == k and k > 1
        if by_l0:
            lv = sorted(set(df['L0'].tolist()))
            blocks = [sorted(set(S[np.asarray(df['L0']) == v].tolist())) for v in lv]
            strs = ["df['L0']==%d" % v for v in lv]
        else:
            codes = strata[:]
            rng.shuffle(codes)
            cuts = sorted(rng.sample(range(1, len(codes)), k - 1)) if k > 1 else []
            blocks = [sorted(codes[a:b]) for a, b in zip([0] + cuts, cuts + [len(codes)])]
            strs = ["df['S'].isin(%s)" % b for b in blocks] if k > 1 else ["df['S']>=0"]
        ps = [rng.choice(GRID + ['0', '1']) for _ in range(k)]
        if k > 1 and len(set(ps)) == 1:
            ps[0] = rng.choice([g for g in GRID if g != ps[0]])
        chosen.append((blocks, strs, ps))
    # an all-{0,1} conditional plan on the first two-condition set: the deterministic rule "treat block 0 only"
    b0, s0, _ = chosen[0]
    if len(b0) > 1:
        chosen.append((b0, s0, ['1'] + ['0'] * (len(b0) - 1)))
    for blocks, strs, ps in chosen:
        k = len(blocks)
        orders = [list(o) for o in itertools.permutations(range(k))]
        if k == 1:
            sim_orders = orders
        elif quick:
            sim_orders = [orders[0], orders[-1]] + ([rng.choice(orders[1:-1])] if k > 2 else [])
        else:
            sim_orders = orders if k <= 3 else [orders[0], orders[-1]] + rng.sample(orders[1:-1], 6)
        d = {'kind': 'cond', 'blocks': blocks, 'strs': strs, 'ps': ps, 'orders': orders, 'sim_orders': sim_orders,
             'exclusive': True, 'exhaustive': True}
        d.update(sim_par())
        plans.append(d)
    # malformed: overlapping conditions (warning expected, last listed wins) and a non-exhaustive set (NaN)
    if len(strata) >= 2:
        a, b = strata[0], strata[1]
        ov = [[a, b], [b] + strata[2:]] if len(strata) > 2 else [[a, b], [b]]
        d = {'kind': 'cond', 'blocks': ov, 'strs': ["df['S'].isin(%s)" % x for x in ov], 'ps': [rng.choice(GRID), rng.choice(GRID)],
             'orders': [[0, 1], [1, 0]], 'sim_orders': [[0, 1]], 'exclusive': False, 'exhaustive': True,
             'samples': 2, 'seed': 7, 'warn_only': True}
        plans.append(d)
        ne = [[a]]
        plans.append({'kind': 'cond', 'blocks': ne, 'strs': ["df['S'].isin(%s)" % ne[0]], 'ps': [rng.choice(GRID)],
                      'orders': [[0]], 'sim_orders': [], 'exclusive': True, 'exhaustive': False, 'samples': 2, 'seed': 7,
                      'sims': False})
    return plans


def make_job(rng, quick, otype, weighted=False, cell=None, n_cov=None, arities=None):
    df, meta = datagen.cat_frame(rng, outcome=otype, cell=cell or rng.choice([(2, 6), (2, 6), (4, 12)]), n_cov=n_cov,
                                 arities=arities)
    if weighted:
        df['W'] = [rng.choice([1, 1, 2, 3]) for _ in range(len(df))]
    job = {'data': df.to_dict('list'), 'meta': meta, 'weighted': weighted, 'alias_denom': rng.random() < 0.4,
           'plans': make_plans(rng, df, meta, quick, weighted),
           'sub_model': None if weighted else rng.choice(meta['sub_models']),
           'custom': rng.randrange(1, 2 ** 31 - 1) if (otype == 'binary' and not weighted) else None}
    return job


def boundary_job(rng):
    """a frame with exactly 50 rows and the plan p = 0.58: int(0.58 * 50) is 28 in floating point, 0.58 * 50 = 29"""
    for _ in range(200):
        df, meta = datagen.cat_frame(rng, outcome='binary', n_cov=1, arities=[2], cell=(11, 14))
        if len(df) == 50:
            break
    else:
        return None
    plans = [{'kind': 'uncond', 'p': '0.58', 'samples': 50, 'seed': rng.randrange(1, 2 ** 31 - 1), 'boundary': True}]
    return {'data': df.to_dict('list'), 'meta': meta, 'weighted': False, 'plans': plans, 'sub_model': None, 'custom': None}


# =================================================================================================== Coq side
def coq_plan(pl, order=None):
    if pl['kind'] == 'uncond':
        return 'Uncond %s' % qlit(Fraction(pl['p']))
    od = order if order is not None else list(range(len(pl['blocks'])))
    conds = '; '.join('c_in [%s]%%nat' % '; '.join(str(c) for c in pl['blocks'][j]) for j in od)
    ps = '; '.join(qlit(Fraction(pl['ps'][j])) for j in od)
    return 'Cond [%s] [%s]' % (conds, ps)


def tbl(d):
    return '[' + '; '.join('(%d%%nat, %s)' % (k, qlit(v)) for k, v in sorted(d.items())) + ']'


def build_expr(job, out):
    n = len(out['S'])
    meta = job['meta']
    yden = 1 if meta['outcome'] != 'normal' else 100
    Y = [ec.frac_y(y, 2) for y in out['Y']]
    S, A = out['S'], out['A']
    W = [Fraction(w) for w in out['W']] if out.get('W') else None
    wn = sum(out['W']) if out.get('W') else n
    g, ok = ec.snap_vec(out['g'], wn)
    q1 = q0 = None
    if 'q1' in out and 'q0' in out:
        q1, ok1 = ec.snap_vec(out['q1'], n, yden)
        q0, ok0 = ec.snap_vec(out['q0'], n, yden)
        ok = ok and ok1 and ok0
    rows = ec.coq_rows(S, A, Y, W=W, g1=g, q1=q1, q0=q0)
    nS = {}
    for s in S:
        nS[s] = nS.get(s, 0) + 1
    parts = []
    for pl, po in zip(job['plans'], out['plans']):
        if pl['kind'] == 'uncond':
            orders = [('u', None)]
        else:
            orders = [(','.join(map(str, od)), od) for od in pl['orders']]
        ords = '[' + '; '.join('order_report (%s) l' % coq_plan(pl, od) for _, od in orders) + ']'
        sims = []
        for est in ('tm', 'gf'):
            for key in sorted(po[est]):
                r = po[est][key]
                smp = r['samples']
                k1 = {s: Fraction(r['K1'][s], smp) for s in nS}
                k0 = {s: nS[s] - k1[s] for s in nS}
                heads = '[' + '; '.join('[' + '; '.join('true' if b else 'false' for b in h) + ']' for h in r['heads']) + ']'
                sims.append('sim_report l %s %s %s' % (heads, tbl(k1), tbl(k0)))
        simtxt = '[' + '; '.join(sims) + ']' if sims else '(@nil (list (list Z) * list Z))'
        parts.append('(plan_report (%s) l, %s, %s)' % (coq_plan(pl), ords, simtxt))
    return 'let l := %s in (frame_report l, [%s])' % (rows, ';\n '.join(parts)), ok


# =================================================================================================== checking
def binom_tail(k, N, p):
    """two-sided exact binomial tail probability of an observation at least as far from the mean"""
    from scipy.stats import binom
    if p <= 0.0:
        return 1.0 if k == 0 else 0.0
    if p >= 1.0:
        return 1.0 if k == N else 0.0
    return float(min(1.0, 2.0 * min(binom.cdf(k, N, p), binom.sf(k - 1, N, p))))


def check(ctx, fails, job, out, res, snaps_ok):
    meta = job['meta']
    payload = {'job': job}
    n = len(job['data']['A'])
    otype = meta['outcome']
    tagf = '%s outcome, n=%d, strata=%d' % (otype, n, meta['n_strata'])
    for name, err in out['errors'].items():
        fails.append((n, name + '.raises', '%s raised %s on a saturated categorical design (%s)' % (name, err, tagf), payload))
    if res is None or 'S' not in out:
        return
    if not out.get('same_rows', True):
        ctx.broken_ties.append('harness: the estimator reordered or dropped rows of a complete frame')
    if not snaps_ok:
        ctx.broken_ties.append('oracle: a saturated fit did not return cell proportions/means (snap error > 1e-7), %s' % tagf)
    ctx.oracle_checks += 1
    strata, yb1, yb0, nw, fr, plan_res = res      # Coq prints left-nested pairs flat
    yb1, yb0, nw = [frac(x) for x in yb1], [frac(x) for x in yb0], [frac(x) for x in nw]
    std1, std0, gfm1, gfm0, mu1, mu0 = [frac(x) for x in fr]
    S = np.asarray(out['S'])
    nS = {s: int((S == s).sum()) for s in strata}
    dS = {s: yb1[i] - yb0[i] for i, s in enumerate(strata)}      # exact cell-mean differences

    def cmp(key, what, x, q, tol=TOL_FIT, pl=None):
        ctx.disagreements_checked += 1
        if not close(x, q, tol):
            fails.append((n, key, '%s: implementation %r, Coq-evaluated specification %s (%s) [%s]'
                          % (what, x, q, 'NaN' if q is None else '%.10g' % float(q), tagf), payload))
            return False
        return True

    def tie(what, x, q, tol=TOL_FIT):
        ctx.disagreements_checked += 1
        if not close(x, q, tol):
            ctx.broken_ties.append('correspondence: %s: implementation %r vs model %s [%s]' % (what, x, q, tagf))

    # ---- frame level: deterministic rules of the reference estimators
    if 'gf_all' in out:
        cmp('TimeFixedGFormula.fit.all', "TimeFixedGFormula.fit('all')", out['gf_all'], std1)
        cmp('TimeFixedGFormula.fit.none', "TimeFixedGFormula.fit('none')", out['gf_none'], std0)
        tie('g-formula model all/none', out['gf_all'], gfm1)
        tie('g-formula model all/none', out['gf_none'], gfm0)
    if 'iptw' in out:
        cmp('IPTW.msm.mu1', 'IPTW marginal structural model, treated arm', out['iptw']['sat'][0], std1)
        cmp('IPTW.msm.mu0', 'IPTW marginal structural model, untreated arm', out['iptw']['sat'][1], std0)
        tie('IPTW arm mean model', out['iptw']['sat'][0], mu1)
        if 'sub' in out['iptw'] and 'sip_sub' in out:
            # any (non-saturated) treatment model: StochasticIPTW(p=1/0) IS the arm mean of the unstabilised MSM
            for i, nm in enumerate(('1', '0')):
                ctx.disagreements_checked += 1
                a, b = out['sip_sub'][i], out['iptw']['sub'][i]
                if abs(a - b) > TOL_FIT * max(1.0, abs(b)):
                    fails.append((n, 'StochasticIPTW.fit.p%s-vs-IPTW-msm' % nm,
                                  'StochasticIPTW(p=%s) = %r but the IPTW marginal structural model arm mean is %r with the '
                                  'same treatment model %r [%s]' % (nm, a, b, job['sub_model'], tagf), payload))
    if 'iptw_w' in out:
        mu1, mu0, m1, m0, model = out['iptw_w']
        for nm, a, b in (('1', m1, mu1), ('0', m0, mu0)):
            ctx.disagreements_checked += 1
            ctx.count('StochasticIPTW(weights=) p=%s against the weighted MSM arm, treatment model %s' % (nm, 'intercept only' if model == '1' else 'sub-model'))
            if abs(a - b) > TOL_FIT * max(1.0, abs(b)):
                fails.append((n, 'StochasticIPTW.fit.p%s-vs-IPTW-msm.weighted' % nm,
                              'StochasticIPTW(weights=, p=%s) = %r but the IPTW marginal structural model arm mean with the same weights and the '
                              'same treatment model %r is %r [%s]' % (nm, a, model, b, tagf), payload))
    if 'tm_den' in out:
        # StochasticTMLE fitted the same saturated nuisance models (oracle)
        gA = [gi if a else 1 - gi for gi, a in zip(out['g'], out['A'])]
        qA = [q1 if a else q0 for q1, q0, a in zip(out['q1'], out['q0'], out['A'])]
        if max(abs(x - y) for x, y in zip(gA, out['tm_den'])) > 1e-6 or max(abs(x - y) for x, y in zip(qA, out['tm_q'])) > 1e-6:
            ctx.broken_ties.append('oracle: StochasticTMLE nuisance fits differ from the saturated fits of StochasticIPTW / '
                                   'TimeFixedGFormula on the same frame [%s]' % tagf)

    # ---- plans
    for pl, po, pr in zip(job['plans'], out['plans'], plan_res):
        excl, exh, mix, sipm, sipw, ps_s, ivar, (gmix, gpi, gcounts), ord_res, sim_res = pr
        mix, ivar, gmix = frac(mix), frac(ivar), frac(gmix)
        ps_s = {s: frac(x) for s, x in zip(strata, ps_s)}
        gpi = {s: frac(x) for s, x in zip(strata, gpi)}
        desc = 'p=%s' % pl['p'] if pl['kind'] == 'uncond' else 'conditional=%s p=%s' % (pl['strs'], pl['ps'])
        if pl['kind'] == 'cond' and (bool(excl) != pl['exclusive'] or bool(exh) != pl['exhaustive']):
            ctx.broken_ties.append('harness: generated condition set %s is not what Coq evaluates (exclusive %s, exhaustive %s)'
                                   % (pl['strs'], excl, exh))
        ok_plan = pl.get('exclusive', True) and pl.get('exhaustive', True)
        keys = ['u'] if pl['kind'] == 'uncond' else [','.join(map(str, od)) for od in pl['orders']]
        ctx.count('plan:%s' % ('uncond' if pl['kind'] == 'uncond' else 'cond%d%s' % (len(pl['blocks']), '' if ok_plan else
                                                                                   ('-overlap' if not pl['exclusive'] else '-nonexhaustive'))))
        # ------------------------------------------------------------ StochasticIPTW (exact)
        first = None
        for key, orr in zip(keys, ord_res):
            r = po['sip'].get(key)
            if r is None:
                continue
            ctx.programs += 1
            ctx.nontriv([job['data']['Y'], job['data']['A'], desc, key, 'sip'])
            m_mod, w_mod, haw_mod = orr
            odesc = '%s order %s' % (desc, key)
            # model of the loop in THIS order vs implementation
            tie('StochasticIPTW marginal (%s)' % odesc, r['marg'], frac(m_mod))
            if len(r['w']) == len(w_mod) and all(x[1] != 0 for x in w_mod):
                bad = [i for i, (x, q) in enumerate(zip(r['w'], w_mod)) if not close(x, frac(q), TOL_FIT)]
                ctx.disagreements_checked += len(w_mod)
                if bad:
                    ctx.broken_ties.append('correspondence: StochasticIPTW weight of row %d: %r vs model %s (%s)'
                                           % (bad[0], r['w'][bad[0]], frac(w_mod[bad[0]]), odesc))
            if pl['kind'] == 'cond':
                ctx.disagreements_checked += 1
                if r['warn'] != (not pl['exclusive']):
                    fails.append((n, 'stochastic_check_conditional.warning',
                                  'StochasticIPTW.fit(%s): exclusivity warning %s but the conditions are %sexclusive [%s]'
                                  % (odesc, 'issued' if r['warn'] else 'not issued', '' if pl['exclusive'] else 'NOT ', tagf), payload))
            if not ok_plan:
                continue
            # the property: the mixture, in every order
            cmp('StochasticIPTW.fit.mixture', 'StochasticIPTW.fit(%s) marginal_outcome vs stratum mixture' % odesc, r['marg'], mix)
            ctx.disagreements_checked += 1
            if r['w'] and abs(sum(r['w']) - float(sum(nw))) > TOL_FIT * float(sum(nw)):
                fails.append((n, 'StochasticIPTW.fit.weights-sum', 'StochasticIPTW.fit(%s): weights sum to %r, not to n = %s [%s]'
                              % (odesc, sum(r['w']), sum(nw), tagf), payload))
            if first is None:
                first = r
            else:
                ctx.disagreements_checked += 1
                dw = max([abs(x - y) for x, y in zip(r['w'], first['w'])] or [0.0])
                if abs(r['marg'] - first['marg']) > 1e-12 * max(1, abs(first['marg'])) or dw > 1e-12 * max(1.0, max(first['w'])):
                    fails.append((n, 'StochasticIPTW.fit.order-dependent',
                                  'StochasticIPTW.fit(%s) gives %r, the first listing order %r (max weight difference %g) [%s]'
                                  % (odesc, r['marg'], first['marg'], dw, tagf), payload))
            if pl['kind'] == 'uncond' and pl['p'] in ('0', '1') and not job.get('weighted'):
                ref_gf = out.get('gf_all' if pl['p'] == '1' else 'gf_none')
                ref_ip = out.get('iptw', {}).get('sat', (None, None))[0 if pl['p'] == '1' else 1]
                for nm, ref in (('TimeFixedGFormula.fit', ref_gf), ('IPTW-msm', ref_ip)):
                    if ref is not None:
                        ctx.disagreements_checked += 1
                        if abs(r['marg'] - ref) > TOL_FIT * max(1.0, abs(ref)):
                            fails.append((n, 'StochasticIPTW.fit.p%s-vs-%s' % (pl['p'], nm),
                                          'StochasticIPTW(p=%s) = %r, deterministic rule by %s = %r [%s]' % (pl['p'], r['marg'], nm, ref, tagf), payload))
        if job.get('weighted'):
            continue
        # ------------------------------------------------------------ simulating estimators
        sim_iter = iter(sim_res)
        blocks_of = (lambda key: [strata]) if pl['kind'] == 'uncond' else (lambda key: [pl['blocks'][int(j)] for j in key.split(',')])
        pdec_of = (lambda key: [Fraction(pl['p'])]) if pl['kind'] == 'uncond' else (lambda key: [Fraction(pl['ps'][int(j)]) for j in key.split(',')])
        det_plan = all(v in (0, 1) for v in ps_s.values())
        haw_first = None
        for est in ('tm', 'gf'):
            for key in sorted(po[est]):
                r = po[est][key]
                heads_mod, cm_mod = next(sim_iter)
                cm_mod = frac(cm_mod)
                name = 'StochasticTMLE.fit' if est == 'tm' else 'TimeFixedGFormula.fit_stochastic'
                odesc = '%s order %s, samples=%d, seed=%d' % (desc, key, pl['samples'], pl['seed'])
                ctx.programs += 1
                ctx.nontriv([job['data']['Y'], job['data']['A'], desc, key, est])
                smp = r['samples']
                if pl['kind'] == 'cond':
                    ctx.disagreements_checked += 1
                    if r['warn'] != (not pl['exclusive']):
                        fails.append((n, ('stochastic_check_conditional' if est == 'tm' else 'TimeFixedGFormula._check_conditional') + '.warning',
                                      '%s(%s): exclusivity warning %s but the conditions are %sexclusive [%s]'
                                      % (name, odesc, 'issued' if r['warn'] else 'not issued', '' if pl['exclusive'] else 'NOT ', tagf), payload))
                if pl.get('warn_only') or not ok_plan:
                    continue
                if r['bad'] or smp != pl['samples']:
                    fails.append((n, name + '.draws', '%s(%s): %d samples recorded, drawn treatment not in {0,1}: %s [%s]'
                                  % (name, odesc, smp, r['bad'], tagf), payload))
                    continue
                # (i) deterministic: a sample's marginal is the model's function of the recorded draw; the Monte-Carlo
                #     mean is the counts formula of the mean per-stratum counts
                for x, q in zip(r['mv'], heads_mod):
                    tie('%s per-sample marginal (%s)' % (name, odesc), x, frac(q))
                cmp(name + '.marginal-vs-recorded-draws', '%s(%s) marginal_outcome vs counts formula of its own recorded draws' % (name, odesc),
                    r['marg'], cm_mod)
                if est == 'tm':
                    ctx.oracle_checks += 1
                    if abs(r['eps']) > 1e-6:
                        ctx.broken_ties.append('oracle: StochasticTMLE epsilon = %g with saturated models (%s)' % (r['eps'], odesc))
                    hm = [frac(x) for x in orr_haw(ord_res, keys, key)]
                    ctx.disagreements_checked += len(hm)
                    badh = [i for i, (x, q) in enumerate(zip(r['haw'], hm)) if not close(x, q, TOL_FIT)]
                    if badh:
                        fails.append((n, 'StochasticTMLE.fit.clever-covariate',
                                      'StochasticTMLE.fit(%s): clever covariate of row %d is %r, plan probability of the received treatment over '
                                      'the fitted probability is %s [%s]' % (odesc, badh[0], r['haw'][badh[0]], hm[badh[0]], tagf), payload))
                    if haw_first is None:
                        haw_first = r['haw']
                    else:
                        ctx.disagreements_checked += 1
                        dh = max(abs(x - y) for x, y in zip(r['haw'], haw_first))
                        if dh > 1e-12 * max(1.0, max(haw_first)):
                            fails.append((n, 'StochasticTMLE.fit.clever-covariate-order-dependent',
                                          'StochasticTMLE.fit(%s): clever covariate differs from the first listing order by %g [%s]' % (odesc, dh, tagf), payload))
                # (ii) the law of the recorded draws
                law_bad = None
                if est == 'tm':
                    for s in strata:
                        N, k, p = nS[s] * smp, r['K1'][s], float(ps_s[s])
                        ctx.disagreements_checked += 1
                        pv = binom_tail(k, N, p)
                        if pv < P_TAIL:
                            law_bad = (s, k, N, p, pv)
                            break
                    if law_bad:
                        s, k, N, p, pv = law_bad
                        key_ = K_MC if pl['kind'] == 'cond' else 'StochasticTMLE.fit.mc-assignment'
                        fails.append((n, key_, 'StochasticTMLE.fit(%s): in the Monte-Carlo step rows of stratum S=%d were treated '
                                      '%d times out of %d (rate %.4f) but the plan gives them probability %.4g (exact binomial tail %.3g)%s [%s]'
                                      % (odesc, s, k, N, k / N, p, pv,
                                         '; every row gets the LAST listed probability %s' % pdec_of(key)[-1] if pl['kind'] == 'cond' else '', tagf), payload))
                else:
                    want = [int(c) for c in (gcounts if pl['kind'] == 'uncond' else [gcounts[int(j)] for j in key.split(',')])]
                    # gcounts are in the plan's own order (order 0..k-1)
                    got = r['sizes']
                    ctx.disagreements_checked += len(want)
                    if any(g != [w] for g, w in zip(got, want)):
                        nb = [sum(nS[s] for s in b) for b in blocks_of(key)]
                        flt = [int(float(p) * m) for p, m in zip(pdec_of(key), nb)]
                        if all(g == [f] for g, f in zip(got, flt)):
                            fails.append((n, 'TimeFixedGFormula.fit_stochastic.int-truncation',
                                          'fit_stochastic(%s): int(p*n) computed in floating point selects %s rows of groups of %s; '
                                          'floor(p*n) with p = %s is %s [%s]' % (odesc, [g[0] for g in got], nb, [str(p) for p in pdec_of(key)], want, tagf), payload))
                        else:
                            fails.append((n, 'TimeFixedGFormula.fit_stochastic.selected-count',
                                          'fit_stochastic(%s): rows selected per sample %s, floor(p*n) = %s [%s]' % (odesc, got, want, tagf), payload))
                        law_bad = True
                    else:
                        for b, m in zip(blocks_of(key), want):
                            nc = sum(nS[s] for s in b)
                            for s in b:
                                mean = smp * m * nS[s] / nc
                                var = smp * m * (nS[s] / nc) * (1 - nS[s] / nc) * (nc - m) / (nc - 1) if nc > 1 else 0.0
                                ctx.disagreements_checked += 1
                                if abs(r['K1'][s] - mean) > 6 * math.sqrt(var) + 1 + 1e-9:
                                    law_bad = True
                                    fails.append((n, 'TimeFixedGFormula.fit_stochastic.selection-law',
                                                  'fit_stochastic(%s): stratum S=%d drawn %d times over %d samples, uniform selection of %d of %d expects %.1f (sd %.2f) [%s]'
                                                  % (odesc, s, r['K1'][s], smp, m, nc, mean, math.sqrt(var), tagf), payload))
                # (iii) the property: marginal vs mixture within Monte-Carlo error (6 SD of the simulation's exact variance)
                if est == 'tm':
                    sd = math.sqrt(max(float(ivar), 0.0) / smp)
                    ctx.disagreements_checked += 1
                    if abs(r['marg'] - float(mix)) > 6 * sd + TOL_FIT:
                        key_ = K_MC if (pl['kind'] == 'cond' and law_bad) else 'StochasticTMLE.fit.marginal-vs-mixture'
                        fails.append((n, key_, 'StochasticTMLE.fit(%s): marginal_outcome %r, stratum mixture %s = %.6f, Monte-Carlo sd %.2g '
                                      '(%.1f sd away)%s [%s]' % (odesc, r['marg'], mix, float(mix), sd, abs(r['marg'] - float(mix)) / max(sd, 1e-300),
                                                               '; deterministic plan' if det_plan else '', tagf), payload))
                elif not law_bad:
                    var = Fraction(0)      # exact variance of one sample: m of nc rows drawn without replacement
                    for b, m in zip(blocks_of(key), want):
                        nc = sum(nS[s] for s in b)
                        if nc > 1:
                            pm = sum(nS[s] * dS[s] for s in b) / nc
                            pv = sum(nS[s] * dS[s] ** 2 for s in b) / nc - pm ** 2
                            var += Fraction(m * (nc - m), nc - 1) * pv
                    sd = math.sqrt(float(var) / smp) / n
                    ctx.disagreements_checked += 2
                    if abs(r['marg'] - float(gmix)) > 6 * sd + TOL_FIT:
                        fails.append((n, 'TimeFixedGFormula.fit_stochastic.marginal-vs-realised-plan',
                                      'fit_stochastic(%s): marginal_outcome %r, mixture at the realised proportions int(p*n)/n %s = %.6f, sd %.2g [%s]'
                                      % (odesc, r['marg'], gmix, float(gmix), sd, tagf), payload))
                    elif abs(r['marg'] - float(mix)) > 6 * sd + TOL_FIT:
                        realised = {s: str(gpi[s]) for s in strata}
                        fails.append((n, 'TimeFixedGFormula.fit_stochastic.floor-of-p-times-n',
                                      'fit_stochastic(%s): marginal_outcome %r is the mixture at the realised proportions int(p*n_c)/n_c (%s: %.6f) '
                                      'but the mixture at the requested probabilities is %.6f; Monte-Carlo sd %.2g (%.0f sd away), so the gap does not '
                                      'shrink with more samples [%s]' % (odesc, r['marg'], realised, float(gmix), float(mix), sd,
                                                                        abs(r['marg'] - float(mix)) / max(sd, 1e-300) if sd > 0 else float('inf'), tagf), payload))
                # (iv) p = 0 / 1 everywhere: the deterministic rule
                if pl['kind'] == 'uncond' and pl['p'] in ('0', '1'):
                    ref = out.get('gf_all' if pl['p'] == '1' else 'gf_none')
                    cmp(name + '.p%s-vs-std' % pl['p'], '%s(%s) vs treat-%s standardised mean' % (name, odesc, 'all' if pl['p'] == '1' else 'none'),
                        r['marg'], std1 if pl['p'] == '1' else std0)
                    if ref is not None:
                        ctx.disagreements_checked += 1
                        if abs(r['marg'] - ref) > TOL_FIT * max(1.0, abs(ref)):
                            fails.append((n, name + '.p%s-vs-TimeFixedGFormula.fit' % pl['p'],
                                          '%s(%s) = %r, TimeFixedGFormula.fit(%r) = %r [%s]' % (name, odesc, r['marg'], 'all' if pl['p'] == '1' else 'none', ref, tagf), payload))

    # ---- custom-model path of StochasticTMLE (spy learner saturated in (A, S))
    if 'custom' in out:
        for ptxt, q in (('1.0', std1), ('0.0', std0)):
            r = out['custom'][ptxt]
            ctx.programs += 1
            ctx.disagreements_checked += 2
            want_frac = float(ptxt)
            if r.get('bad_design'):
                fails.append((n, 'StochasticTMLE.fit.custom-model-inconsistent-design', 'StochasticTMLE.fit(p=%s) with outcome_model(%r, custom_model=...): '
                              'the learner was handed %d design rows whose A:S column is not the product of their A and S columns [%s]'
                              % (ptxt, r.get('qmodel'), r['bad_design'], tagf), payload))
            if any(abs(f - want_frac) > 1e-12 for f in r['a_frac']) or not close(r['marg'], q, TOL_FIT):
                fails.append((n, K_CUSTOM, 'StochasticTMLE.fit(p=%s, samples=3) with outcome_model(custom_model=...): the learner was asked to predict '
                              'for designs whose treatment column has mean %s (observed treatment: %s; identical to the observed column: %s) instead of %s; '
                              'marginal_outcome %r, treat-%s standardised mean %.6f [%s]'
                              % (ptxt, r['a_frac'], r['obs_frac'], r['a_is_observed'], want_frac, r['marg'], 'all' if ptxt == '1.0' else 'none', float(q), tagf), payload))


def orr_haw(ord_res, keys, key):
    return ord_res[keys.index(key)][2]


# =================================================================================================== run
def run_jobs(ctx, fails, jobs):
    if len(jobs) > 1:
        with mp.get_context('fork').Pool(max(2, min(6, NCPU))) as pool:
            outs = pool.map(work, jobs, chunksize=1)
    else:
        outs = [work(j) for j in jobs]
    exprs, oks = [], []
    for job, out in zip(jobs, outs):
        if 'S' in out:
            e, ok = build_expr(job, out)
        else:
            e, ok = '(0%Z)', True
        exprs.append(e)
        oks.append(ok)
    res, errs = coq_eval(ctx, 'c14', IMPORTS, exprs, shard=1)
    if errs:
        ctx.broken_ties.append('coq evaluation failed: ' + errs[0][1][-400:])
    for job, out, r, ok in zip(jobs, outs, res, oks):
        ctx.evaluations += 1
        meta = job['meta']
        ctx.count('outcome:' + meta['outcome'] + ('+weights' if job.get('weighted') else ''))
        ctx.count('strata:%d' % meta['n_strata'])
        ctx.count('rows:%d-%d' % (len(job['data']['A']) // 50 * 50, len(job['data']['A']) // 50 * 50 + 49))
        if r is not None and 'S' in out:
            pl0 = next((i for i, p in enumerate(job['plans']) if p['kind'] == 'cond' and p.get('exhaustive') and p.get('exclusive')), None)
            if pl0 is not None:
                po = out['plans'][pl0]
                ctx.sample({'n': meta['n'], 'arities': meta['arities'], 'outcome': meta['outcome'],
                            'plan': {'conditional': job['plans'][pl0]['strs'], 'p': job['plans'][pl0]['ps']},
                            'coq_mixture': str(frac(r[5][pl0][2])),
                            'StochasticIPTW': {k: v['marg'] for k, v in po['sip'].items()},
                            'StochasticTMLE': {k: v['marg'] for k, v in po['tm'].items()},
                            'fit_stochastic': {k: v['marg'] for k, v in po['gf'].items()}}, cap=3)
        try:
            check(ctx, fails, job, out, r if (r is not None and 'S' in out) else None, ok)
        except Exception as e:   # noqa  a malformed Coq result is a broken tie, not a pass
            import traceback
            ctx.broken_ties.append('harness: comparing a frame failed: %r %s' % (e, traceback.format_exc()[-400:]))


def degenerate_part(ctx, fails, frames=None, only_missing=False):
    """probability 1 / 0 (scalar, and conditionally for every stratum) in TimeFixedGFormula.fit_stochastic equals fit('all') /
    fit('none') of the SAME object configuration: every `standardize` target, with and without a weights column, saturated
    and non-saturated outcome models.  No randomness is left at p in {0,1}, so the comparison is exact."""
    from zepid.causal.gformula import TimeFixedGFormula
    n = (3 if ctx.quick else 16) if not only_missing else (1 if ctx.quick else 5)
    made = frames or []
    if not frames:
        for i in range(n):
            otype = 'binary' if i % 3 != 2 else 'normal'
            if only_missing:
                i = 2 * i + 1
            df, meta = datagen.cat_frame(ctx.rng, outcome=otype, cell=(2, 6))
            df['W'] = [ctx.rng.choice([1, 1, 2, 3]) for _ in range(len(df))]
            if i % 2 == 1:
                # outcomes missing more often in one stratum of L0 (every stratum-by-arm cell keeps an observed outcome): the
                # rows are retained, `predict_missing` decides whether they are averaged over
                df['Y'] = df['Y'].astype(float)
                first = sorted(set(df['L0']))[0]
                for _, cell in df.groupby([c for c in df.columns if c.startswith('L')] + ['A']):
                    k = len(cell) // 2 if cell['L0'].iloc[0] == first else (1 if len(cell) >= 3 and ctx.rng.random() < 0.5 else 0)
                    df.loc[cell.index[:k], 'Y'] = np.nan
            made.append({'data': {c: [None if (isinstance(v, float) and v != v) else v for v in df[c].tolist()] for c in df.columns},
                         'meta': meta, 'model': ctx.rng.choice(['sat', 'sub']), 'sub': ctx.rng.choice(meta['sub_models'])})
    for fr in made:
        df, meta = pd.DataFrame({c: [float('nan') if v is None else v for v in vals] for c, vals in fr['data'].items()}), fr['meta']
        has_missing = bool(df['Y'].isna().any())
        otype = meta['outcome']
        rhs = meta['sat_AL'] if fr['model'] == 'sat' else ('A + ' + fr['sub'] if fr['sub'] != '1' else 'A')
        l0 = 'L0'
        lv = sorted(set(df[l0]))
        payload = {'part': 'degenerate', 'frame': fr}
        ctx.evaluations += 1
        ctx.nontriv(['degenerate', df['Y'].tolist(), df['A'].tolist(), rhs])
        for std in ('population', 'exposed', 'unexposed'):
            for wcol in (None, 'W'):
              for pm in ((True, False) if has_missing else (True,)):
                ctx.count('degenerate:standardize=%s,weights=%s%s' % (std, bool(wcol), ',missing outcomes,predict_missing=%s' % pm if has_missing else ''))
                pmk = {'predict_missing': pm} if has_missing else {}
                try:
                    g = TimeFixedGFormula(df, 'A', 'Y', outcome_type=otype if otype != 'normal' else 'normal', standardize=std, weights=wcol)
                    g.outcome_model(rhs, print_results=False)
                    ref = {}
                    for plan, pv in (('all', 1.0), ('none', 0.0)):
                        g.fit(plan, **pmk)
                        ref[pv] = float(g.marginal_outcome)
                    got = {}
                    for pv in (1.0, 0.0):
                        g.fit_stochastic(p=pv, samples=3, seed=11, **pmk)
                        got[('scalar', pv)] = float(g.marginal_outcome)
                        conds = ["g['%s']==%r" % (l0, v) for v in lv]
                        g.fit_stochastic(p=[pv] * len(conds), conditional=conds, samples=3, seed=12, **pmk)
                        got[('conditional', pv)] = float(g.marginal_outcome)
                    # a plan that conditions on the OBSERVED exposure: "everybody switches" (the treated stop with probability 1,
                    # the untreated start with probability 1) is the deterministic rule A := 1 - A, in every replicate
                    g.fit("g['A']==0", **pmk)
                    ref['switch'] = float(g.marginal_outcome)
                    g.fit_stochastic(p=[0.0, 1.0], conditional=["g['A']==1", "g['A']==0"], samples=4, seed=13, **pmk)
                    got[('conditional-on-exposure', 'switch')] = float(g.marginal_outcome)
                except Exception as e:   # noqa
                    fails.append((len(df), 'TimeFixedGFormula.fit_stochastic.degenerate.raises',
                                  'TimeFixedGFormula(standardize=%s, weights=%s%s): %s: %s' % (std, wcol, ', predict_missing=%s' % pm if has_missing else '',
                                                                                              type(e).__name__, str(e)[:120]), payload))
                    continue
                ctx.programs += 1
                for (how, pv), v in got.items():
                    ctx.disagreements_checked += 1
                    if not (abs(v - ref[pv]) <= 1e-9 * max(1.0, abs(ref[pv]))):
                        fails.append((len(df), 'TimeFixedGFormula.fit_stochastic.degenerate.%s' % std,
                                      "TimeFixedGFormula(standardize=%s, weights=%s, model %r%s): fit_stochastic with %s probability %g gives %r, "
                                      "fit(%r) gives %r" % (std, wcol, rhs, ', missing outcomes, predict_missing=%s' % pm if has_missing else '', how,
                                                            pv if pv != 'switch' else 1.0, v,
                                                            "g['A']==0" if pv == 'switch' else ('all' if pv == 1.0 else 'none'), ref[pv]), payload))


def rare_outcome_part(ctx, fails):
    """a rare binary outcome (stratum risks of a few per 10 000) in a large cohort: StochasticTMLE with a saturated outcome model and
    a valid, non-saturated treatment model must give the treat-all / treat-none values of TimeFixedGFormula at p = 1 / 0 (no
    prediction of a binary outcome may be moved by an internal bound)"""
    from zepid.causal.doublyrobust import StochasticTMLE
    from zepid.causal.gformula import TimeFixedGFormula
    rows = []
    for l0 in (0, 1):
        for a in (0, 1):
            m = ctx.rng.randint(9000, 12000)
            ev = ctx.rng.randint(1, 5)
            rows += [[l0, a, 1.0]] * ev + [[l0, a, 0.0]] * (m - ev)
    ctx.rng.shuffle(rows)
    df = pd.DataFrame(rows, columns=['L0', 'A', 'Y'])
    payload = {'part': 'rare-outcome', 'cells': df.groupby(['L0', 'A'])['Y'].agg(['sum', 'size']).reset_index().values.tolist()}
    ctx.evaluations += 1
    ctx.count('rare-outcome cohort rows: %d' % len(df))
    try:
        g = TimeFixedGFormula(df, 'A', 'Y')
        g.outcome_model('A * C(L0)', print_results=False)
        ref = {}
        for plan, pv in (('all', 1.0), ('none', 0.0)):
            g.fit(plan)
            ref[pv] = float(g.marginal_outcome)
        got = {}
        for pv in (1.0, 0.0):
            t = StochasticTMLE(df, 'A', 'Y')
            t.exposure_model('1')
            t.outcome_model('A * C(L0)')
            t.fit(p=pv, samples=2, seed=5)
            got[pv] = float(t.marginal_outcome)
    except Exception as e:   # noqa
        fails.append((len(df), 'StochasticTMLE.fit.rare-outcome.raises', 'rare-outcome cohort: %s: %s' % (type(e).__name__, str(e)[:120]), payload))
        return
    ctx.programs += 1
    for pv in (1.0, 0.0):
        ctx.disagreements_checked += 1
        if not (abs(got[pv] - ref[pv]) <= 1e-6 * ref[pv]):
            fails.append((len(df), 'StochasticTMLE.fit.rare-outcome.p%g-vs-TimeFixedGFormula' % pv,
                          'rare binary outcome, saturated outcome model, intercept-only treatment model: StochasticTMLE(p=%g) = %r, '
                          'TimeFixedGFormula.fit(%r) = %r' % (pv, got[pv], 'all' if pv == 1.0 else 'none', ref[pv]), payload))


def run(ctx):
    fails = []
    jobs = []
    nf = 12 if ctx.quick else 48
    for i in range(nf):
        otype = 'binary' if i % 4 != 3 else 'normal'
        weighted = (i % 8 == 5)
        # weighted frames carry two covariates, so that a main-effects-only (non-saturated) treatment model exists
        jobs.append(make_job(ctx.rng, ctx.quick, otype, weighted=weighted, n_cov=2 if weighted else None))
    # the minimal design of the conditional-plan finding: one binary covariate
    jobs.append(make_job(ctx.rng, ctx.quick, 'binary', n_cov=1, arities=[2], cell=(2, 4)))
    bj = boundary_job(ctx.rng)
    if bj:
        jobs.append(bj)
    run_jobs(ctx, fails, jobs)
    degenerate_part(ctx, fails)
    rare_outcome_part(ctx, fails)
    report(ctx, fails)


def report(ctx, fails):
    fails.sort(key=lambda f: f[0])
    seen = set()
    for size, key, what, payload in fails:
        if key in seen:
            continue
        seen.add(key)
        cnt = sum(1 for f in fails if f[1] == key)
        ctx.violation(key, what + ' [%d failing comparisons]' % cnt, payload)


def replay(ctx, payload):
    fails = []
    if payload.get('part') == 'rare-outcome':
        rare_outcome_part(ctx, fails)
        report(ctx, fails)
        return
    if payload.get('part') == 'degenerate':
        degenerate_part(ctx, fails, [payload['frame']])
        report(ctx, fails)
        return
    run_jobs(ctx, fails, [payload['job']])
    report(ctx, fails)
