"""Shared machinery of the check driver: environment, Coq build, Coq evaluation of generated cases,
violation reporting / known findings / replay files, audit and evidence writing."""
import fcntl
import hashlib
import json
import os
import random
import re
import shutil
import subprocess
import sys
import time
import warnings
from fractions import Fraction

VERIF = os.path.dirname(os.path.dirname(os.path.abspath(__file__)))
REPO = os.environ.get('ZEPID_REPO', '/repo')
COQ = os.path.join(VERIF, 'coq')
RUN = os.path.join(VERIF, 'run')
COQFLAGS = ['-Q', os.path.join(COQ, 'theories'), 'Zepid', '-Q', os.path.join(COQ, 'gen'), 'ZepidGen',
            '-w', '-notation-overridden,-deprecated-hint-without-locality,-deprecated-instance-without-locality']
NCPU = min(16, os.cpu_count() or 4)

TOL_ARITH = 1e-9     # pure float arithmetic vs exact rational
TOL_FIT = 1e-6       # downstream of an iteratively fitted GLM
TOL_SEARCH = 5e-4    # Nelder-Mead

STD_AXIOMS = {
    'ClassicalDedekindReals.sig_not_dec', 'ClassicalDedekindReals.sig_forall_dec',
    'FunctionalExtensionality.functional_extensionality_dep', 'Classical_Prop.classic',
    'Eqdep.Eq_rect_eq.eq_rect_eq', 'JMeq.JMeq_eq', 'ProofIrrelevance.proof_irrelevance',
    'ClassicalEpsilon.constructive_indefinite_description', 'PropExtensionality.propositional_extensionality',
}
FORBIDDEN = re.compile(r'\b(Admitted|admit|Axiom|Axioms|Parameter|Parameters|Conjecture|Conjectures|Abort All|'
                       r'Unset Guard Checking|Unset Positivity Checking|Unset Universe Checking|bypass_check|'
                       r'Admit Obligations|type-in-type|impredicative-set|native_compute)\b')


def setup_env():
    os.environ['PYTHONPATH'] = REPO
    os.environ['ZEPID_VERIF'] = '1'
    os.environ.setdefault('PYTHONHASHSEED', '0')
    os.environ['MPLBACKEND'] = 'Agg'
    for k in ('OMP_NUM_THREADS', 'OPENBLAS_NUM_THREADS', 'MKL_NUM_THREADS'):
        os.environ[k] = '1'
    os.environ['PIP_NO_INDEX'] = '1'
    if REPO not in sys.path:
        sys.path.insert(0, REPO)
    warnings.filterwarnings('ignore')


# --------------------------------------------------------------------------------------------- context
class Ctx:
    def __init__(self, pid, tier, seed):
        self.pid, self.tier, self.seed = pid, tier, seed
        self.rng = random.Random(seed * 1000003 + int(hashlib.md5(pid.encode()).hexdigest()[:6], 16))
        self.t0 = time.time()
        self.run_dir = os.path.join(RUN, '%s-%d' % (pid, os.getpid()))
        shutil.rmtree(self.run_dir, ignore_errors=True)
        os.makedirs(self.run_dir)
        self.violations = []      # dicts: key, what, replay
        self.known_hits = []
        self.evaluations = 0
        self.nontrivial = set()
        self.samples = []
        self.disagreements_checked = 0
        self.programs = 0
        self.dist = {}
        self.notes = []
        self.oracle_checks = 0
        self.broken_ties = []     # text
        self.extra = {}
        self.known = load_known()
        self.quick = (tier == 'quick')

    def count(self, key, n=1):
        self.dist[key] = self.dist.get(key, 0) + n

    def sample(self, obj, cap=4):
        if len(self.samples) < cap:
            self.samples.append(obj)

    def nontriv(self, obj):
        self.nontrivial.add(hashlib.md5(json.dumps(obj, sort_keys=True, default=str).encode()).hexdigest())

    def violation(self, key, what, payload=None, no_input=False):
        """key: specific signature of the failure (matched against known_findings.json)"""
        for k in self.known:
            if k.get('property') == self.pid and k.get('status') == 'known' and k.get('key') == key:
                if key not in self.known_hits:
                    self.known_hits.append(key)
                    print('KNOWN-FINDING: property=%s %s [%s]' % (self.pid, k.get('what', what), key), flush=True)
                return False
        if any(v['key'] == key for v in self.violations):
            return True
        h = hashlib.md5((key + what).encode()).hexdigest()[:10]
        path = os.path.join(VERIF, 'replays', '%s-%s.json' % (self.pid, h))
        os.makedirs(os.path.dirname(path), exist_ok=True)
        with open(path, 'w') as f:
            json.dump({'property': self.pid, 'key': key, 'what': what, 'seed': self.seed, 'tier': self.tier,
                       'no_failing_input_found': bool(no_input), 'payload': payload}, f, indent=1, default=str)
        self.violations.append({'key': key, 'what': what, 'replay': path, 'no_input': no_input})
        return True

    def finish(self, obligations, discharged, theorem_names, assumptions, trusted_extra, rule, level='proof'):
        wall = time.time() - self.t0
        tb = [
            'Coq 8.16.1 kernel + vm_compute (no native_compute); coqc full .vo build via coq_makefile',
            'standard-library axioms reported by Print Assumptions: ' + (', '.join(sorted(assumptions)) or 'none (closed under the global context)'),
            'translator /verif/harness/translate.py (fail-closed Python-ast -> Coq), cross-checked by executing its Q twins and a float evaluation of its IR',
            'correspondence harness (generators, float->Fraction conversion, case printer/parser, tolerances arith=%g fit=%g)' % (TOL_ARITH, TOL_FIT),
        ] + list(trusted_extra)
        cov = {
            'obligations': obligations, 'discharged': discharged,
            'checker_cmd': 'cd /verif/coq && coq_makefile -f _CoqProject -o Makefile && make -k -j16 (coqc 8.16.1); Print Assumptions under every theorem of theories/Properties/%s.v' % self.pid,
            'trusted_base': tb,
            'theorems': theorem_names,
            'programs': self.programs, 'disagreements_checked': self.disagreements_checked,
            'evaluations': self.evaluations, 'distinct_nontrivial': len(self.nontrivial),
            'rule': rule, 'samples': self.samples or [{'note': 'no case generated'}],
            'input_distribution': self.dist, 'oracle_validations': self.oracle_checks,
            'broken_ties': self.broken_ties, 'known_findings_hit': self.known_hits, 'notes': self.notes,
        }
        cov.update(self.extra)
        ev = {'property_id': self.pid, 'tier': self.tier, 'seed': self.seed, 'level': level, 'coverage': cov,
              'assumptions': tb, 'wall_s': round(wall, 2), 'violations': len(self.violations)}
        os.makedirs(os.path.join(VERIF, 'evidence'), exist_ok=True)
        with open(os.path.join(VERIF, 'evidence', self.pid + '.json'), 'w') as f:
            json.dump(ev, f, indent=1, default=str)
        shutil.rmtree(self.run_dir, ignore_errors=True)
        for v in self.violations:
            print('VIOLATION property=%s replay=%s %s%s' % (self.pid, v['replay'], v['what'][:300].replace('\n', ' '),
                                                           ' no-failing-input-found' if v['no_input'] else ''), flush=True)
        print('%s %s: %d evaluations, %d nontrivial, %d obligations (%d discharged), %d violations, %d known, %.1fs'
              % (self.pid, self.tier, self.evaluations, len(self.nontrivial), obligations, discharged,
                 len(self.violations), len(self.known_hits), wall), flush=True)
        return 1 if self.violations else 0


def load_known():
    p = os.path.join(VERIF, 'known_findings.json')
    if not os.path.exists(p):
        return []
    return json.load(open(p)).get('findings', [])


# --------------------------------------------------------------------------------------------- Coq build
def coq_build(timeout=1500):
    """translate + make -k under an exclusive lock.  Returns (gen_status, make_log)."""
    sys.path.insert(0, os.path.join(VERIF, 'harness'))
    import gen_targets
    os.makedirs(COQ, exist_ok=True)
    with open(os.path.join(COQ, '.build.lock'), 'w') as lk:
        fcntl.flock(lk, fcntl.LOCK_EX)
        gen = gen_targets.generate()
        if not os.path.exists(os.path.join(COQ, 'Makefile')) or \
                os.path.getmtime(os.path.join(COQ, 'Makefile')) < os.path.getmtime(os.path.join(COQ, '_CoqProject')):
            subprocess.run(['coq_makefile', '-f', '_CoqProject', '-o', 'Makefile'], cwd=COQ, check=True,
                           stdout=subprocess.DEVNULL, stderr=subprocess.DEVNULL)
        p = subprocess.run(['timeout', str(timeout), 'make', '-k', '-j%d' % NCPU], cwd=COQ, stdout=subprocess.PIPE,
                           stderr=subprocess.STDOUT, text=True)
        fcntl.flock(lk, fcntl.LOCK_UN)
    return gen, p.stdout


def vo_ok(rel_v):
    """is the .vo for this .v (path relative to coq/) up to date?"""
    vo = rel_v[:-2] + '.vo'
    p = subprocess.run(['make', '-q', vo], cwd=COQ, stdout=subprocess.DEVNULL, stderr=subprocess.DEVNULL)
    return p.returncode == 0 and os.path.exists(os.path.join(COQ, vo))


def make_errors(log, limit=3000):
    out = []
    lines = log.splitlines()
    for i, l in enumerate(lines):
        if l.startswith('File "') or 'Error' in l:
            out.append(l)
    return '\n'.join(out)[:limit]


def theorem_names(rel_v):
    src = open(os.path.join(COQ, rel_v)).read()
    src = re.sub(r'\(\*.*?\*\)', '', src, flags=re.S)
    return re.findall(r'^\s*(?:Theorem|Corollary)\s+([A-Za-z0-9_\']+)', src, flags=re.M)


def print_assumptions(ctx, rel_v, names):
    """run Print Assumptions for each theorem; returns (set of axioms, dict name->axioms or None on failure)"""
    mod = 'Zepid.' + rel_v[len('theories/'):-2].replace('/', '.')
    f = os.path.join(ctx.run_dir, 'PA_%s.v' % ctx.pid)
    with open(f, 'w') as fh:
        fh.write('Require Import %s.\n' % mod)
        for n in names:
            fh.write('Print Assumptions %s.\n' % n)
    p = subprocess.run(['timeout', '600', 'coqc'] + COQFLAGS + [f], stdout=subprocess.PIPE, stderr=subprocess.STDOUT, text=True,
                       cwd=ctx.run_dir)
    if p.returncode != 0:
        return None, p.stdout
    axioms = set()
    for l in p.stdout.splitlines():
        m = re.match(r'^([A-Za-z_][A-Za-z0-9_.\']*)\s*:', l)
        if m and m.group(1) != 'Axioms':
            axioms.add(m.group(1))
    return axioms, p.stdout


def audit_sources():
    """grep the whole development for forbidden vernacular; returns list of offending 'file:line: text'"""
    bad = []
    for root in (os.path.join(COQ, 'theories'), os.path.join(COQ, 'gen')):
        for dp, _, fs in os.walk(root):
            for fn in fs:
                if not fn.endswith('.v'):
                    continue
                src = open(os.path.join(dp, fn)).read()
                nocom = re.sub(r'\(\*.*?\*\)', lambda m: '\n' * m.group(0).count('\n'), src, flags=re.S)
                for i, l in enumerate(nocom.splitlines(), 1):
                    if FORBIDDEN.search(l) or re.match(r'^\s*(Variable|Variables|Hypothesis|Hypotheses)\b', l) and not _in_section(nocom, i):
                        bad.append('%s:%d: %s' % (os.path.relpath(os.path.join(dp, fn), COQ), i, l.strip()[:100]))
    return bad


def _in_section(src, lineno):
    depth = 0
    for i, l in enumerate(src.splitlines(), 1):
        if i >= lineno:
            break
        if re.match(r'^\s*Section\s+\w+', l):
            depth += 1
        elif re.match(r'^\s*End\s+\w+', l) and depth > 0:
            depth -= 1
    return depth > 0


# --------------------------------------------------------------------------------------------- Coq evaluation
_TOK = re.compile(r'-?\d+|[\[\]();,]|true|false|Some|None|"[^"]*"')


def parse_coq(s):
    toks = _TOK.findall(s)
    pos = [0]

    def item():
        t = toks[pos[0]]
        pos[0] += 1
        if t == '[':
            out = []
            if toks[pos[0]] == ']':
                pos[0] += 1
                return out
            while True:
                out.append(item())
                t2 = toks[pos[0]]
                pos[0] += 1
                if t2 == ']':
                    return out
                assert t2 == ';', (t2, s[:200])
        if t == '(':
            out = [item()]
            while True:
                t2 = toks[pos[0]]
                pos[0] += 1
                if t2 == ')':
                    return out[0] if len(out) == 1 else tuple(out)
                assert t2 == ',', (t2, s[:200])
                out.append(item())
        if t == 'Some':
            return ('Some', item())
        if t == 'None':
            return None
        if t == 'true':
            return True
        if t == 'false':
            return False
        if t.startswith('"'):
            return t[1:-1]
        return int(t)
    return item()


def coq_eval(ctx, tag, imports, cases, shard=200, timeout=900, preamble=''):
    """cases: list of Coq expressions (strings).  Each is evaluated with vm_compute; the parsed values are
    returned in order (None where evaluation failed).  Shards run in parallel."""
    files = []
    for k in range(0, len(cases), shard):
        f = os.path.join(ctx.run_dir, '%s_%d.v' % (tag, k // shard))
        with open(f, 'w') as fh:
            fh.write('Set Printing Width 100000000.\nSet Printing Depth 100000000.\n')
            fh.write(''.join('Require Import %s.\n' % i for i in imports))
            fh.write('From Coq Require Import QArith ZArith List Bool.\nImport ListNotations.\n')
            fh.write(preamble + '\n')
            fh.write('Open Scope Q_scope.\n')
            for j, c in enumerate(cases[k:k + shard]):
                fh.write('Definition case_%d := %s.\n' % (k + j, c))
            fh.write('Open Scope Z_scope.\n')
            for j, c in enumerate(cases[k:k + shard]):
                fh.write('Eval vm_compute in (%d, case_%d).\n' % (k + j, k + j))
        files.append(f)
    procs = []
    results = [None] * len(cases)
    errs = []
    pending = list(files)
    running = []
    while pending or running:
        while pending and len(running) < NCPU:
            f = pending.pop(0)
            running.append((f, subprocess.Popen(['timeout', str(timeout), 'coqc'] + COQFLAGS + [f], stdout=subprocess.PIPE,
                                                stderr=subprocess.STDOUT, text=True, cwd=ctx.run_dir)))
        f, p = running.pop(0)
        out, _ = p.communicate()
        if p.returncode != 0:
            errs.append((f, out[-2000:]))
        for m in re.finditer(r'^\s+= (.*?)^\s+: ', out, flags=re.S | re.M):
            try:
                v = parse_coq(m.group(1))
                results[v[0]] = v[1] if len(v) == 2 else v[1:]
            except Exception as e:   # noqa
                errs.append((f, 'parse: %r %s' % (e, m.group(1)[:200])))
    return results, errs


# --------------------------------------------------------------------------------------------- numbers
def qlit(x):
    """exact Coq Q literal of a python number (float -> exact dyadic Fraction)"""
    fr = x if isinstance(x, Fraction) else Fraction(x)
    if fr.numerator < 0:
        return '((-%d) # %d)' % (-fr.numerator, fr.denominator)
    return '(%d # %d)' % (fr.numerator, fr.denominator)


def qlist(xs):
    return '[' + '; '.join(qlit(x) for x in xs) + ']'


def blist(xs):
    return '[' + '; '.join('true' if x else 'false' for x in xs) + ']'


def nlist(xs):
    return '[' + '; '.join('%d' % x for x in xs) + ']%nat'


def zlist(xs):
    return '[' + '; '.join('(%d)%%Z' % x for x in xs) + ']'


def frac(pair):
    """[num, den] -> Fraction or None (den = 0 encodes None)"""
    if pair is None or pair[1] == 0:
        return None
    return Fraction(pair[0], pair[1])


def close(x, q, tol, scale=1.0):
    """float x vs exact Fraction q"""
    if q is None:
        return x is None or (isinstance(x, float) and (x != x or x in (float('inf'), float('-inf'))))
    if x is None or x != x:
        return False
    qf = float(q)
    return abs(x - qf) <= tol * max(1.0, abs(qf), scale)
