"""T1 -- fail-closed Python-ast -> Coq translator for straight-line real arithmetic in zEpid.

For every target (function or a slice of a function body) it produces
  * an IR (list of let-bindings over a tiny expression language),
  * a Coq definition over R  (`<name>_R`,  zq : R -> R is the normal quantile, a parameter),
  * a Coq definition over Q  (`<name>_Q`,  only the rational quantities: every returned/observed variable
    that is rational, and `<v>_sq` for every v = sqrt(e) with rational e),
  * guards collected from check_positivity_or_throw / check_nonnegativity_or_throw,
  * a Python float evaluator of the same IR (used to cross-check the translator against the function).
Anything outside the whitelisted syntax raises TranslateError (the tie is then reported broken).
"""
import ast
import json
import os
from fractions import Fraction


class TranslateError(Exception):
    pass


# ---------------------------------------------------------------------------------------------- IR
# expr := ('num', Fraction) | ('var', name) | ('bin', op, e, e) | ('neg', e) | ('call', f, e)
#       | ('ifa', e1, e0)            -- np.where(a == 1, e1, e0)  (a is the boolean row attribute)
#       | ('ifa0', e1, e0)           -- np.where(a == 0, e1, e0)
#       | ('invinf', e)              -- 1/e if e != 0 else inf
IRRATIONAL_CALLS = {'sqrt', 'ln', 'exp', 'zq', 'expit'}


def _is_np(node, name):
    return (isinstance(node, ast.Attribute) and isinstance(node.value, ast.Name) and node.value.id == 'np'
            and node.attr == name)


class FnTranslator:
    def __init__(self, name, params, config=None, oracle_assign=None, row_bool=None, ignore_calls=(),
                 array_params=(), self_attrs=False):
        self.self_attrs = self_attrs
        self.name = name
        self.params = list(params)
        self.config = dict(config or {})
        self.oracle_assign = oracle_assign or {}   # target name -> predicate(ast value) : treat as fresh input
        self.row_bool = row_bool                    # source text of the boolean row test, e.g. "df[treatment]"
        self.ignore_calls = set(ignore_calls)
        self.array_params = set(array_params)
        self.lets = []          # (name, expr)
        self.defined = set(self.params)
        self.guards = []        # ('pos'|'nonneg'|'le', expr[, expr])
        self.returns = None     # list of (label, expr)
        self.inputs = list(self.params)

    # ---- expressions
    def expr(self, n):
        if isinstance(n, ast.Constant):
            if isinstance(n.value, bool) or not isinstance(n.value, (int, float)):
                raise TranslateError('constant %r' % (n.value,))
            return ('num', Fraction(str(n.value)))
        if isinstance(n, ast.Name):
            if n.id == '__inda__':
                return ('inda',)
            if n.id in self.config and isinstance(self.config[n.id], (int, float)) and not isinstance(self.config[n.id], bool):
                return ('num', Fraction(str(self.config[n.id])))
            if n.id not in self.defined:
                raise TranslateError('unknown name %s in %s' % (n.id, self.name))
            return ('var', n.id)
        if self.self_attrs and isinstance(n, ast.Subscript) and ast.unparse(n) == 'self.df[self.exposure]':
            return ('inda',)
        if self.self_attrs and isinstance(n, ast.Attribute) and isinstance(n.value, ast.Name) and n.value.id == 'self':
            nm = n.attr.lstrip('_')
            if nm not in self.inputs:
                self.inputs.append(nm)
                self.defined.add(nm)
            return ('var', nm)
        if (self.self_attrs and isinstance(n, ast.Subscript) and isinstance(n.value, ast.Attribute)
                and isinstance(n.value.value, ast.Name) and n.value.value.id == 'self'
                and isinstance(n.slice, ast.Constant) and isinstance(n.slice.value, int)):
            nm = '%s_%d' % (n.value.attr.lstrip('_'), n.slice.value)
            if nm not in self.inputs:
                self.inputs.append(nm)
                self.defined.add(nm)
            return ('var', nm)
        if isinstance(n, ast.UnaryOp) and isinstance(n.op, ast.USub):
            return ('neg', self.expr(n.operand))
        if isinstance(n, ast.BinOp):
            if isinstance(n.op, ast.Pow):
                if isinstance(n.right, ast.Constant) and n.right.value in (2, 3):
                    b = self.expr(n.left)
                    e = b
                    for _ in range(n.right.value - 1):
                        e = ('bin', '*', e, b)
                    return e
                raise TranslateError('power other than 2/3')
            ops = {ast.Add: '+', ast.Sub: '-', ast.Mult: '*', ast.Div: '/'}
            if type(n.op) not in ops:
                raise TranslateError('operator %s' % type(n.op).__name__)
            return ('bin', ops[type(n.op)], self.expr(n.left), self.expr(n.right))
        if isinstance(n, ast.Call):
            f = n.func
            if _is_np(f, 'sqrt') and len(n.args) == 1 and not n.keywords:
                return ('call', 'sqrt', self.expr(n.args[0]))
            if _is_np(f, 'log') and len(n.args) == 1 and not n.keywords:
                return ('call', 'ln', self.expr(n.args[0]))
            if _is_np(f, 'exp') and len(n.args) == 1 and not n.keywords:
                return ('call', 'exp', self.expr(n.args[0]))
            if ast.unparse(f) == 'logistic.cdf' and len(n.args) == 1 and not n.keywords:
                return ('call', 'expit', self.expr(n.args[0]))
            if isinstance(f, ast.Name) and f.id == 'probability_to_odds' and len(n.args) == 1 and not n.keywords:
                p = self.expr(n.args[0])
                return ('bin', '/', p, ('bin', '-', ('num', Fraction(1)), p))
            if isinstance(f, ast.Name) and f.id == 'normal_ppf' and len(n.args) == 1 and not n.keywords:
                return ('call', 'zq', self.expr(n.args[0]))
            if (isinstance(f, ast.Attribute) and f.attr == 'ppf' and isinstance(f.value, ast.Name)
                    and f.value.id == 'norm' and len(n.args) == 1):
                kw = {k.arg: k.value for k in n.keywords}
                if set(kw) <= {'loc', 'scale'} and all(isinstance(v, ast.Constant) for v in kw.values()) \
                        and kw.get('loc', ast.Constant(0)).value == 0 and kw.get('scale', ast.Constant(1)).value == 1:
                    return ('call', 'zq', self.expr(n.args[0]))
                raise TranslateError('norm.ppf with non-standard loc/scale')
            if _is_np(f, 'where') and len(n.args) == 3 and not n.keywords and isinstance(n.args[0], ast.Call) \
                    and (_is_np(n.args[0].func, 'less') or _is_np(n.args[0].func, 'greater')) and len(n.args[0].args) == 2:
                a0, a1 = self.expr(n.args[0].args[0]), self.expr(n.args[0].args[1])
                if _is_np(n.args[0].func, 'greater'):
                    a0, a1 = a1, a0
                return ('iflt', a0, a1, self.expr(n.args[1]), self.expr(n.args[2]))
            if _is_np(f, 'where') and len(n.args) == 3 and not n.keywords and self.row_bool:
                c = n.args[0]
                if (isinstance(c, ast.Compare) and len(c.ops) == 1 and isinstance(c.ops[0], ast.Eq)
                        and ast.unparse(c.left) == self.row_bool and isinstance(c.comparators[0], ast.Constant)
                        and c.comparators[0].value in (0, 1)):
                    tag = 'ifa' if c.comparators[0].value == 1 else 'ifa0'
                    return (tag, self.expr(n.args[1]), self.expr(n.args[2]))
                raise TranslateError('np.where condition %s' % ast.unparse(c))
            raise TranslateError('call %s' % ast.unparse(f))
        raise TranslateError('expression %s' % ast.dump(n)[:80])

    # ---- config-decidable tests
    def decide(self, t):
        """evaluate an `if` test from the configuration only; returns True/False or raises"""
        if isinstance(t, ast.Name) and t.id in self.config:
            return bool(self.config[t.id])
        if isinstance(t, ast.UnaryOp) and isinstance(t.op, ast.Not):
            return not self.decide(t.operand)
        if isinstance(t, ast.Compare) and len(t.ops) == 1 and isinstance(t.left, ast.Name) and t.left.id in self.config \
                and isinstance(t.comparators[0], ast.Constant):
            lhs, rhs = self.config[t.left.id], t.comparators[0].value
            if isinstance(t.ops[0], ast.Eq):
                return lhs == rhs
            if isinstance(t.ops[0], ast.NotEq):
                return lhs != rhs
            if isinstance(t.ops[0], ast.Is):
                return lhs is rhs
            if isinstance(t.ops[0], ast.IsNot):
                return lhs is not rhs
        raise TranslateError('undecidable test `%s` in %s' % (ast.unparse(t), self.name))

    # ---- statements
    def bind(self, name, e):
        # SSA: re-assignment shadows (Coq let does the same)
        self.lets.append((name, e))
        self.defined.add(name)

    def stmt(self, s):
        if isinstance(s, ast.Expr) and isinstance(s.value, ast.Constant) and isinstance(s.value.value, str):
            return
        if isinstance(s, ast.Expr) and isinstance(s.value, ast.Call) and isinstance(s.value.func, ast.Name):
            fn = s.value.func.id
            if fn == 'check_positivity_or_throw':
                for a in s.value.args:
                    self.guards.append(('pos', self.expr(a)))
                return
            if fn == 'check_nonnegativity_or_throw':
                for a in s.value.args:
                    self.guards.append(('nonneg', self.expr(a)))
                return
            if fn.startswith('warn_if_') or fn in self.ignore_calls:
                return
        if isinstance(s, ast.Expr) and isinstance(s.value, ast.Call) and ast.unparse(s.value.func) == 'warnings.warn':
            return
        if isinstance(s, ast.Assign) and len(s.targets) == 1 and isinstance(s.targets[0], ast.Name):
            tgt = s.targets[0].id
            if tgt in self.oracle_assign:
                if not self.oracle_assign[tgt](s.value):
                    raise TranslateError('oracle assignment to %s has unexpected shape: %s' % (tgt, ast.unparse(s.value)))
                if self.oracle_assign[tgt].__dict__.get('input', True):
                    if tgt not in self.inputs:
                        self.inputs.append(tgt)
                    self.defined.add(tgt)
                return
            # nan guard on the row attribute: np.where(<row>.isna(), np.nan, v) -> identity on complete rows
            v = s.value
            if (isinstance(v, ast.Call) and _is_np(v.func, 'where') and len(v.args) == 3 and self.row_bool
                    and ast.unparse(v.args[0]) == self.row_bool + '.isna()' and ast.unparse(v.args[1]) == 'np.nan'
                    and isinstance(v.args[2], ast.Name) and v.args[2].id == tgt):
                return
            self.bind(tgt, self.expr(v))
            return
        if isinstance(s, ast.If):
            # (1) reciprocal-or-infinity pattern
            t = s.test
            if (isinstance(t, ast.Compare) and len(t.ops) == 1 and isinstance(t.ops[0], ast.NotEq)
                    and isinstance(t.left, ast.Name) and isinstance(t.comparators[0], ast.Constant)
                    and t.comparators[0].value == 0 and len(s.body) == 1 and len(s.orelse) == 1
                    and isinstance(s.body[0], ast.Assign) and isinstance(s.orelse[0], ast.Assign)
                    and ast.unparse(s.body[0].targets[0]) == ast.unparse(s.orelse[0].targets[0])
                    and ast.unparse(s.orelse[0].value) == 'np.inf'
                    and ast.unparse(s.body[0].value) == '1 / ' + t.left.id):
                self.bind(s.body[0].targets[0].id, ('invinf', self.expr(t.left)))
                return
            # (2) raise-guard: if x > y: raise ValueError  -> guard x <= y
            if (len(s.body) == 1 and isinstance(s.body[0], ast.Raise) and not s.orelse
                    and isinstance(t, ast.Compare) and len(t.ops) == 1 and isinstance(t.ops[0], ast.Gt)):
                self.guards.append(('le', self.expr(t.left), self.expr(t.comparators[0])))
                return
            # (3) configuration branch
            branch = s.body if self.decide(t) else s.orelse
            for b in branch:
                self.stmt(b)
            return
        if isinstance(s, ast.Raise):
            raise TranslateError('configuration %r reaches a raise in %s' % (self.config, self.name))
        if isinstance(s, ast.Return):
            v = s.value
            if isinstance(v, ast.Call) and isinstance(v.func, ast.Name) and v.func.id == 'Results':
                labels = ['point', 'lcl', 'ucl', 'sd']
                self.returns = [(l, self.expr(a)) for l, a in zip(labels, v.args[:4])]
            elif isinstance(v, ast.Tuple):
                self.returns = [('r%d' % i, self.expr(a)) for i, a in enumerate(v.elts)]
            else:
                self.returns = [('point', self.expr(v))]
            return
        raise TranslateError('statement `%s` in %s' % (ast.unparse(s)[:70], self.name))


# ---------------------------------------------------------------------------------------------- emission
def _q(fr):
    return '(%d # %d)' % (fr.numerator, fr.denominator) if fr >= 0 else '((-%d) # %d)' % (-fr.numerator, fr.denominator)


def _r(fr):
    if fr.denominator == 1:
        s = 'IZR %d' % fr.numerator if fr.numerator >= 0 else 'IZR (-%d)' % (-fr.numerator)
        return '(%s)' % s
    return '(IZR %s / IZR %d)' % (('%d' % fr.numerator) if fr.numerator >= 0 else '(-%d)' % -fr.numerator, fr.denominator)


def emit(e, dom):
    k = e[0]
    if k == 'num':
        return _q(e[1]) if dom == 'Q' else _r(e[1])
    if k == 'var':
        return 'v_' + e[1]
    if k == 'neg':
        return '(- %s)' % emit(e[1], dom)
    if k == 'bin':
        return '(%s %s %s)' % (emit(e[2], dom), e[1], emit(e[3], dom))
    if k == 'call':
        return '(%s %s)' % (e[1], emit(e[2], dom))
    if k == 'inda':
        return '(if v_a then %s else %s)' % (emit(('num', Fraction(1)), dom), emit(('num', Fraction(0)), dom))
    if k == 'ifa':
        return '(if v_a then %s else %s)' % (emit(e[1], dom), emit(e[2], dom))
    if k == 'ifa0':
        return '(if v_a then %s else %s)' % (emit(e[2], dom), emit(e[1], dom))
    if k == 'iflt':
        if dom == 'Q':
            return '(if Qlt_bool %s %s then %s else %s)' % tuple(emit(x, dom) for x in e[1:])
        return '(if Rlt_dec %s %s then %s else %s)' % tuple(emit(x, dom) for x in e[1:])
    if k == 'invinf':
        x = emit(e[1], dom)
        if dom == 'Q':
            return '(if Qeq_bool %s 0 then None else Some (1 / %s))' % (x, x)
        return '(if Req_EM_T %s 0 then None else Some (1 / %s))' % (x, x)
    raise TranslateError('emit %r' % (k,))


def rational(e, irr):
    k = e[0]
    if k in ('num', 'inda'):
        return True
    if k == 'var':
        return e[1] not in irr
    if k == 'neg':
        return rational(e[1], irr)
    if k == 'bin':
        return rational(e[2], irr) and rational(e[3], irr)
    if k == 'call':
        return False
    if k in ('ifa', 'ifa0'):
        return rational(e[1], irr) and rational(e[2], irr)
    if k == 'iflt':
        return all(rational(x, irr) for x in e[1:])
    if k == 'invinf':
        return rational(e[1], irr)
    raise TranslateError('rational %r' % (k,))


def uses_a(e):
    if e[0] in ('ifa', 'ifa0', 'inda'):
        return True
    return any(uses_a(x) for x in e[1:] if isinstance(x, tuple))


def is_opt(e, optvars):
    return e[0] == 'invinf' or (e[0] == 'var' and e[1] in optvars)


def evalf(e, env, zq):
    import math
    k = e[0]
    if k == 'num':
        return float(e[1])
    if k == 'var':
        return env[e[1]]
    if k == 'neg':
        return -evalf(e[1], env, zq)
    if k == 'bin':
        a, b = evalf(e[2], env, zq), evalf(e[3], env, zq)
        return {'+': a + b, '-': a - b, '*': a * b, '/': (a / b) if b != 0 else float('nan')}[e[1]]
    if k == 'call':
        x = evalf(e[2], env, zq)
        try:
            return {'sqrt': math.sqrt, 'ln': math.log, 'exp': math.exp, 'zq': zq,
                    'expit': lambda t: (1.0 / (1.0 + math.exp(-t))) if t >= 0 else (math.exp(t) / (1.0 + math.exp(t)))}[e[1]](x)
        except (ValueError, OverflowError):
            return float('nan')
    if k == 'inda':
        return 1.0 if env['__a'] else 0.0
    if k == 'ifa':
        return evalf(e[1], env, zq) if env['__a'] else evalf(e[2], env, zq)
    if k == 'ifa0':
        return evalf(e[2], env, zq) if env['__a'] else evalf(e[1], env, zq)
    if k == 'iflt':
        return evalf(e[3], env, zq) if evalf(e[1], env, zq) < evalf(e[2], env, zq) else evalf(e[4], env, zq)
    if k == 'invinf':
        x = evalf(e[1], env, zq)
        return (1 / x) if x != 0 else float('inf')
    raise TranslateError(k)


class Translated:
    def __init__(self, tr):
        self.name, self.inputs, self.lets, self.guards, self.returns = tr.name, tr.inputs, tr.lets, tr.guards, tr.returns
        self.has_a = any(uses_a(e) for _, e in self.lets) or any(uses_a(e) for _, e in self.returns)
        irr = set()
        self.optvars = set()
        for n, e in self.lets:
            if not rational(e, irr):
                irr.add(n)
            else:
                irr.discard(n)
            if e[0] == 'invinf':
                self.optvars.add(n)
        self.irr = irr
        self.uses_zq = "'zq'" in repr(self.lets) or "'zq'" in repr(self.returns)
        # Q observables: rational returns + squared sd
        self.qobs = []
        last = {}
        irr2 = set()
        for n, e in self.lets:
            last[n] = e
        for lab, e in self.returns:
            if rational(e, self.irr):
                self.qobs.append((lab, e))
            elif e[0] == 'var' and last.get(e[1], ('x',))[0] == 'call' and last[e[1]][1] == 'sqrt' \
                    and self._rational_at(e[1]):
                self.qobs.append((lab + '_sq', ('var', '__sq_' + e[1])))

    def _rational_at(self, name):
        irr = set()
        for n, e in self.lets:
            if n == name:
                return rational(e[2], irr)
            if not rational(e, irr):
                irr.add(n)
            else:
                irr.discard(n)
        return False

    def coq(self):
        out = []
        # ---- R
        ps = ' '.join('v_%s' % p for p in self.inputs)
        hdr = 'Definition %s_R %s%s%s :=' % (
            self.name, '(zq : R -> R) ' if self.uses_zq else '', '(v_a : bool) ' if self.has_a else '',
            '(%s : R)' % ps if ps else '')
        body = []
        for n, e in self.lets:
            body.append('  let v_%s := %s in' % (n, emit(e, 'R')))
        ret = ', '.join(emit(e, 'R') for _, e in self.returns)
        out.append('(* returns: %s *)' % ', '.join(l for l, _ in self.returns))
        out.append(hdr + '\n' + '\n'.join(body) + '\n  (%s).' % ret)
        # guard over R
        if self.guards:
            gs = []
            for g in self.guards:
                if g[0] == 'pos':
                    gs.append('0 < %s' % emit(g[1], 'R'))
                elif g[0] == 'nonneg':
                    gs.append('0 <= %s' % emit(g[1], 'R'))
                else:
                    gs.append('%s <= %s' % (emit(g[1], 'R'), emit(g[2], 'R')))
            out.append('Definition %s_guard_R %s : Prop := %s.' % (self.name, '(%s : R)' % ps, ' /\\ '.join(gs)))
        return '\n'.join(out)

    def coq_q(self):
        out = []
        ps = ' '.join('v_%s' % p for p in self.inputs)
        # which lets are needed & rational
        irr = set()
        body = []
        for n, e in self.lets:
            if rational(e, irr):
                irr.discard(n)
                body.append('  let v_%s := %s in' % (n, emit(e, 'Q')))
            else:
                irr.add(n)
                if e[0] == 'call' and e[1] == 'sqrt' and rational(e[2], irr - {n}):
                    body.append('  let v___sq_%s := %s in' % (n, emit(e[2], 'Q')))
        items = []
        for lab, e in self.qobs:
            s = emit(e, 'Q')
            items.append(s if is_opt(e, self.optvars) else 'Some %s' % s)
        out.append('(* Q observables: %s *)' % ', '.join(l for l, _ in self.qobs))
        out.append('Definition %s_Q %s%s : list (option Q) :=\n%s\n  [%s].' % (
            self.name, '(v_a : bool) ' if self.has_a else '', '(%s : Q)' % ps if ps else '',
            '\n'.join(body), '; '.join(items)))
        if self.guards:
            gs = []
            for g in self.guards:
                if g[0] == 'pos':
                    gs.append('Qlt_bool 0 %s' % emit(g[1], 'Q'))
                elif g[0] == 'nonneg':
                    gs.append('Qle_bool 0 %s' % emit(g[1], 'Q'))
                else:
                    gs.append('Qle_bool %s %s' % (emit(g[1], 'Q'), emit(g[2], 'Q')))
            out.append('Definition %s_guard_Q %s : bool := %s.' % (self.name, '(%s : Q)' % ps, ' && '.join(gs)))
        return '\n'.join(out)

    def pyeval(self, args, zq, a=None):
        """float evaluation of the IR: returns list of returned values (None when a guard fails)"""
        env = dict(zip(self.inputs, args))
        env['__a'] = a
        for g in self.guards:
            x = evalf(g[1], env, zq)
            if (g[0] == 'pos' and not x > 0) or (g[0] == 'nonneg' and not x >= 0) or \
                    (g[0] == 'le' and not x <= evalf(g[2], env, zq)):
                return None
        for n, e in self.lets:
            env[n] = evalf(e, env, zq)
        return [evalf(e, env, zq) for _, e in self.returns]

    def sidecar(self):
        return {'name': self.name, 'inputs': self.inputs, 'returns': [l for l, _ in self.returns],
                'qobs': [l for l, _ in self.qobs], 'has_a': self.has_a, 'uses_zq': self.uses_zq,
                'guards': len(self.guards)}


def find_function(tree, qualname):
    parts = qualname.split('.')
    body = tree.body
    node = None
    for p in parts:
        node = None
        for n in body:
            if isinstance(n, (ast.FunctionDef, ast.ClassDef)) and n.name == p:
                node = n
                break
        if node is None:
            raise TranslateError('no %s' % qualname)
        body = node.body
    return node


def translate_function(path, qualname, name=None, config=None, drop_params=(), **kw):
    tree = ast.parse(open(path).read())
    fn = find_function(tree, qualname)
    params = [a.arg for a in fn.args.args if a.arg not in drop_params and a.arg not in (config or {}) and a.arg != 'self']
    tr = FnTranslator(name or qualname.replace('.', '_'), params, config=config, **kw)
    for s in fn.body:
        tr.stmt(s)
        if tr.returns is not None:
            break
    if tr.returns is None:
        raise TranslateError('no return in %s' % qualname)
    return Translated(tr)


HEADER_R = """(* GENERATED by /verif/harness/translate.py from /repo -- do not edit *)
From Coq Require Import Reals.
From Zepid Require Import Base.Expit.
Open Scope R_scope.
"""
HEADER_Q = """(* GENERATED by /verif/harness/translate.py from /repo -- do not edit *)
From Coq Require Import QArith List Bool.
From Zepid Require Import Base.QUtil.
Import ListNotations.
Open Scope Q_scope.
"""


def write_if_changed(path, text):
    if os.path.exists(path) and open(path).read() == text:
        return False
    os.makedirs(os.path.dirname(path), exist_ok=True)
    with open(path, 'w') as f:
        f.write(text)
    return True
