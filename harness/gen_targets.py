"""Translation targets: which pieces of /repo are regenerated into coq/gen on every run."""
import ast
import json
import os
import sys

from translate import (translate_function, TranslateError, HEADER_R, HEADER_Q, write_if_changed, FnTranslator,
                       Translated, find_function)

REPO = os.environ.get('ZEPID_REPO', '/repo')
GEN = os.path.join(os.path.dirname(os.path.dirname(os.path.abspath(__file__))), 'coq', 'gen')

CALC = os.path.join(REPO, 'zepid/calc/utils.py')
BASE = os.path.join(REPO, 'zepid/base.py')
CUTILS = os.path.join(REPO, 'zepid/causal/utils.py')


def _free_names(node):
    return sorted({n.id for n in ast.walk(node) if isinstance(n, ast.Name)})


def slice_appends(path, qualname, lists, name_prefix):
    """`lst.append(<expr>)` statements anywhere in the function, for lst in lists (the last occurrence wins
    unless it appends None).  Returns one Translated per list."""
    tree = ast.parse(open(path).read())
    fn = find_function(tree, qualname)
    found = {}
    for n in ast.walk(fn):
        if (isinstance(n, ast.Expr) and isinstance(n.value, ast.Call) and isinstance(n.value.func, ast.Attribute)
                and n.value.func.attr == 'append' and isinstance(n.value.func.value, ast.Name)
                and n.value.func.value.id in lists and len(n.value.args) == 1):
            arg = n.value.args[0]
            if isinstance(arg, ast.Constant) and arg.value is None:
                continue
            found.setdefault(n.value.func.value.id, []).append(arg)
    out = []
    for l in lists:
        if l not in found or len(found[l]) != 1:
            raise TranslateError('expected exactly one non-None %s.append(..) in %s' % (l, qualname))
        arg = found[l][0]
        params = _free_names(arg)
        tr = FnTranslator(name_prefix + l, params)
        tr.returns = [('point', tr.expr(arg))]
        out.append(Translated(tr))
    return out


def calc_targets():
    t = []
    for conf in ('wald', 'hypergeometric'):
        t.append(translate_function(CALC, 'risk_ci', 'risk_ci_' + conf, config={'confint': conf}))
        t.append(translate_function(CALC, 'sensitivity', 'sensitivity_' + conf, config={'confint': conf}))
        t.append(translate_function(CALC, 'specificity', 'specificity_' + conf, config={'confint': conf}))
    for f in ('incidence_rate_ci', 'risk_ratio', 'risk_difference', 'number_needed_to_treat', 'odds_ratio',
              'incidence_rate_ratio', 'incidence_rate_difference', 'attributable_community_risk',
              'population_attributable_fraction', 'probability_to_odds', 'odds_to_probability'):
        t.append(translate_function(CALC, f))
    return t


def bounds_targets():
    return slice_appends(BASE, 'RiskDifference.fit', ['fr_lower', 'fr_upper'], 'rdbounds_')


def _is_call_to(fname):
    def p(v):
        return isinstance(v, ast.Call) and ast.unparse(v.func).endswith(fname)
    return p


def weights_targets():
    t = []
    for stab in (True, False):
        for std in ('population', 'exposed', 'unexposed'):
            oracle = {
                'denominator_model': _is_call_to('propensity_score'),
                'numerator_model': _is_call_to('propensity_score'),
                'd': _is_call_to('.predict'),
            }
            for k in ('denominator_model', 'numerator_model'):
                f = oracle[k]
                g = (lambda ff: (lambda v: ff(v)))(f)
                g.input = False
                oracle[k] = g
            if stab:
                oracle['n'] = _is_call_to('.predict')
            cfg = {'stabilized': stab, 'standardize': std, 'bound': False, 'model_numer': '1'}
            name = 'iptw_%s_%s' % ('stab' if stab else 'unstab', std)
            tree = ast.parse(open(CUTILS).read())
            fn = find_function(tree, 'iptw_calculator')
            tr = FnTranslator(name, [], config=cfg, oracle_assign=oracle, row_bool='df[treatment]')
            tr.defined |= {'df', 'treatment', 'model_denom', 'weight', 'print_results'}
            for s in fn.body:
                tr.stmt(s)
                if tr.returns is not None:
                    break
            if tr.returns is None:
                raise TranslateError('no return in iptw_calculator')
            # returns (d, n, iptw): keep the weight only
            tr.returns = [('weight', tr.returns[2][1])]
            t.append(Translated(tr))
    return t


def aipw_targets():
    """y1 / y0 pseudo-outcome lines of aipw_calculator"""
    tree = ast.parse(open(CUTILS).read())
    fn = find_function(tree, 'aipw_calculator')
    out = []
    for tgt in ('y1', 'y0'):
        hits = [s for s in fn.body if isinstance(s, ast.Assign) and len(s.targets) == 1
                and isinstance(s.targets[0], ast.Name) and s.targets[0].id == tgt]
        if len(hits) != 1:
            raise TranslateError('expected one assignment to %s in aipw_calculator' % tgt)
        params = [p for p in _free_names(hits[0].value) if p not in ('np', 'a')]
        tr = FnTranslator('aipw_' + tgt, params, row_bool='a')
        tr.defined.add('a')
        tr.returns = [('point', tr.expr(hits[0].value))]
        out.append(Translated(tr))
    return out


def tmle_targets():
    """clever covariates and update lines of TMLE.fit; tmle_unit_unbound"""
    TM = os.path.join(REPO, 'zepid/causal/doublyrobust/TMLE.py')
    tree = ast.parse(open(TM).read())
    fn = find_function(tree, 'TMLE.fit')
    out = []
    for tgt in ('H1W', 'H0W', 'Qstar1', 'Qstar0'):
        hits = [s for s in ast.walk(fn) if isinstance(s, ast.Assign) and len(s.targets) == 1
                and isinstance(s.targets[0], ast.Name) and s.targets[0].id == tgt
                and 'tmle_unit_unbound' not in ast.unparse(s.value)]
        if len(hits) != 1:
            raise TranslateError('expected one defining assignment to %s in TMLE.fit, found %d' % (tgt, len(hits)))
        tr = FnTranslator('tmle_' + tgt, [], self_attrs=True)
        tr.returns = [('point', tr.expr(hits[0].value))]
        out.append(Translated(tr))
    out.append(translate_function(os.path.join(REPO, 'zepid/causal/doublyrobust/utils.py'), 'tmle_unit_unbound'))
    out.append(translate_function(os.path.join(REPO, 'zepid/causal/doublyrobust/utils.py'), 'tmle_unit_bounds'))
    return out


GROUPS = {
    'tmle': tmle_targets,
    'calc': calc_targets,
    'rdbounds': bounds_targets,
    'weights': weights_targets,
    'aipw': aipw_targets,
}


def generate(groups=None):
    """returns {group: {'ok': bool, 'error': str, 'changed': bool}}; always writes a compilable file pair
    (an empty one when translation fails, so that dependants fail to build rather than use stale text)."""
    res = {}
    side = {}
    for g, fn in GROUPS.items():
        if groups and g not in groups:
            continue
        try:
            ts = fn()
            r = HEADER_R + '\n' + '\n\n'.join(t.coq() for t in ts) + '\n'
            q = HEADER_Q + '\n' + '\n\n'.join(t.coq_q() for t in ts) + '\n'
            side[g] = [t.sidecar() for t in ts]
            err = None
        except (TranslateError, SyntaxError, OSError) as e:
            r = HEADER_R + '\n(* translation failed: %s *)\n' % str(e).replace('*)', '* )')
            q = HEADER_Q + '\n(* translation failed: %s *)\n' % str(e).replace('*)', '* )')
            err = str(e)
        c1 = write_if_changed(os.path.join(GEN, 'Gen_%s_R.v' % g), r)
        c2 = write_if_changed(os.path.join(GEN, 'Gen_%s_Q.v' % g), q)
        res[g] = {'ok': err is None, 'error': err, 'changed': c1 or c2}
    write_if_changed(os.path.join(GEN, 'sidecar.json'), json.dumps(side, indent=1, sort_keys=True))
    return res


def load(group):
    """Translated objects for a group (for float cross-evaluation)"""
    return {t.name: t for t in GROUPS[group]()}


if __name__ == '__main__':
    print(json.dumps(generate(sys.argv[1:] or None), indent=1))
