"""Translation targets: which pieces of /repo are regenerated into coq/gen on every run."""
import ast
import json
import os
import sys

from translate import (translate_function, TranslateError, HEADER_R, HEADER_Q, write_if_changed, FnTranslator,
                       Translated, find_function, emit)

REPO = os.environ.get('ZEPID_REPO', '/repo')
GEN = os.path.join(os.path.dirname(os.path.dirname(os.path.abspath(__file__))), 'coq', 'gen')

CALC = os.path.join(REPO, 'zepid/calc/utils.py')
BASE = os.path.join(REPO, 'zepid/base.py')
CUTILS = os.path.join(REPO, 'zepid/causal/utils.py')


def _free_names(node):
    return sorted({n.id for n in ast.walk(node) if isinstance(n, ast.Name)})


def slice_appends(path, qualname, lists, name_prefix):
    """`lst.append(<expr>)` statements anywhere in the function, for lst in lists (the last occurrence wins
    unless it appends None).  Returns one Translated per list."""
    tree = ast.parse(open(path).read())
    fn = find_function(tree, qualname)
    found = {}
    for n in ast.walk(fn):
        if (isinstance(n, ast.Expr) and isinstance(n.value, ast.Call) and isinstance(n.value.func, ast.Attribute)
                and n.value.func.attr == 'append' and isinstance(n.value.func.value, ast.Name)
                and n.value.func.value.id in lists and len(n.value.args) == 1):
            arg = n.value.args[0]
            if isinstance(arg, ast.Constant) and arg.value is None:
                continue
            found.setdefault(n.value.func.value.id, []).append(arg)
    out = []
    for l in lists:
        if l not in found or len(found[l]) != 1:
            raise TranslateError('expected exactly one non-None %s.append(..) in %s' % (l, qualname))
        arg = found[l][0]
        params = _free_names(arg)
        tr = FnTranslator(name_prefix + l, params)
        tr.returns = [('point', tr.expr(arg))]
        out.append(Translated(tr))
    return out


def calc_targets():
    t = []
    for conf in ('wald', 'hypergeometric'):
        t.append(translate_function(CALC, 'risk_ci', 'risk_ci_' + conf, config={'confint': conf}))
        t.append(translate_function(CALC, 'sensitivity', 'sensitivity_' + conf, config={'confint': conf}))
        t.append(translate_function(CALC, 'specificity', 'specificity_' + conf, config={'confint': conf}))
    for f in ('incidence_rate_ci', 'risk_ratio', 'risk_difference', 'number_needed_to_treat', 'odds_ratio',
              'incidence_rate_ratio', 'incidence_rate_difference', 'attributable_community_risk',
              'population_attributable_fraction', 'probability_to_odds', 'odds_to_probability'):
        t.append(translate_function(CALC, f))
    return t


def bounds_targets():
    return slice_appends(BASE, 'RiskDifference.fit', ['fr_lower', 'fr_upper'], 'rdbounds_')


def _is_call_to(fname):
    def p(v):
        return isinstance(v, ast.Call) and ast.unparse(v.func).endswith(fname)
    return p


def weights_targets():
    t = []
    for stab in (True, False):
        for std in ('population', 'exposed', 'unexposed'):
            oracle = {
                'denominator_model': _is_call_to('propensity_score'),
                'numerator_model': _is_call_to('propensity_score'),
                'd': _is_call_to('.predict'),
            }
            for k in ('denominator_model', 'numerator_model'):
                f = oracle[k]
                g = (lambda ff: (lambda v: ff(v)))(f)
                g.input = False
                oracle[k] = g
            if stab:
                oracle['n'] = _is_call_to('.predict')
            cfg = {'stabilized': stab, 'standardize': std, 'bound': False, 'model_numer': '1'}
            name = 'iptw_%s_%s' % ('stab' if stab else 'unstab', std)
            tree = ast.parse(open(CUTILS).read())
            fn = find_function(tree, 'iptw_calculator')
            tr = FnTranslator(name, [], config=cfg, oracle_assign=oracle, row_bool='df[treatment]')
            tr.defined |= {'df', 'treatment', 'model_denom', 'weight', 'print_results'}
            for s in fn.body:
                tr.stmt(s)
                if tr.returns is not None:
                    break
            if tr.returns is None:
                raise TranslateError('no return in iptw_calculator')
            # returns (d, n, iptw): keep the weight only
            tr.returns = [('weight', tr.returns[2][1])]
            t.append(Translated(tr))
    return t


def aipw_targets():
    """y1 / y0 pseudo-outcome lines of aipw_calculator"""
    tree = ast.parse(open(CUTILS).read())
    fn = find_function(tree, 'aipw_calculator')
    out = []
    for tgt in ('y1', 'y0'):
        hits = [s for s in fn.body if isinstance(s, ast.Assign) and len(s.targets) == 1
                and isinstance(s.targets[0], ast.Name) and s.targets[0].id == tgt]
        if len(hits) != 1:
            raise TranslateError('expected one assignment to %s in aipw_calculator' % tgt)
        params = [p for p in _free_names(hits[0].value) if p not in ('np', 'a')]
        tr = FnTranslator('aipw_' + tgt, params, row_bool='a')
        tr.defined.add('a')
        tr.returns = [('point', tr.expr(hits[0].value))]
        out.append(Translated(tr))
    return out


def tmle_targets():
    """clever covariates and update lines of TMLE.fit; tmle_unit_unbound"""
    TM = os.path.join(REPO, 'zepid/causal/doublyrobust/TMLE.py')
    tree = ast.parse(open(TM).read())
    fn = find_function(tree, 'TMLE.fit')
    out = []
    for tgt in ('H1W', 'H0W', 'Qstar1', 'Qstar0'):
        hits = [s for s in ast.walk(fn) if isinstance(s, ast.Assign) and len(s.targets) == 1
                and isinstance(s.targets[0], ast.Name) and s.targets[0].id == tgt
                and 'tmle_unit_unbound' not in ast.unparse(s.value)]
        if len(hits) != 1:
            raise TranslateError('expected one defining assignment to %s in TMLE.fit, found %d' % (tgt, len(hits)))
        tr = FnTranslator('tmle_' + tgt, [], self_attrs=True)
        tr.returns = [('point', tr.expr(hits[0].value))]
        out.append(Translated(tr))
    out.append(translate_function(os.path.join(REPO, 'zepid/causal/doublyrobust/utils.py'), 'tmle_unit_unbound'))
    out.append(translate_function(os.path.join(REPO, 'zepid/causal/doublyrobust/utils.py'), 'tmle_unit_bounds'))
    return out


class _MeanRewrite(ast.NodeTransformer):
    """np.mean(X) / np.nanmean(X) of a bare name -> the scalar name mean_X; self.df[self.outcome] -> y"""
    def visit_Call(self, n):
        self.generic_visit(n)
        if (isinstance(n.func, ast.Attribute) and isinstance(n.func.value, ast.Name) and n.func.value.id == 'np'
                and n.func.attr in ('mean', 'nanmean') and len(n.args) == 1 and not n.keywords
                and isinstance(n.args[0], ast.Name)):
            return ast.copy_location(ast.Name(id='mean_' + n.args[0].id, ctx=ast.Load()), n)
        return n

    def visit_Subscript(self, n):
        if ast.unparse(n) == 'self.df[self.outcome]':
            return ast.copy_location(ast.Name(id='y', ctx=ast.Load()), n)
        self.generic_visit(n)
        return n


def ic_targets():
    """per-row influence-curve expressions: the four `ic = np.where(delta == 1, ..)` of TMLE.fit (in source order:
    ATE, RD, RR, OR) and the two of aipw_calculator (difference: the argument of nanvar; ratio: `ic = ..`).
    Sample means enter as scalar parameters mean_<name>."""
    TM = os.path.join(REPO, 'zepid/causal/doublyrobust/TMLE.py')
    fn = find_function(ast.parse(open(TM).read()), 'TMLE.fit')
    hits = [s for s in ast.walk(fn) if isinstance(s, ast.Assign) and len(s.targets) == 1
            and isinstance(s.targets[0], ast.Name) and s.targets[0].id == 'ic']
    hits.sort(key=lambda s: s.lineno)
    if len(hits) != 4:
        raise TranslateError('expected four assignments to ic in TMLE.fit, found %d' % len(hits))
    out = []
    for nm, s in zip(('ate', 'rd', 'rr', 'or'), hits):
        v = _MeanRewrite().visit(ast.parse(ast.unparse(s.value), mode='eval').body)
        params = [p for p in _free_names(v) if p not in ('np', 'delta', 'self')]
        tr = FnTranslator('tmle_ic_' + nm, params, row_bool='delta', self_attrs=True)
        tr.defined.add('delta')
        tr.returns = [('point', tr.expr(v))]
        out.append(Translated(tr))
    fn = find_function(ast.parse(open(CUTILS).read()), 'aipw_calculator')
    # ratio: the single `ic = ...`; needs py_o = a*py_a + (1-a)*py_n first
    ics = [s for s in ast.walk(fn) if isinstance(s, ast.Assign) and len(s.targets) == 1
           and isinstance(s.targets[0], ast.Name) and s.targets[0].id == 'ic']
    pyo = [s for s in ast.walk(fn) if isinstance(s, ast.Assign) and len(s.targets) == 1
           and isinstance(s.targets[0], ast.Name) and s.targets[0].id == 'py_o']
    if len(ics) != 1 or len(pyo) != 1:
        raise TranslateError('expected one ic and one py_o assignment in aipw_calculator')
    v = _MeanRewrite().visit(ast.parse(ast.unparse(ics[0].value), mode='eval').body)
    vo = pyo[0].value
    params = sorted((set(_free_names(v)) | set(_free_names(vo))) - {'np', 'py_o', 'a'})
    tr = FnTranslator('aipw_ic_rr', params, row_bool='a')
    tr.defined.add('a')
    tr.bind('py_o', tr.expr(_IndA().visit(ast.parse(ast.unparse(vo), mode='eval').body)))
    tr.returns = [('point', tr.expr(_IndA().visit(v)))]
    out.append(Translated(tr))
    # difference: var = np.nanvar(<expr>, ddof=1) / y.shape[0] in the unweighted, no-splits branch
    nv = [s for s in ast.walk(fn) if isinstance(s, ast.Assign) and len(s.targets) == 1
          and isinstance(s.targets[0], ast.Name) and s.targets[0].id == 'var'
          and ast.unparse(s.value).startswith('np.nanvar(y1 - y0')]
    if len(nv) != 1:
        raise TranslateError('expected one `var = np.nanvar(y1 - y0 ..` in aipw_calculator, found %d' % len(nv))
    call = nv[0].value.left
    kw = {k.arg: ast.unparse(k.value) for k in call.keywords}
    if kw != {'ddof': '1'} or ast.unparse(nv[0].value.right) != 'y.shape[0]':
        raise TranslateError('nanvar call shape changed: %s' % ast.unparse(nv[0].value))
    arg = call.args[0]
    tr = FnTranslator('aipw_ic_rd', _free_names(arg))
    tr.returns = [('point', tr.expr(arg))]
    out.append(Translated(tr))
    return out


class _IndA(ast.NodeTransformer):
    """the treatment column `a` used arithmetically -> the indicator of the row boolean"""
    def visit_Name(self, n):
        if n.id == 'a':
            return ast.copy_location(ast.Name(id='__inda__', ctx=ast.Load()), n)
        return n


class RawTarget:
    """a target emitted as ready-made Coq text (list-level code the scalar IR does not cover)"""
    def __init__(self, name, q_text, inputs, returns):
        self.name, self.q_text, self.inputs, self.returns = name, q_text, inputs, returns

    def coq(self):
        return '(* %s: rational only, see the _Q file *)' % self.name

    def coq_q(self):
        return self.q_text

    def sidecar(self):
        return {'name': self.name, 'inputs': self.inputs, 'returns': self.returns, 'qobs': self.returns, 'has_a': False,
                'uses_zq': False, 'guards': 0}


def pool_targets():
    """calculate_joint_estimate: for each `method` branch, WHICH numpy aggregate is taken of the point estimates, and the
    elementwise expression (in var_est, point_est, single_point) whose aggregate is the pooled variance."""
    CF = os.path.join(REPO, 'zepid/causal/doublyrobust/crossfit.py')
    fn = find_function(ast.parse(open(CF).read()), 'calculate_joint_estimate')
    if [a.arg for a in fn.args.args] != ['point_est', 'var_est', 'method']:
        raise TranslateError('calculate_joint_estimate signature changed')
    branches = {}

    def walk_if(node):
        t = node.test
        if not (isinstance(t, ast.Compare) and ast.unparse(t.left) == 'method' and len(t.ops) == 1 and isinstance(t.ops[0], ast.Eq)
                and isinstance(t.comparators[0], ast.Constant)):
            raise TranslateError('unexpected test %s in calculate_joint_estimate' % ast.unparse(t))
        branches[t.comparators[0].value] = node.body
        if len(node.orelse) == 1 and isinstance(node.orelse[0], ast.If):
            walk_if(node.orelse[0])
        elif not (len(node.orelse) == 1 and isinstance(node.orelse[0], ast.Raise)):
            raise TranslateError('unexpected else branch in calculate_joint_estimate')
    ifs = [s for s in fn.body if isinstance(s, ast.If) and 'method' in ast.unparse(s.test)]
    if len(ifs) != 1:
        raise TranslateError('expected one if-chain on `method` in calculate_joint_estimate')
    walk_if(ifs[0])
    ret = fn.body[-1]
    if not (isinstance(ret, ast.Return) and ast.unparse(ret.value) == '(single_point, single_point_var)'):
        raise TranslateError('calculate_joint_estimate no longer returns (single_point, single_point_var)')
    if set(branches) != {'median', 'mean'}:
        raise TranslateError('pooling methods are %r' % sorted(branches))
    out = []
    AGG = {'median': 'median', 'mean': 'meanq'}
    for method, body in sorted(branches.items()):
        if len(body) != 2 or not all(isinstance(b, ast.Assign) and len(b.targets) == 1 for b in body):
            raise TranslateError('branch %s of calculate_joint_estimate is not two assignments' % method)
        a1, a2 = body
        if ast.unparse(a1.targets[0]) != 'single_point' or ast.unparse(a2.targets[0]) != 'single_point_var':
            raise TranslateError('branch %s assigns %s, %s' % (method, ast.unparse(a1.targets[0]), ast.unparse(a2.targets[0])))

        def agg_of(v):
            if not (isinstance(v, ast.Call) and isinstance(v.func, ast.Attribute) and isinstance(v.func.value, ast.Name)
                    and v.func.value.id == 'np' and v.func.attr in AGG and len(v.args) == 1 and not v.keywords):
                raise TranslateError('aggregate %s' % ast.unparse(v))
            return AGG[v.func.attr], v.args[0]
        g1, arg1 = agg_of(a1.value)
        if ast.unparse(arg1) != 'point_est':
            raise TranslateError('pooled point is an aggregate of %s' % ast.unparse(arg1))
        g2, arg2 = agg_of(a2.value)
        tr = FnTranslator('pool_%s_term' % method, ['point_est', 'single_point', 'var_est'])
        e = tr.expr(arg2)
        term = emit(e, 'Q')
        txt = ('Definition pool_%s_term_Q (v_point_est v_single_point v_var_est : Q) : Q :=\n  %s.\n'
               'Definition pool_%s_Q (pts vars : list Q) : Q * Q :=\n'
               '  let c := %s pts in\n  (c, %s (map (fun pv => pool_%s_term_Q (fst pv) c (snd pv)) (combine pts vars))).'
               % (method, term, method, g1, g2, method))
        out.append(RawTarget('pool_' + method, txt, ['pts', 'vars'], ['point', 'variance']))
    return out


def bounds_clip_targets():
    """zepid.calc.utils.probability_bounds: the dispatch on type(bounds), the rejection tests of each branch and the masked
    assignments `v[v < x] = y`, per element.  Emitted over Q with option (None = ValueError)."""
    fn = find_function(ast.parse(open(CALC).read()), 'probability_bounds')
    if [a.arg for a in fn.args.args] != ['v', 'bounds']:
        raise TranslateError('probability_bounds signature changed')

    class Sub(ast.NodeTransformer):
        def visit_Subscript(self, n):
            if isinstance(n.value, ast.Name) and n.value.id == 'bounds' and isinstance(n.slice, ast.Constant) and n.slice.value in (0, 1):
                return ast.copy_location(ast.Name(id='lo' if n.slice.value == 0 else 'hi', ctx=ast.Load()), n)
            return self.generic_visit(n)

    def arith(e, names):
        tr = FnTranslator('pb', list(names))
        return emit(tr.expr(Sub().visit(ast.parse(ast.unparse(e), mode='eval').body)), 'Q')

    def boolean(t, names):
        if isinstance(t, ast.BoolOp):
            op = ' || ' if isinstance(t.op, ast.Or) else ' && '
            return '(' + op.join(boolean(v, names) for v in t.values) + ')'
        if isinstance(t, ast.Compare) and len(t.ops) == 1:
            a, b = arith(t.left, names), arith(t.comparators[0], names)
            if isinstance(t.ops[0], ast.Lt):
                return 'Qlt_bool %s %s' % (a, b)
            if isinstance(t.ops[0], ast.Gt):
                return 'Qlt_bool %s %s' % (b, a)
            if isinstance(t.ops[0], ast.LtE):
                return 'Qle_bool %s %s' % (a, b)
            if isinstance(t.ops[0], ast.GtE):
                return 'Qle_bool %s %s' % (b, a)
        raise TranslateError('boolean test %s in probability_bounds' % ast.unparse(t))

    def is_type_test(t, what):
        return ast.unparse(t) == 'type(bounds) is %s' % what

    def branch(body, names):
        """-> (list of rejection conditions in order, let-chain text for one element, rejects-str flag)"""
        rejects, lets, strtest = [], [], False
        for st in body:
            if isinstance(st, ast.If) and len(st.body) == 1 and isinstance(st.body[0], ast.Raise) and not st.orelse:
                if 'is str' in ast.unparse(st.test):
                    if ast.unparse(st.test) != 'type(bounds[0]) is str or type(bounds[1]) is str':
                        raise TranslateError('string test %s' % ast.unparse(st.test))
                    strtest = True
                    continue
                if lets:
                    raise TranslateError('a rejection test after an assignment in probability_bounds')
                rejects.append(boolean(st.test, names))
            elif isinstance(st, ast.If) and ast.unparse(st.test) == 'len(bounds) > 2' and all(
                    isinstance(b, ast.Expr) and ast.unparse(b.value.func) == 'warnings.warn' for b in st.body) and not st.orelse:
                continue
            elif (isinstance(st, ast.Assign) and len(st.targets) == 1 and isinstance(st.targets[0], ast.Subscript)
                  and isinstance(st.targets[0].value, ast.Name) and st.targets[0].value.id == 'v'
                  and isinstance(st.targets[0].slice, ast.Compare)):
                c = st.targets[0].slice
                if not (isinstance(c.left, ast.Name) and c.left.id == 'v'):
                    raise TranslateError('mask %s' % ast.unparse(c))
                lets.append('let v_v := if %s then %s else v_v in' % (boolean(c, names), arith(st.value, names)))
            else:
                raise TranslateError('statement `%s` in probability_bounds' % ast.unparse(st)[:60])
        return rejects, lets, strtest

    if not (isinstance(fn.body[1], ast.Assign) and ast.unparse(fn.body[1]) == 'v = np.array(v)'):
        raise TranslateError('probability_bounds no longer starts by copying v with np.array')
    chain = fn.body[2]
    if not (isinstance(chain, ast.If) and is_type_test(chain.test, 'float')):
        raise TranslateError('probability_bounds: first branch is not `type(bounds) is float`')
    fl_body = chain.body
    rest = chain.orelse
    kinds = {}
    while len(rest) == 1 and isinstance(rest[0], ast.If) and ast.unparse(rest[0].test).startswith('type(bounds) is '):
        what = ast.unparse(rest[0].test).split(' is ')[1]
        kinds[what] = rest[0].body
        rest = rest[0].orelse
    for what in ('str', 'int'):
        if what not in kinds or not (len(kinds[what]) == 1 and isinstance(kinds[what][0], ast.Raise)):
            raise TranslateError('probability_bounds: the %s branch is not a bare raise' % what)
    if set(kinds) != {'str', 'int'}:
        raise TranslateError('probability_bounds branches: %r' % sorted(kinds))
    pair_body = rest
    if not (isinstance(fn.body[-1], ast.Return) and ast.unparse(fn.body[-1].value) == 'v'):
        raise TranslateError('probability_bounds no longer returns v')
    r1, l1, _ = branch(fl_body, ['v', 'bounds'])
    r2, l2, strtest = branch(pair_body, ['v', 'lo', 'hi'])
    if not strtest:
        raise TranslateError('probability_bounds: the pair branch no longer rejects strings')

    def body(rej, lets):
        t = 'Some (%s v_v)' % ' '.join(lets)
        for c in reversed(rej):
            t = 'if %s then None else %s' % (c, t)
        return t
    txt = ('(* per element; None = ValueError.  str and int bounds: bare `raise ValueError` branches (checked by the translator) *)\n'
           'Definition pb_float_Q (v_bounds v_v : Q) : option Q :=\n  %s.\n'
           'Definition pb_pair_Q (v_lo v_hi v_v : Q) : option Q :=\n  %s.' % (body(r1, l1), body(r2, l2)))
    return [RawTarget('probability_bounds', txt, ['bounds', 'v'], ['clipped'])]


def wprod_targets():
    """IPTW.fit: the per-row weight handed to the GEE (df['_ipfw_']) in each of the four configurations
    (missing-outcome weights present or not) x (user weights column given or not)."""
    IP = os.path.join(REPO, 'zepid/causal/ipw/IPTW.py')
    fn = find_function(ast.parse(open(IP).read()), 'IPTW.fit')
    tops = [st for st in fn.body if isinstance(st, ast.If) and ast.unparse(st.test) == 'self.ipmw is None']
    if len(tops) != 1:
        raise TranslateError('expected one `if self.ipmw is None:` in IPTW.fit, found %d' % len(tops))
    # every later use of the column must be as the GEE weights
    uses = [n for n in ast.walk(fn) if isinstance(n, ast.keyword) and n.arg == 'weights']
    if not uses or any(ast.unparse(u.value) != "df['_ipfw_']" for u in uses):
        raise TranslateError("IPTW.fit no longer passes df['_ipfw_'] as the GEE weights")

    class Ren(ast.NodeTransformer):
        def visit_Subscript(self, n):
            if ast.unparse(n) == 'self.df[self._weight_]':
                return ast.copy_location(ast.Name(id='w', ctx=ast.Load()), n)
            return self.generic_visit(n)

        def visit_Attribute(self, n):
            if ast.unparse(n) in ('self.iptw', 'self.ipmw'):
                return ast.copy_location(ast.Name(id=n.attr, ctx=ast.Load()), n)
            return self.generic_visit(n)

    def run(stmts, env):
        val = None
        for st in stmts:
            if isinstance(st, ast.If):
                t = ast.unparse(st.test)
                if t not in env:
                    raise TranslateError('undecidable test `%s` in the weight block of IPTW.fit' % t)
                r = run(st.body if env[t] else st.orelse, env)
                val = r if r is not None else val
            elif isinstance(st, ast.Assign) and len(st.targets) == 1 and ast.unparse(st.targets[0]) == "df['_ipfw_']":
                val = st.value
            else:
                raise TranslateError('statement `%s` in the weight block of IPTW.fit' % ast.unparse(st)[:60])
        return val
    out = []
    for miss in (False, True):
        for usr in (False, True):
            v = run([tops[0]], {'self.ipmw is None': not miss, 'self._weight_ is None': not usr})
            if v is None:
                raise TranslateError("no assignment to df['_ipfw_'] for missing-weights=%s, user-weights=%s" % (miss, usr))
            v = Ren().visit(ast.parse(ast.unparse(v), mode='eval').body)
            tr = FnTranslator('iptw_fit_weight_%s_%s' % ('ipmw' if miss else 'noipmw', 'w' if usr else 'now'), ['iptw', 'ipmw', 'w'])
            tr.returns = [('weight', tr.expr(v))]
            out.append(Translated(tr))
    return out


def gfmarg_targets():
    """TimeFixedGFormula.fit and .fit_stochastic (per Monte-Carlo replicate): the six marginalisation branches
    (weights column given or not) x (standardize = population / exposed / unexposed): which aggregate (np.mean / np.average
    with weights), over which rows (the mask on the OBSERVED exposure self.gf[self.exposure], or none), of which columns.
    Rows are (observed exposure, prediction, weight)."""
    TF = os.path.join(REPO, 'zepid/causal/gformula/TimeFixed.py')
    tree = ast.parse(open(TF).read())

    def leaf_value(st, kind):
        if kind == 'fit' and isinstance(st, ast.Assign) and ast.unparse(st.targets[0]) == 'self.marginal_outcome':
            return st.value
        if (kind == 'sto' and isinstance(st, ast.Expr) and isinstance(st.value, ast.Call)
                and ast.unparse(st.value.func) == 'marginals.append' and len(st.value.args) == 1):
            return st.value.args[0]
        return None

    def pick(stmts, std, kind):
        for st in stmts:
            if isinstance(st, ast.Assign) and ast.unparse(st.targets[0]) == 'g' and ast.unparse(st.value) == 'g.dropna()':
                continue
            if isinstance(st, ast.If):
                t = ast.unparse(st.test)
                if t == "self.standardize == 'population'":
                    return pick(st.body if std == 'population' else st.orelse, std, kind)
                if t == "self.standardize == 'exposed'":
                    return pick(st.body if std == 'exposed' else st.orelse, std, kind)
                raise TranslateError('test `%s` in a marginalisation block of TimeFixedGFormula' % t)
            v = leaf_value(st, kind)
            if v is not None:
                return v
            raise TranslateError('statement `%s` in a marginalisation block' % ast.unparse(st)[:60])
        raise TranslateError('no marginal value for standardize=%s' % std)

    def column(e):
        u = ast.unparse(e)
        for col, name in (('self.outcome', 'pred'), ('self._weights', 'w')):
            if u == 'g[%s]' % col:
                return 'all', name
            for lvl in ('1', '0'):
                if u == 'g.loc[self.gf[self.exposure] == %s, %s]' % (lvl, col):
                    return lvl, name
        raise TranslateError('column expression %s in a marginalisation block' % u)
    out = []
    for kind, qual, prefix in (('fit', 'TimeFixedGFormula.fit', 'gf_fit'), ('sto', 'TimeFixedGFormula.fit_stochastic', 'gf_sto')):
        fn = find_function(tree, qual)
        tops = [st for st in ast.walk(fn) if isinstance(st, ast.If) and ast.unparse(st.test) == 'self._weights is None'
                and any(isinstance(b, ast.If) and 'self.standardize' in ast.unparse(b.test) for b in st.body)]
        if len(tops) != 1:
            raise TranslateError('expected one marginalisation `if self._weights is None:` in %s, found %d' % (qual, len(tops)))
        if kind == 'sto':
            last = fn.body[-1]
            if not (isinstance(last, ast.Assign) and ast.unparse(last) == 'self.marginal_outcome = np.mean(marginals)'):
                raise TranslateError('fit_stochastic no longer ends with self.marginal_outcome = np.mean(marginals)')
        for weighted, body in ((False, tops[0].body), (True, tops[0].orelse)):
            for std in ('population', 'exposed', 'unexposed'):
                v = pick(body, std, kind)
                if not (isinstance(v, ast.Call) and isinstance(v.func, ast.Attribute) and ast.unparse(v.func.value) == 'np'):
                    raise TranslateError('marginal value is %s' % ast.unparse(v))
                if v.func.attr == 'mean' and len(v.args) == 1 and not v.keywords:
                    mask, col = column(v.args[0])
                    if col != 'pred':
                        raise TranslateError('np.mean of %s' % ast.unparse(v.args[0]))
                    agg = 'Qsum (fun r => snd (fst r)) sel / Qlen sel'
                elif v.func.attr == 'average' and len(v.args) == 1 and [k.arg for k in v.keywords] == ['weights']:
                    mask, col = column(v.args[0])
                    mask2, col2 = column(v.keywords[0].value)
                    if col != 'pred' or col2 != 'w' or mask != mask2:
                        raise TranslateError('np.average arguments %s' % ast.unparse(v))
                    agg = 'Qsum (fun r => snd r * snd (fst r)) sel / Qsum (fun r => snd r) sel'
                else:
                    raise TranslateError('aggregate %s' % ast.unparse(v))
                sel = 'rows' if mask == 'all' else 'filter (fun r => %s) rows' % ('fst (fst r)' if mask == '1' else 'negb (fst (fst r))')
                name = '%s_%s_%s' % (prefix, std, 'w' if weighted else 'now')
                txt = ('(* rows: (observed exposure, prediction under the plan / the replicate\'s assignment, weight) *)\n'
                       'Definition %s_Q (rows : list (bool * Q * Q)) : Q :=\n  let sel := %s in\n  %s.' % (name, sel, agg))
                out.append(RawTarget(name, txt, ['rows'], ['marginal']))
    return out


def xfvar_targets():
    """aipw_calculator, difference measure, unweighted, with `splits`: the loop over the parts (which per-part aggregate of which
    elementwise expression in y1s, y0s, estimate), the aggregate over the parts and the final divisor."""
    fn = find_function(ast.parse(open(CUTILS).read()), 'aipw_calculator')
    loops = [n for n in ast.walk(fn) if isinstance(n, ast.For) and ast.unparse(n.iter) == 'set(splits)'
             and any('var_rd.append' in ast.unparse(b) for b in n.body)]
    if len(loops) != 1:
        raise TranslateError('expected one `for i in set(splits)` loop filling var_rd in aipw_calculator, found %d' % len(loops))
    loop = loops[0]
    sub, app = {}, None
    for st in loop.body:
        u = ast.unparse(st)
        if isinstance(st, ast.Assign) and u in ('y1s = y1[splits == i]', 'y0s = y0[splits == i]'):
            sub[st.targets[0].id] = True
        elif isinstance(st, ast.Expr) and u.startswith('var_rd.append('):
            app = st.value.args[0]
        else:
            raise TranslateError('statement `%s` in the split-variance loop of aipw_calculator' % u[:60])
    if set(sub) != {'y1s', 'y0s'} or app is None:
        raise TranslateError('split-variance loop of aipw_calculator changed shape')
    if not (isinstance(app, ast.Call) and ast.unparse(app.func) == 'np.var' and len(app.args) == 1
            and {k.arg: ast.unparse(k.value) for k in app.keywords} == {'ddof': '1'}):
        raise TranslateError('per-part aggregate is %s' % ast.unparse(app))
    tr = FnTranslator('xf_term', ['y1s', 'y0s', 'estimate'])
    term = emit(tr.expr(app.args[0]), 'Q')
    fin = [n for n in ast.walk(fn) if isinstance(n, ast.Assign) and ast.unparse(n.targets[0]) == 'var'
           and 'var_rd' in ast.unparse(n.value)]
    if len(fin) != 1 or ast.unparse(fin[0].value) != 'np.mean(var_rd) / y.shape[0]':
        raise TranslateError('the partition variance is no longer np.mean(var_rd) / y.shape[0]: %s'
                             % (ast.unparse(fin[0].value) if fin else 'missing'))
    txt = ('(* a part: the (y1, y0) pseudo-outcome pairs of its rows; n: y.shape[0] *)\n'
           'Definition xf_term_Q (v_y1s v_y0s v_estimate : Q) : Q :=\n  %s.\n'
           'Definition xf_aipw_var_Q (v_estimate : Q) (parts : list (list (Q * Q))) (n : Q) : Q :=\n'
           '  meanq (map (fun part => var_ddof1 (map (fun p => xf_term_Q (fst p) (snd p) v_estimate) part)) parts) / n.' % term)
    return [RawTarget('xf_aipw_var', txt, ['estimate', 'parts', 'n'], ['variance'])]


def gate_targets():
    """check_input_data: which rows survive entry.  Both branches of `if drop_censoring:` must (a) count the complete rows with
    data.dropna(<subset>), (b) keep exactly those rows -- either unchanged (the counts agree) or through the same dropna -- and
    (c) in the keep-missing-outcome branch raise the missing flag when a kept row lacks the outcome.  <subset> is read from the
    source: no argument / every column -> the whole row must be complete; every column but `outcome` -> only the outcome may
    be missing.  Rows are Model.Gate.raw records (exposure, covariates, outcome as options)."""
    fn = find_function(ast.parse(open(CUTILS).read()), 'check_input_data')
    tops = [st for st in fn.body if isinstance(st, ast.If) and ast.unparse(st.test) == 'drop_censoring']
    if len(tops) != 1:
        raise TranslateError('expected one `if drop_censoring:` in check_input_data')

    def subset_kind(call):
        """data.dropna(...) / data.copy().dropna(...) -> 'all' | 'non-outcome'"""
        if not (isinstance(call, ast.Call) and isinstance(call.func, ast.Attribute) and call.func.attr == 'dropna'):
            raise TranslateError('not a dropna call: %s' % ast.unparse(call))
        base = ast.unparse(call.func.value)
        if base not in ('data', 'data.copy()'):
            raise TranslateError('dropna on %s' % base)
        if call.args:
            raise TranslateError('dropna with positional arguments')
        kw = {k.arg: ast.unparse(k.value) for k in call.keywords}
        if kw == {} or kw == {'subset': '[d for d in data.columns]'}:
            return 'all'
        if kw == {'subset': '[d for d in data.columns if d != outcome]'}:
            return 'non-outcome'
        raise TranslateError('dropna subset %r' % kw)

    def branch(stmts, want_flag):
        kinds = []
        flag_seen = False
        if not (isinstance(stmts[0], ast.Assign) and ast.unparse(stmts[0].targets[0]) == 'valid_obs'
                and ast.unparse(stmts[0].value).endswith('.shape[0]')):
            raise TranslateError('branch does not start by counting valid_obs')
        kinds.append(subset_kind(stmts[0].value.value.value))
        chk = stmts[1]
        if not (isinstance(chk, ast.If) and ast.unparse(chk.test) == 'valid_obs != data.shape[0]'):
            raise TranslateError('expected `if valid_obs != data.shape[0]:`')
        drop = [b for b in chk.body if isinstance(b, ast.Assign) and ast.unparse(b.targets[0]) == 'data']
        keep = [b for b in chk.orelse if isinstance(b, ast.Assign) and ast.unparse(b.targets[0]) == 'data']
        if len(drop) != 1 or len(keep) != 1:
            raise TranslateError('the two ways of keeping rows changed shape')
        dv, kv = drop[0].value, keep[0].value
        if not (ast.unparse(dv).endswith('.reset_index(drop=True)') and ast.unparse(kv) == 'data.copy().reset_index(drop=True)'):
            raise TranslateError('kept rows are no longer re-labelled 0..n-1 without carrying the caller\'s index: %s / %s'
                                 % (ast.unparse(dv)[-60:], ast.unparse(kv)))
        kinds.append(subset_kind(dv.func.value))
        if kinds[0] != kinds[1]:
            raise TranslateError('rows counted (%s) and rows kept (%s) differ' % tuple(kinds))
        for st in stmts[2:]:
            u = ast.unparse(st)
            if isinstance(st, ast.If) and ast.unparse(st.test) == 'valid_obs != data.dropna(subset=[outcome]).shape[0]':
                body = [ast.unparse(b) for b in st.body]
                orelse = [ast.unparse(b) for b in st.orelse]
                if body != ['miss_flag = True', "data['__missing_indicator__'] = np.where(data[outcome].isna(), 0, 1)"] or \
                        orelse != ['miss_flag = False', "data['__missing_indicator__'] = 1"]:
                    raise TranslateError('missing-outcome flag block changed')
                flag_seen = True
            elif u in ('miss_flag = False', "data['__missing_indicator__'] = 1"):
                continue
            else:
                raise TranslateError('statement `%s` in check_input_data' % u[:60])
        if want_flag != flag_seen:
            raise TranslateError('missing-outcome flag computed in the wrong branch')
        return kinds[0]
    k_all = branch(tops[0].body, False)
    k_keep = branch(tops[0].orelse, True)
    PRED = {'all': 'is_some (rx r) && forallb is_some (rc r) && is_some (ry r)',
            'non-outcome': 'is_some (rx r) && forallb is_some (rc r)'}
    txt = ('Definition gate_drop_all_Q (rows : list raw) : list raw := filter (fun r => %s) rows.\n'
           'Definition gate_keep_Q (rows : list raw) : list raw := filter (fun r => %s) rows.\n'
           '(* valid_obs != number of kept rows with an outcome *)\n'
           'Definition miss_flag_Q (rows : list raw) : bool :=\n'
           '  negb (Nat.eqb (length (gate_keep_Q rows)) (length (filter (fun r => is_some (ry r)) (gate_keep_Q rows)))).'
           % (PRED[k_all], PRED[k_keep]))
    return [RawTarget('check_input_data', txt, ['rows'], ['kept rows', 'missing flag'])]


def drci_targets():
    """confidence limits of AIPTW.fit (ATE, RD, RR) and TMLE.fit (ATE, RD, RR, OR): the critical value and the two limits as
    functions of alpha, the point estimate and the standard error.  TMLE's critical value is read with its special case."""
    out = []

    class SelfAttr(ast.NodeTransformer):
        def visit_Attribute(self, n):
            if isinstance(n.value, ast.Name) and n.value.id == 'self':
                return ast.copy_location(ast.Name(id=n.attr.lstrip('_'), ctx=ast.Load()), n)
            return self.generic_visit(n)

    def zalpha_expr(fn, tr):
        """-> IR of zalpha (either one norm.ppf assignment, or `if self.alpha == 0.05: zalpha = 1.96 else: zalpha = norm.ppf(..)`)"""
        for st in ast.walk(fn):
            if isinstance(st, ast.If) and ast.unparse(st.test) == 'self.alpha == 0.05' and len(st.body) == 1 and len(st.orelse) == 1 \
                    and ast.unparse(st.body[0].targets[0]) == 'zalpha' and ast.unparse(st.orelse[0].targets[0]) == 'zalpha':
                c = tr.expr(SelfAttr().visit(ast.parse(ast.unparse(st.body[0].value), mode='eval').body))
                g = tr.expr(SelfAttr().visit(ast.parse(ast.unparse(st.orelse[0].value), mode='eval').body))
                return ('ifeq005', c, g)
        hits = [st for st in ast.walk(fn) if isinstance(st, ast.Assign) and ast.unparse(st.targets[0]) == 'zalpha']
        if len(hits) != 1:
            raise TranslateError('expected one assignment to zalpha, found %d' % len(hits))
        return tr.expr(SelfAttr().visit(ast.parse(ast.unparse(hits[0].value), mode='eval').body))

    def limits(fn, target, tr, extra=None):
        hits = [st for st in ast.walk(fn) if isinstance(st, ast.Assign) and ast.unparse(st.targets[0]) == 'self.' + target]
        if len(hits) != 1 or not isinstance(hits[0].value, (ast.List, ast.Tuple)) or len(hits[0].value.elts) != 2:
            raise TranslateError('expected one two-element assignment to self.%s' % target)
        return [tr.expr(SelfAttr().visit(ast.parse(ast.unparse(e), mode='eval').body)) for e in hits[0].value.elts]

    def subst(e, name, by):
        if e[0] == 'var' and e[1] == name:
            return by
        return tuple(subst(x, name, by) if isinstance(x, tuple) else x for x in e)

    AI = os.path.join(REPO, 'zepid/causal/doublyrobust/AIPW.py')
    TM = os.path.join(REPO, 'zepid/causal/doublyrobust/TMLE.py')
    for path, qual, prefix, specs in (
            (AI, 'AIPTW.fit', 'aiptw', [('ate', 'average_treatment_effect_ci', {'average_treatment_effect': 'est', 'diff_var': 'var'}),
                                        ('rd', 'risk_difference_ci', {'risk_difference': 'est', 'diff_var': 'var'}),
                                        ('rr', 'risk_ratio_ci', {'rr': 'est', 'risk_ratio_se': 'se'})]),
            (TM, 'TMLE.fit', 'tmle', [('ate', 'average_treatment_effect_ci', {'average_treatment_effect': 'est', 'seIC': 'se'}),
                                      ('rd', 'risk_difference_ci', {'risk_difference': 'est', 'seIC': 'se'}),
                                      ('rr', 'risk_ratio_ci', {'risk_ratio': 'est', 'seIC': 'se'}),
                                      ('or', 'odds_ratio_ci', {'odds_ratio': 'est', 'seIC': 'se'})])):
        fn = find_function(ast.parse(open(path).read()), qual)
        for tag, target, ren in specs:
            second = 'var' if 'var' in ren.values() else 'se'
            tr = FnTranslator('%s_ci_%s' % (prefix, tag), ['alpha', 'est', second])
            tr.defined |= set(ren) | {'zalpha'}
            z = zalpha_expr(fn, tr)
            lo, hi = limits(fn, target, tr)
            for old, newn in ren.items():
                lo, hi = subst(lo, old, ('var', newn)), subst(hi, old, ('var', newn))
            special = z[0] == 'ifeq005'
            if special:
                zc, zg = z[1], z[2]
                lo_s, hi_s = subst(lo, 'zalpha', zc), subst(hi, 'zalpha', zc)
                lo, hi = subst(lo, 'zalpha', zg), subst(hi, 'zalpha', zg)
            else:
                lo, hi = subst(lo, 'zalpha', z), subst(hi, 'zalpha', z)
            params = '(zq : R -> R) (v_alpha v_est v_%s : R)' % second
            txt = 'Definition %s_ci_%s_R %s : R * R :=\n  (%s, %s).' % (prefix, tag, params, emit(lo, 'R'), emit(hi, 'R'))
            if special:
                txt += ('\n(* the limits reported when alpha == 0.05 (a literal critical value replaces the quantile) *)\n'
                        'Definition %s_ci_%s_at005_R (v_est v_%s : R) : R * R :=\n  (%s, %s).' % (prefix, tag, second, emit(lo_s, 'R'), emit(hi_s, 'R')))
            out.append(RawTargetR('%s_ci_%s' % (prefix, tag), txt))
    return out


def gener_targets():
    """zepid.causal.generalize.estimators: the sampling weight of IPSW.sampling_model (generalize / transport x stabilized /
    unstabilized x truncated / not) and AIPSW.sampling_model, the total weight and the two arm risks of IPSW.fit, the per-row
    terms and aggregates of AIPSW.fit, the four averaging branches of GTransportFormula.fit and the row sets they average over."""
    GE = os.path.join(REPO, 'zepid/causal/generalize/estimators.py')
    tree = ast.parse(open(GE).read())
    out = []

    def q(node, names, conds=None):
        """scalar arithmetic -> Coq text over Q; names: source text -> Coq term"""
        u = ast.unparse(node)
        if u in names:
            return names[u]
        if isinstance(node, ast.Constant) and isinstance(node.value, int) and not isinstance(node.value, bool):
            return '(%d # 1)' % node.value
        if isinstance(node, ast.BinOp) and type(node.op) in (ast.Add, ast.Sub, ast.Mult, ast.Div):
            op = {ast.Add: '+', ast.Sub: '-', ast.Mult: '*', ast.Div: '/'}[type(node.op)]
            return '(%s %s %s)' % (q(node.left, names, conds), op, q(node.right, names, conds))
        if isinstance(node, ast.Call) and ast.unparse(node.func) == 'probability_bounds' and len(node.args) == 1 \
                and [k.arg for k in node.keywords] == ['bounds'] and ast.unparse(node.keywords[0].value) == 'bound':
            return '(pb %s)' % q(node.args[0], names, conds)
        if isinstance(node, ast.Call) and ast.unparse(node.func) == 'np.where' and len(node.args) == 3 and not node.keywords:
            c = ast.unparse(node.args[0])
            if conds is None or c not in conds:
                raise TranslateError('np.where condition `%s`' % c)
            return '(if %s then %s else %s)' % (conds[c], q(node.args[1], names, conds), q(node.args[2], names, conds))
        raise TranslateError('expression `%s` in generalize.estimators' % u[:70])

    class Sub(ast.NodeTransformer):
        def __init__(self, env):
            self.env = env

        def generic_visit(self, n):
            u = ast.unparse(n) if isinstance(n, ast.expr) else None
            if u is not None and u in self.env:
                return self.env[u]
            return ast.NodeTransformer.generic_visit(self, n)

    def clone(e):
        return ast.parse(ast.unparse(e), mode='eval').body

    def sym(stmts, tests, env, skip):
        """straight-line symbolic execution: env maps the source text of an assignable to the expression it holds"""
        for st in stmts:
            if isinstance(st, ast.Expr) and isinstance(st.value, ast.Constant) and isinstance(st.value.value, str):
                continue
            if isinstance(st, ast.If):
                t = ast.unparse(st.test)
                if t in tests:
                    sym(st.body if tests[t] else st.orelse, tests, env, skip)
                    continue
                if all(isinstance(b, ast.Raise) for b in st.body) and not st.orelse:
                    continue                      # argument validation
                raise TranslateError('undecidable test `%s` in generalize.estimators' % t)
            if isinstance(st, ast.Assign) and len(st.targets) == 1:
                tgt = ast.unparse(st.targets[0])
                if tgt in skip:
                    continue
                if tgt in ('dmodel', 'nmodel'):
                    if not (isinstance(st.value, ast.Call) and ast.unparse(st.value.func) == 'propensity_score'):
                        raise TranslateError('%s is `%s`' % (tgt, ast.unparse(st.value)[:60]))
                    continue                      # nuisance fit: its predictions are the inputs n, d
                env[tgt] = Sub(env).visit(clone(st.value))
                continue
            raise TranslateError('statement `%s` in generalize.estimators' % ast.unparse(st)[:60])
        return env

    # ---- sampling weights
    for cls, frame, has_bound in (('IPSW', 'self.sample', True), ('AIPSW', 'self.df', False)):
        fn = find_function(tree, cls + '.sampling_model')
        if ('bound' in [a.arg for a in fn.args.args]) != has_bound:
            raise TranslateError('%s.sampling_model: unexpected `bound` parameter status' % cls)
        for gn in (True, False):
            for stab in (True, False):
                for bnd in ((False, True) if has_bound else (False,)):
                    env = sym(fn.body, {'self.generalize': gn, 'stabilized': stab, 'not stabilized': not stab, 'bound': bnd},
                              {}, {'self._denominator_model'})
                    if ast.unparse(env.get('self.ipsw', ast.Name(id='?'))) == '?':
                        raise TranslateError('%s.sampling_model does not set self.ipsw' % cls)
                    names = {'dmodel.predict(%s)' % frame: 'v_d', 'nmodel.predict(%s)' % frame: 'v_n'}
                    txt = q(env['self.ipsw'], names, {'self.sample': 'v_s'} if cls == 'AIPSW' else None)
                    name = '%s_samp_%s_%s%s' % (cls.lower(), 'gen' if gn else 'trn', 'stab' if stab else 'unstab', '_b' if bnd else '')
                    params = ('(pb : Q -> Q) ' if bnd else '') + ('(v_s : bool) ' if cls == 'AIPSW' else '') + '(v_n v_d : Q)'
                    out.append(RawTarget(name, 'Definition %s_Q %s : Q :=\n  %s.' % (name, params, txt), ['n', 'd'], ['weight']))

    # ---- which rows are the study sample / the rows the treatment weights are computed on
    keeps = {'df.loc[df[selection] == 1].copy()': 'v_s', 'df.loc[df[selection] == 0].copy()': 'negb v_s', 'df.copy()': 'true',
             'df[selection] == 1': 'v_s', 'df[selection] == 0': 'negb v_s'}
    for cls in ('IPSW', 'AIPSW'):
        init = find_function(tree, cls + '.__init__')
        hits = [st for st in init.body if isinstance(st, ast.Assign) and ast.unparse(st.targets[0]) == 'self.sample']
        if len(hits) != 1 or ast.unparse(hits[0].value) not in keeps:
            raise TranslateError('%s.__init__: self.sample' % cls)
        out.append(RawTarget('%s_sample_keeps' % cls.lower(), '(* self.sample of %s: the rows with selection == 1 *)\n'
                             'Definition %s_sample_keeps_Q (v_s : bool) : bool :=\n  %s.' % (cls, cls.lower(), keeps[ast.unparse(hits[0].value)]),
                             ['s'], ['kept']))
        tm = find_function(tree, cls + '.treatment_model')
        calls = [n for n in ast.walk(tm) if isinstance(n, ast.Call) and ast.unparse(n.func) == 'iptw_calculator']
        want_df = 'self.sample' if cls == 'IPSW' else 'self.df[self.sample]'
        if len(calls) != 1:
            raise TranslateError('%s.treatment_model: iptw_calculator calls' % cls)
        kw = {k.arg: ast.unparse(k.value) for k in calls[0].keywords}
        if calls[0].args or kw.get('df') != want_df or kw.get('standardize') != "'population'" or kw.get('treatment') != 'self.exposure' \
                or kw.get('stabilized') != 'stabilized' or kw.get('bound') != 'bound':
            raise TranslateError('%s.treatment_model: iptw_calculator arguments %s' % (cls, kw))

    # ---- total weight in fit (IPSW: self.sample, AIPSW: self.df)
    for cls, frame in (('IPSW', 'self.sample'), ('AIPSW', 'self.df')):
        fn = find_function(tree, cls + '.fit')
        tops = [st for st in fn.body if isinstance(st, ast.If) and ast.unparse(st.test) == 'self.weight is not None']
        if len(tops) != 1:
            raise TranslateError('expected one `if self.weight is not None:` in %s.fit' % cls)
        for usr in (False, True):
            for rx in (False, True):
                env = sym([tops[0]], {'self.weight is not None': usr, 'self.iptw is None': not rx}, {}, set())
                key = "%s['__ipw__']" % frame
                if key not in env:
                    raise TranslateError('%s.fit: no total weight for weights=%s, treatment_model=%s' % (cls, usr, rx))
                txt = q(env[key], {'self.ipsw': 'v_ipsw', 'self.iptw': 'v_iptw', '%s[self.weight]' % frame: 'v_w'})
                name = '%s_fit_ipw_%s_%s' % (cls.lower(), 'iptw' if rx else 'noiptw', 'w' if usr else 'now')
                out.append(RawTarget(name, 'Definition %s_Q (v_ipsw v_iptw v_w : Q) : Q :=\n  %s.' % (name, txt),
                                     ['ipsw', 'iptw', 'w'], ['weight']))

    # ---- IPSW.fit: arm risks
    fn = find_function(tree, 'IPSW.fit')
    rest = [st for st in fn.body if not (isinstance(st, ast.If)) and not (isinstance(st, ast.Expr))]
    env = sym(rest, {}, {}, set())
    for tgt, arm in (('r1', '1'), ('r0', '0')):
        v = env.get(tgt)
        want = "np.average(self.sample[self.sample[self.exposure] == %s].copy()[self.outcome], " \
               "weights=self.sample[self.sample[self.exposure] == %s].copy()['__ipw__'])" % (arm, arm)
        if v is None or ast.unparse(v) != want:
            raise TranslateError('IPSW.fit: %s is `%s`' % (tgt, ast.unparse(v) if v is not None else None))
        sel = 'filter (fun r => %s) rows' % ('sc_a r' if arm == '1' else 'negb (sc_a r)')
        out.append(RawTarget('ipsw_fit_' + tgt, '(* np.average(y, weights=w) over the rows of self.sample with exposure == %s *)\n'
                             'Definition ipsw_fit_%s_Q (rows : list scol) : Q :=\n  let sel := %s in\n'
                             '  Qsum (fun r => sc_ipw r * sc_y r) sel / Qsum (fun r => sc_ipw r) sel.' % (arm, tgt, sel),
                             ['rows'], ['risk']))
    for tgt, e in (('self.risk_difference', 'r1 - r0'), ('self.risk_ratio', 'r1 / r0')):
        for cls in ('IPSW', 'GTransportFormula', 'AIPSW'):
            f2 = find_function(tree, cls + '.fit')
            hits = [st for st in f2.body if isinstance(st, ast.Assign) and ast.unparse(st.targets[0]) == tgt]
            if len(hits) != 1 or ast.unparse(hits[0].value) != e:
                raise TranslateError('%s.fit: %s is not %s' % (cls, tgt, e))

    # ---- AIPSW.fit: per-row term and aggregate of each arm, generalize / transport
    fn = find_function(tree, 'AIPSW.fit')
    tops = [st for st in fn.body if isinstance(st, ast.If) and ast.unparse(st.test) == 'self.generalize']
    if len(tops) != 1:
        raise TranslateError('expected one `if self.generalize:` in AIPSW.fit')
    names = {"self.df['__ipw__']": 'ac_ipw r', 'self.df[self.outcome]': 'ac_y r', 'self._YA1': 'ac_q1 r', 'self._YA0': 'ac_q0 r',
             'self.df[self.selection]': 'ac_S r'}
    conds = {'self.sample & (self.df[self.exposure] == 1)': 'andb (ac_s r) (ac_a r)',
             'self.sample & (self.df[self.exposure] == 0)': 'andb (ac_s r) (negb (ac_a r))'}
    for gn in (True, False):
        env = sym([tops[0]], {'self.generalize': gn}, {}, set())
        for tgt in ('r1', 'r0'):
            v = env.get(tgt)
            if v is None:
                raise TranslateError('AIPSW.fit: no %s' % tgt)
            if isinstance(v, ast.Call) and ast.unparse(v.func) == 'np.mean' and len(v.args) == 1 and not v.keywords:
                agg = 'Qsum (fun r => %s) rows / Qlen rows' % q(v.args[0], names, conds)
            elif (isinstance(v, ast.BinOp) and isinstance(v.op, ast.Div)
                  and all(isinstance(x, ast.Call) and ast.unparse(x.func) == 'np.sum' and len(x.args) == 1 and not x.keywords
                          for x in (v.left, v.right))):
                agg = 'Qsum (fun r => %s) rows / Qsum (fun r => %s) rows' % (q(v.left.args[0], names, conds), q(v.right.args[0], names, conds))
            else:
                raise TranslateError('AIPSW.fit: %s is `%s`' % (tgt, ast.unparse(v)[:80]))
            name = 'aipsw_fit_%s_%s' % ('gen' if gn else 'trn', tgt)
            out.append(RawTarget(name, 'Definition %s_Q (rows : list acol) : Q :=\n  %s.' % (name, agg), ['rows'], ['risk']))

    # ---- GTransportFormula.fit: which frame, which aggregate
    fn = find_function(tree, 'GTransportFormula.fit')
    tops = [st for st in fn.body if isinstance(st, ast.If) and ast.unparse(st.test) == 'self.generalize']
    if len(tops) != 1:
        raise TranslateError('expected one `if self.generalize:` in GTransportFormula.fit')
    init = find_function(tree, 'GTransportFormula.__init__')
    ienv = sym([st for st in init.body if isinstance(st, ast.Assign) and ast.unparse(st.targets[0]) in ('self.df', 'self.sample', 'self.target')],
               {}, {}, set())
    frames = {'df.copy()': 'rows', 'df.loc[df[selection] == 0].copy()': 'filter (fun r => negb (tc_s r)) rows',
              'df.loc[df[selection] == 1].copy()': 'filter (fun r => tc_s r) rows'}
    for gn in (True, False):
        for usr in (False, True):
            body = tops[0].body if gn else tops[0].orelse
            # frame-level statements: dfa = F.copy(); dfa[self.exposure] = k; ya = predict(dfa)
            fr, lvl, pred = {}, {}, {}
            res = {}
            def walk(stmts):
                for st in stmts:
                    if isinstance(st, ast.If):
                        t = ast.unparse(st.test)
                        if t != 'self.weight is not None':
                            raise TranslateError('test `%s` in GTransportFormula.fit' % t)
                        walk(st.body if usr else st.orelse)
                        continue
                    if not (isinstance(st, ast.Assign) and len(st.targets) == 1):
                        raise TranslateError('statement `%s` in GTransportFormula.fit' % ast.unparse(st)[:60])
                    tgt, val = ast.unparse(st.targets[0]), st.value
                    u = ast.unparse(val)
                    if isinstance(st.targets[0], ast.Name) and u in ('self.df.copy()', 'self.target.copy()', 'self.sample.copy()'):
                        fr[tgt] = u[:-len('.copy()')]
                    elif isinstance(st.targets[0], ast.Subscript) and ast.unparse(st.targets[0].value) in fr \
                            and ast.unparse(st.targets[0].slice) == 'self.exposure' and u in ('1', '0'):
                        lvl[ast.unparse(st.targets[0].value)] = u
                    elif isinstance(val, ast.Call) and ast.unparse(val.func) == 'self._outcome_model.predict' and len(val.args) == 1 \
                            and ast.unparse(val.args[0]) in lvl:
                        pred[tgt] = ast.unparse(val.args[0])
                    elif tgt in ('r1', 'r0'):
                        res[tgt] = val
                    else:
                        raise TranslateError('statement `%s` in GTransportFormula.fit' % ast.unparse(st)[:60])
            walk(body)
            for tgt, want in (('r1', '1'), ('r0', '0')):
                v = res.get(tgt)
                if v is None:
                    raise TranslateError('GTransportFormula.fit: no %s' % tgt)
                if not (isinstance(v, ast.Call) and len(v.args) == 1 and ast.unparse(v.args[0]) in pred):
                    raise TranslateError('GTransportFormula.fit: %s is `%s`' % (tgt, ast.unparse(v)))
                d = pred[ast.unparse(v.args[0])]
                if lvl[d] != want:
                    raise TranslateError('GTransportFormula.fit: %s averages predictions under exposure %s' % (tgt, lvl[d]))
                col = 'tc_q1 r' if want == '1' else 'tc_q0 r'
                frame = ast.unparse(ienv[fr[d]]) if fr[d] in ienv else None
                if frame not in frames:
                    raise TranslateError('GTransportFormula: frame %s is `%s`' % (fr[d], frame))
                fu = ast.unparse(v.func)
                if fu == 'np.mean' and not v.keywords:
                    agg = 'Qsum (fun r => %s) sel / Qlen sel' % col
                elif fu == 'np.average' and [k.arg for k in v.keywords] == ['weights'] \
                        and ast.unparse(v.keywords[0].value) == '%s[self.weight]' % fr[d]:
                    agg = 'Qsum (fun r => tc_w r * %s) sel / Qsum (fun r => tc_w r) sel' % col
                else:
                    raise TranslateError('GTransportFormula.fit: aggregate `%s`' % ast.unparse(v))
                name = 'gt_fit_%s_%s_%s' % ('gen' if gn else 'trn', 'w' if usr else 'now', tgt)
                out.append(RawTarget(name, '(* rows: the combined data; sel: the frame GTransportFormula averages over *)\n'
                                     'Definition %s_Q (rows : list tcol) : Q :=\n  let sel := %s in\n  %s.' % (name, frames[frame], agg),
                                     ['rows'], ['risk']))
    return out


def siptw_targets():
    """StochasticIPTW.fit: numerator under a marginal plan, the overwrite step of the conditional loop (and that the column
    starts as NaN and the loop runs over zip(conditional, p) in order), denominator, weight, user-weight product, aggregate."""
    IP = os.path.join(REPO, 'zepid/causal/ipw/IPTW.py')
    fn = find_function(ast.parse(open(IP).read()), 'StochasticIPTW.fit')
    out = []
    A = 'df[self.treatment] == 1'

    def arith(node, names):
        u = ast.unparse(node)
        if u in names:
            return names[u]
        if isinstance(node, ast.Constant) and isinstance(node.value, int) and not isinstance(node.value, bool):
            return '(%d # 1)' % node.value
        if isinstance(node, ast.BinOp) and type(node.op) in (ast.Add, ast.Sub, ast.Mult, ast.Div):
            op = {ast.Add: '+', ast.Sub: '-', ast.Mult: '*', ast.Div: '/'}[type(node.op)]
            return '(%s %s %s)' % (arith(node.left, names), op, arith(node.right, names))
        if isinstance(node, ast.Call) and ast.unparse(node.func) == 'np.where' and len(node.args) == 3 and ast.unparse(node.args[0]) == A:
            return '(if v_a then %s else %s)' % (arith(node.args[1], names), arith(node.args[2], names))
        raise TranslateError('expression `%s` in StochasticIPTW.fit' % u[:70])

    def assigns(stmts, target):
        return [st for st in stmts if isinstance(st, ast.Assign) and ast.unparse(st.targets[0]) == target]

    tops = [st for st in fn.body if isinstance(st, ast.If) and ast.unparse(st.test) == 'conditional is None']
    if len(tops) != 1:
        raise TranslateError('expected one `if conditional is None:` in StochasticIPTW.fit')
    # every statement of fit after the argument checks must be one this translation accounts for
    tail = fn.body[fn.body.index(tops[0]) + 1:]
    want_tail = ["df['_denom_']", "df['_ipw_']", 'IF self.weights is not None', 'self.marginal_outcome']
    got_tail = [('IF ' + ast.unparse(st.test)) if isinstance(st, ast.If) else ast.unparse(st.targets[0]) if isinstance(st, ast.Assign) else '?'
                for st in tail]
    if got_tail != want_tail:
        raise TranslateError('StochasticIPTW.fit: statements after the numerator are %s' % got_tail)
    pre = [ast.unparse(st.targets[0]) for st in fn.body[:fn.body.index(tops[0])] if isinstance(st, ast.Assign)]
    if pre != ['p', 'df'] or ast.unparse(assigns(fn.body, 'df')[0].value) != 'self.df.copy()' \
            or ast.unparse(assigns(fn.body, 'p')[0].value) != 'np.array(p)':
        raise TranslateError('StochasticIPTW.fit: assignments before the numerator are %s' % pre)
    # marginal plan
    m = assigns(tops[0].body, "df['_numer_']")
    if len(m) != 1 or len(tops[0].body) != 1:
        raise TranslateError('StochasticIPTW.fit: marginal-plan branch')
    out.append(RawTarget('siptw_numer_marginal', 'Definition siptw_numer_marginal_Q (v_a : bool) (v_p : Q) : Q :=\n  %s.'
                         % arith(m[0].value, {'p': 'v_p'}), ['p'], ['numer']))
    # conditional plan: check call; NaN start; in-order overwrite loop
    ob = tops[0].orelse
    if not (len(ob) == 3 and isinstance(ob[0], ast.Expr) and ast.unparse(ob[0].value).startswith('stochastic_check_conditional(')
            and isinstance(ob[1], ast.Assign) and ast.unparse(ob[1]) == "df['_numer_'] = np.nan"
            and isinstance(ob[2], ast.For) and ast.unparse(ob[2].target) in ('c, prop', '(c, prop)') and ast.unparse(ob[2].iter) == 'zip(conditional, p)'
            and len(ob[2].body) == 1 and not ob[2].orelse):
        raise TranslateError('StochasticIPTW.fit: conditional-plan branch has changed shape')
    st = ob[2].body[0]
    v = st.value
    if not (isinstance(st, ast.Assign) and ast.unparse(st.targets[0]) == "df['_numer_']" and isinstance(v, ast.Call)
            and ast.unparse(v.func) == 'np.where' and len(v.args) == 3 and ast.unparse(v.args[0]) == 'eval(c)'
            and ast.unparse(v.args[2]) == "df['_numer_']"):
        raise TranslateError('StochasticIPTW.fit: loop body `%s`' % ast.unparse(st)[:80])
    out.append(RawTarget('siptw_numer_step', '(* one pass of `for c, prop in zip(conditional, p)`; the column starts as NaN (None) *)\n'
                         'Definition siptw_numer_step_Q (v_a : bool) (cur : option Q) (cp : bool * Q) : option Q :=\n'
                         '  if fst cp then Some %s else cur.\nDefinition siptw_numer_start_Q : option Q := None.'
                         % arith(v.args[1], {'prop': '(snd cp)'}), ['c', 'prop'], ['numer']))
    d = assigns(tail, "df['_denom_']")[0]
    out.append(RawTarget('siptw_denom', 'Definition siptw_denom_Q (v_a : bool) (v_pd : Q) : Q :=\n  %s.'
                         % arith(d.value, {'self._pdenom_': 'v_pd'}), ['pd'], ['denom']))
    w = assigns(tail, "df['_ipw_']")[0]
    out.append(RawTarget('siptw_ipw', 'Definition siptw_ipw_Q (v_numer v_denom : Q) : Q :=\n  %s.'
                         % arith(w.value, {"df['_numer_']": 'v_numer', "df['_denom_']": 'v_denom'}), ['numer', 'denom'], ['ipw']))
    wi = [x for x in tail if isinstance(x, ast.If)][0]
    if len(wi.body) != 1 or wi.orelse or ast.unparse(wi.body[0].targets[0]) != "df['_ipw_']":
        raise TranslateError('StochasticIPTW.fit: user-weight block')
    out.append(RawTarget('siptw_ipw_w', 'Definition siptw_ipw_w_Q (v_ipw v_w : Q) : Q :=\n  %s.'
                         % arith(wi.body[0].value, {"df['_ipw_']": 'v_ipw', 'df[self.weights]': 'v_w'}), ['ipw', 'w'], ['ipw']))
    mo = assigns(tail, 'self.marginal_outcome')[0]
    if ast.unparse(mo.value) != "np.average(df[self.outcome], weights=df['_ipw_'])":
        raise TranslateError('StochasticIPTW.fit: marginal outcome is `%s`' % ast.unparse(mo.value))
    out.append(RawTarget('siptw_marginal', '(* np.average(y, weights=w) over all rows; rows: (weight, outcome) *)\n'
                         'Definition siptw_marginal_Q (rows : list (Q * Q)) : Q :=\n'
                         '  Qsum (fun r => fst r * snd r) rows / Qsum (fun r => fst r) rows.', ['rows'], ['marginal']))
    return out


def slcoef_targets():
    """zepid.superlearner.stackers.SuperLearner: what fit does with the nnls output (threshold sqrt(eps), normalisation by the
    sum, the discrete branch's one-hot overwrite at np.argmax, which candidates are refit), the L2 cross-validated error,
    and what predict combines (column zeroed when the coefficient is not > 0, np.dot with the coefficients)."""
    SL = os.path.join(REPO, 'zepid/superlearner/stackers.py')
    tree = ast.parse(open(SL).read())
    fit = find_function(tree, 'SuperLearner.fit')
    pred = find_function(tree, 'SuperLearner.predict')
    err = find_function(tree, 'SuperLearner._error_term_')
    out = []

    def one(fn, target, what):
        hits = [st for st in ast.walk(fn) if isinstance(st, ast.Assign) and ast.unparse(st.targets[0]) == target]
        if len(hits) != 1:
            raise TranslateError('expected one assignment to %s in %s, found %d' % (target, what, len(hits)))
        return hits[0]

    # --- nnls -> coefs
    st = one(fit, 'coefs, _', 'SuperLearner.fit') if any(ast.unparse(x.targets[0]) == 'coefs, _' for x in ast.walk(fit) if isinstance(x, ast.Assign)) \
        else one(fit, '(coefs, _)', 'SuperLearner.fit')
    if ast.unparse(st.value) != 'nnls(cv_pred, y)':
        raise TranslateError('SuperLearner.fit: coefficients come from `%s`' % ast.unparse(st.value))
    if ast.unparse(one(fit, 'machine_limit', 'SuperLearner.fit').value) != 'np.finfo(np.double).eps':
        raise TranslateError('SuperLearner.fit: machine_limit')
    # the sequence between nnls and the refit: array, machine_limit, threshold, normalise, store
    seq_ = [ast.unparse(x) for x in fit.body if isinstance(x, ast.Assign) and ast.unparse(x.targets[0]) in
            ('coefs', 'machine_limit', 'coefs[coefs < np.sqrt(machine_limit)]', 'self.coefficients', "self.est_performance['coefs']")]
    want = ['coefs = np.array(coefs)', 'machine_limit = np.finfo(np.double).eps', 'coefs[coefs < np.sqrt(machine_limit)] = 0',
            'self.coefficients = coefs / np.sum(coefs)', "self.est_performance['coefs'] = self.coefficients"]
    if seq_ != want:
        raise TranslateError('SuperLearner.fit: coefficient post-processing is %s' % seq_)
    # sqrt(2^-52) = 2^-26 exactly
    out.append(RawTarget('sl_threshold', '(* coefs[coefs < np.sqrt(np.finfo(np.double).eps)] = 0 ;  sqrt(2^-52) = 2^-26 exactly *)\n'
                         'Definition sl_threshold_elem_Q (v_c : Q) : Q :=\n  if Qlt_bool v_c (1 # 67108864) then (0 # 1) else v_c.\n'
                         '(* self.coefficients = coefs / np.sum(coefs) *)\n'
                         'Definition sl_normalise_Q (coefs : list Q) : list Q :=\n  map (fun c => c / Qsum (fun x => x) coefs) coefs.',
                         ['coefs'], ['coefficients']))
    # --- discrete / non-discrete refit
    tops = [x for x in fit.body if isinstance(x, ast.If) and ast.unparse(x.test) == 'self.discrete']
    if len(tops) != 1:
        raise TranslateError('expected one `if self.discrete:` in SuperLearner.fit')
    db = [x for x in tops[0].body if not (isinstance(x, ast.If) and ast.unparse(x.test) == 'self._verbose_')]
    if not (len(db) == 2 and ast.unparse(db[0]) == 'discrete_sl_id = np.argmax(self.coefficients)' and isinstance(db[1], ast.For)
            and ast.unparse(db[1].iter) == 'range(n_est)'):
        raise TranslateError('SuperLearner.fit: discrete branch has changed shape')
    ifs = [x for x in db[1].body if isinstance(x, ast.If) and ast.unparse(x.test) != 'self._verbose_']
    if len(ifs) != 1 or ast.unparse(ifs[0].test) != 'est_id == discrete_sl_id':
        raise TranslateError('SuperLearner.fit: discrete loop test')

    def body_facts(stmts):
        fits = any(ast.unparse(x) == 'est.fit(X, y)' for x in stmts)
        sets = [ast.unparse(x.value) for x in stmts if isinstance(x, ast.Assign) and ast.unparse(x.targets[0]) == 'self.coefficients[est_id]']
        app = sum(ast.unparse(x) == 'self.fit_estimators.append(est)' for x in stmts)
        other = [ast.unparse(x)[:50] for x in stmts if not (isinstance(x, ast.If) and ast.unparse(x.test) == 'self._verbose_')
                 and ast.unparse(x) not in ('est.fit(X, y)', 'self.fit_estimators.append(est)')
                 and not (isinstance(x, ast.Assign) and ast.unparse(x.targets[0]) == 'self.coefficients[est_id]')]
        if other or app != 1 or len(sets) > 1:
            raise TranslateError('SuperLearner.fit: refit branch statements %s' % other)
        return fits, (sets[0] if sets else None)
    f1, s1 = body_facts(ifs[0].body)
    f0, s0 = body_facts(ifs[0].orelse)
    if s1 not in ('1', '0') or s0 not in ('1', '0'):
        raise TranslateError('SuperLearner.fit: discrete coefficients set to %s / %s' % (s1, s0))
    out.append(RawTarget('sl_discrete', '(* discrete super learner: at est_id == np.argmax(coefficients) / elsewhere *)\n'
                         'Definition sl_discrete_elem_Q (est_id sel : nat) : Q :=\n  if Nat.eqb est_id sel then (%s # 1) else (%s # 1).\n'
                         'Definition sl_discrete_refit_Q (est_id sel : nat) : bool :=\n  if Nat.eqb est_id sel then %s else %s.'
                         % (s1, s0, str(f1).lower(), str(f0).lower()), ['est_id', 'sel'], ['coef', 'refit']))
    nb = [x for x in tops[0].orelse if isinstance(x, ast.For)]
    if len(nb) != 1 or ast.unparse(nb[0].iter) != 'range(n_est)':
        raise TranslateError('SuperLearner.fit: non-discrete loop')
    ifs = [x for x in nb[0].body if isinstance(x, ast.If) and ast.unparse(x.test) != 'self._verbose_']
    if len(ifs) != 1 or ast.unparse(ifs[0].test) != 'self.coefficients[est_id] > 0':
        raise TranslateError('SuperLearner.fit: non-discrete refit test `%s`' % (ast.unparse(ifs[0].test) if ifs else None))
    f1, s1 = body_facts(ifs[0].body)
    f0, s0 = body_facts(ifs[0].orelse)
    if s1 is not None or s0 is not None:
        raise TranslateError('SuperLearner.fit: non-discrete branch rewrites coefficients')
    out.append(RawTarget('sl_refit', '(* super learner: candidate refit on all rows iff its coefficient > 0 *)\n'
                         'Definition sl_refit_Q (v_c : Q) : bool :=\n  if Qlt_bool (0 # 1) v_c then %s else %s.' % (str(f1).lower(), str(f0).lower()),
                         ['c'], ['refit']))
    # --- cv error (L2)
    l2 = [x for x in err.body if isinstance(x, ast.If) and ast.unparse(x.test) in ("self.loss_function == 'l2'", 'self.loss_function == "l2"')]
    if len(l2) != 1 or len(l2[0].body) != 1 or ast.unparse(l2[0].body[0]) != 'error = np.sum((y_obs - y_pred) ** 2) / y_obs.shape[0]':
        raise TranslateError('SuperLearner._error_term_: L2 branch')
    calls = [x for x in ast.walk(fit) if isinstance(x, ast.Call) and ast.unparse(x.func) == 'self._error_term_']
    if len(calls) != 1 or ast.unparse(calls[0]) != 'self._error_term_(y, cv_pred[:, est_id])':
        raise TranslateError('SuperLearner.fit: cross-validated error call')
    out.append(RawTarget('sl_cv_error', '(* np.sum((y_obs - y_pred) ** 2) / y_obs.shape[0] on (y, cv_pred[:, est_id]) *)\n'
                         'Definition sl_cv_error_l2_Q (y p : list Q) : Q :=\n'
                         '  Qsum (fun yp => (fst yp - snd yp) * (fst yp - snd yp)) (combine y p) / inject_Z (Z.of_nat (length y)).',
                         ['y', 'p'], ['error']))
    # --- predict
    loops = [x for x in pred.body if isinstance(x, ast.For)]
    if len(loops) != 1 or ast.unparse(loops[0].iter) != 'range(n_est)' or len(loops[0].body) != 1 or not isinstance(loops[0].body[0], ast.If):
        raise TranslateError('SuperLearner.predict: candidate loop')
    pi = loops[0].body[0]
    if not (ast.unparse(pi.test) == 'self.coefficients[est_id] > 0' and len(pi.body) == 1 and len(pi.orelse) == 1
            and ast.unparse(pi.body[0]) == 'cv_pred[:, est_id] = self._predict_(self.fit_estimators[est_id], X)'
            and ast.unparse(pi.orelse[0]) == 'cv_pred[:, est_id] = 0'):
        raise TranslateError('SuperLearner.predict: loop body `%s`' % ast.unparse(pi)[:100])
    l2p = [x for x in pred.body if isinstance(x, ast.If) and ast.unparse(x.test) in ("self.loss_function == 'l2'", 'self.loss_function == "l2"')]
    if len(l2p) != 1 or [ast.unparse(x) for x in l2p[0].body] != ['y_pred = np.dot(cv_pred, self.coefficients)']:
        raise TranslateError('SuperLearner.predict: L2 combination')
    nl = [x for x in pred.body if isinstance(x, ast.If) and ast.unparse(x.test) in ("self.loss_function == 'nloglik'", 'self.loss_function == "nloglik"')]
    wantn = ['cv_pred_bound = probability_bounds(cv_pred, bounds=self._bounds_)', 'logodds = logit(cv_pred_bound)',
             'logodds_pred = np.dot(logodds, self.coefficients)', 'y_pred = inverse_logit(logodds_pred)']
    if len(nl) != 1 or [ast.unparse(x) for x in nl[0].body] != wantn:
        raise TranslateError('SuperLearner.predict: NLogLik combination')
    out.append(RawTarget('sl_predict', '(* predict, one new row: column j is the candidate\'s prediction iff coefficient j > 0, else 0; np.dot *)\n'
                         'Definition sl_used_pred_Q (v_c v_p : Q) : Q :=\n  if Qlt_bool (0 # 1) v_c then v_p else (0 # 1).\n'
                         'Definition sl_dot_Q (vals coefs : list Q) : Q :=\n  Qsum (fun vc => fst vc * snd vc) (combine vals coefs).',
                         ['c', 'p'], ['pred']))
    return out


def xftmle_targets():
    """crossfit.tmle_calculator (SingleCrossfitTMLE / DoubleCrossfitTMLE): per measure the point estimate, the per-row influence
    value inside the loop over the parts (part means enter as scalars mean_<name>), the per-part aggregate, the aggregate over the
    parts and the divisor; crossfit.targeting_step: the clever covariates and the observed-arm prediction."""
    CF = os.path.join(REPO, 'zepid/causal/doublyrobust/crossfit.py')
    tree = ast.parse(open(CF).read())
    fn = find_function(tree, 'tmle_calculator')
    out = []
    top = [st for st in fn.body if isinstance(st, ast.If)]
    if len(top) != 1:
        raise TranslateError('tmle_calculator: expected one if/elif chain')
    branches, cur = [], top[0]
    while True:
        branches.append((ast.unparse(cur.test), cur.body))
        if len(cur.orelse) == 1 and isinstance(cur.orelse[0], ast.If):
            cur = cur.orelse[0]
        else:
            if not (len(cur.orelse) == 1 and isinstance(cur.orelse[0], ast.Raise)):
                raise TranslateError('tmle_calculator: final else is not a raise')
            break
    want_tests = ["measure in ['ate', 'risk_difference']", "measure == 'risk_ratio'", "measure == 'odds_ratio'"]
    if [t for t, _ in branches] != want_tests:
        raise TranslateError('tmle_calculator: branch tests %s' % [t for t, _ in branches])
    cols = {'ys': 'y', 'ystar1s': 'ystar1', 'ystar0s': 'ystar0', 'ystaras': 'ystara', 'haws': 'haw', 'h1ws': 'h1w', 'h0ws': 'h0w'}
    fields = {'ys': 'x_y r', 'ystar1s': 'x_q1 r', 'ystar0s': 'x_q0 r', 'ystaras': 'x_qa r', 'haws': 'x_ha r', 'h1ws': 'x_h1 r', 'h0ws': 'x_h0 r'}
    for tag, (_, body) in zip(('rd', 'rr', 'or'), branches):
        body = list(body)
        if tag == 'rd':
            # the unbounding prelude of measure == 'ate' (continuous outcomes): all four arrays through tmle_unit_unbound
            if not (isinstance(body[0], ast.If) and ast.unparse(body[0].test) == "measure == 'ate'"):
                raise TranslateError('tmle_calculator: ate prelude')
            pre = [ast.unparse(x) for x in body[0].body]
            wantp = ['%s = tmle_unit_unbound(%s, mini=lower_bound, maxi=upper_bound)' % (v, v) for v in ('y', 'ystar1', 'ystar0', 'ystara')]
            if pre != wantp or body[0].orelse:
                raise TranslateError('tmle_calculator: ate prelude is %s' % pre)
            body = body[1:]
        kinds = [type(x).__name__ for x in body]
        if kinds != ['Assign', 'Assign', 'For', 'Return']:
            raise TranslateError('tmle_calculator[%s]: statements %s' % (tag, kinds))
        est, var0, loop, ret = body
        if ast.unparse(est.targets[0]) != 'estimate' or ast.unparse(var0) != 'variance = []' \
                or ast.unparse(loop.iter) != 'set(splits)' or ast.unparse(loop.target) != 's' \
                or ast.unparse(ret.value) not in ('(estimate, np.mean(variance) / y.shape[0])', 'estimate, np.mean(variance) / y.shape[0]'):
            raise TranslateError('tmle_calculator[%s]: estimate / loop / return changed shape' % tag)
        seen, ic = set(), None
        for st in loop.body:
            u = ast.unparse(st)
            if isinstance(st, ast.Assign) and isinstance(st.targets[0], ast.Name) and st.targets[0].id in cols \
                    and u == '%s = %s[splits == s]' % (st.targets[0].id, cols[st.targets[0].id]):
                seen.add(st.targets[0].id)
            elif isinstance(st, ast.Assign) and ast.unparse(st.targets[0]) == 'ic' and ic is None:
                ic = st.value
            elif u == 'variance.append(np.var(ic, ddof=1))' and ic is not None:
                pass
            else:
                raise TranslateError('tmle_calculator[%s]: loop statement `%s`' % (tag, u[:70]))
        if ic is None or not ast.unparse(loop.body[-1]).startswith('variance.append'):
            raise TranslateError('tmle_calculator[%s]: no influence values / no per-part variance' % tag)
        v = _MeanRewrite().visit(ast.parse(ast.unparse(ic), mode='eval').body)
        names = [p_ for p_ in _free_names(v) if p_ != 'np']
        bad = [p_ for p_ in names if p_ not in seen and p_ != 'estimate' and not (p_.startswith('mean_') and p_[5:] in seen)]
        if bad:
            raise TranslateError('tmle_calculator[%s]: influence values use %s' % (tag, bad))
        tr = FnTranslator('xf_tmle_ic_' + tag, names)
        term = emit(tr.expr(v), 'Q')
        for nme in sorted(names, key=len, reverse=True):
            rep = fields[nme] if nme in fields else ('v_' + nme)
            term = term.replace('v_' + nme, '(%s)' % rep if nme in fields else rep)
        means = sorted(nme for nme in names if nme.startswith('mean_'))
        # the point estimate: aggregates of whole columns
        ev = _MeanRewrite().visit(ast.parse(ast.unparse(est.value), mode='eval').body)
        if tag == 'rd':
            if ast.unparse(est.value) != 'np.mean(ystar1 - ystar0)':
                raise TranslateError('tmle_calculator[rd]: estimate is %s' % ast.unparse(est.value))
            etxt = 'meanq (map (fun r => x_q1 r - x_q0 r) all)'
        else:
            tre = FnTranslator('xf_tmle_est_' + tag, ['mean_ystar1', 'mean_ystar0'])
            etxt = emit(tre.expr(ev), 'Q').replace('v_mean_ystar1', '(meanq (map x_q1 all))').replace('v_mean_ystar0', '(meanq (map x_q0 all))')
        lets = ''.join('    let v_%s := meanq (map %s part) in\n' % (m_, {'mean_ystar1s': 'x_q1', 'mean_ystar0s': 'x_q0'}[m_]) for m_ in means
                       if m_ in ('mean_ystar1s', 'mean_ystar0s'))
        if len(lets.splitlines()) != len(means):
            raise TranslateError('tmle_calculator[%s]: part means %s' % (tag, means))
        txt = ('(* all: every row; parts: the rows of each part (splits == s); n: y.shape[0] *)\n'
               'Definition xf_tmle_est_%s_Q (all : list xrow) : Q :=\n  %s.\n'
               'Definition xf_tmle_part_var_%s_Q (v_estimate : Q) (part : list xrow) : Q :=\n%s    var_ddof1 (map (fun r => %s) part).\n'
               'Definition xf_tmle_var_%s_Q (v_estimate : Q) (parts : list (list xrow)) (n : Q) : Q :=\n'
               '  meanq (map (xf_tmle_part_var_%s_Q v_estimate) parts) / n.' % (tag, etxt, tag, lets, term, tag, tag))
        out.append(RawTarget('xf_tmle_' + tag, txt, ['all', 'parts', 'n'], ['estimate', 'variance']))
    # ---- targeting_step: clever covariates and the observed-arm prediction (a used arithmetically: 0/1)
    ts = find_function(tree, 'targeting_step')
    defs = {}
    for st in ts.body:
        if isinstance(st, ast.Assign) and isinstance(st.targets[0], ast.Name) and st.targets[0].id in ('h1w', 'h0w', 'haw', 'py_o'):
            if st.targets[0].id in defs:
                raise TranslateError('targeting_step: %s assigned twice' % st.targets[0].id)
            defs[st.targets[0].id] = st.value
    if set(defs) != {'h1w', 'h0w', 'haw', 'py_o'}:
        raise TranslateError('targeting_step: clever covariate lines missing')
    ret = [st for st in ts.body if isinstance(st, ast.Return)]
    if len(ret) != 1 or ast.unparse(ret[0].value) not in ('(ystar1, ystar0, ystara, h1w, h0w, haw)', 'ystar1, ystar0, ystara, h1w, h0w, haw'):
        raise TranslateError('targeting_step: return value')
    parts_ = []
    for nm in ('h1w', 'h0w', 'haw', 'py_o'):
        tr = FnTranslator('xf_ts_' + nm, [p_ for p_ in _free_names(defs[nm]) if p_ != 'a'])
        e = tr.expr(_IndA().visit(ast.parse(ast.unparse(defs[nm]), mode='eval').body))
        ps = ' '.join('v_%s' % p_ for p_ in tr.params)
        parts_.append('Definition xf_ts_%s_Q (v_a : bool) (%s : Q) : Q :=\n  %s.' % (nm, ps, emit(e, 'Q')))
    out.append(RawTarget('xf_targeting', '\n'.join(parts_), ['a', 'pa1', 'pa0'], ['h1w', 'h0w', 'haw', 'py_o']))
    return out


def basefit_targets():
    """zepid/base.py, the .fit of RiskRatio, RiskDifference, NNT, OddsRatio, IncidenceRateRatio, IncidenceRateDifference: the
    row masks whose counts (or person-time sums) become the cells, which cell is handed to which parameter of the calculator,
    and the three missing-data counts."""
    tree = ast.parse(open(BASE).read())
    out = []

    def mask(n, lvl):
        """pandas boolean mask -> Coq boolean over r : frow"""
        if isinstance(n, ast.BinOp) and isinstance(n.op, ast.BitAnd):
            return '(%s && %s)' % (mask(n.left, lvl), mask(n.right, lvl))
        u = ast.unparse(n)
        if isinstance(n, ast.Compare) and len(n.ops) == 1 and isinstance(n.ops[0], ast.Eq):
            l, r = ast.unparse(n.left), ast.unparse(n.comparators[0])
            if l == 'df[exposure]' and r in lvl:
                return 'e_is %s r' % lvl[r]
            if l == 'df[outcome]' and r in ('1', '0'):
                return 'y_is %s r' % ('true' if r == '1' else 'false')
        table = {'df[exposure].isnull()': 'negb (e_obs r)', 'df[outcome].isnull()': 'negb (y_obs r)',
                 'df[exposure].notnull()': 'e_obs r', 'df[outcome].notnull()': 'y_obs r'}
        if u in table:
            return table[u]
        raise TranslateError('mask `%s` in zepid/base.py' % u[:70])

    def cell(v, lvl):
        """df.loc[mask].shape[0] -> count; df.loc[mask][time].sum() -> person-time"""
        u = ast.unparse(v)
        if isinstance(v, ast.Attribute) or isinstance(v, ast.Subscript) or isinstance(v, ast.Call):
            if u.endswith('.shape[0]') and isinstance(v, ast.Subscript) and isinstance(v.value, ast.Attribute) \
                    and isinstance(v.value.value, ast.Subscript) and ast.unparse(v.value.value.value) == 'df.loc':
                return 'Qlen (filter (fun r => %s) rows)' % mask(v.value.value.slice, lvl)
            if u.endswith('[time].sum()') and isinstance(v, ast.Call) and not v.args and isinstance(v.func.value, ast.Subscript) \
                    and isinstance(v.func.value.value, ast.Subscript) and ast.unparse(v.func.value.value.value) == 'df.loc':
                return 'Qsum tval (filter (fun r => %s) rows)' % mask(v.func.value.value.slice, lvl)
        if isinstance(v, ast.BinOp) and isinstance(v.op, ast.Sub):
            return '(%s - %s)' % (cell(v.left, lvl), cell(v.right, lvl))
        if u in lvl.get('__cells__', {}):
            return lvl['__cells__'][u]
        raise TranslateError('cell expression `%s` in zepid/base.py' % u[:80])

    for cls, tag, fn_name, keys in (('RiskRatio', 'rr', 'risk_ratio', ('a', 'b', 'c', 'd')),
                                    ('RiskDifference', 'rd', 'risk_difference', ('a', 'b', 'c', 'd')),
                                    ('NNT', 'nnt', 'number_needed_to_treat', ('a', 'b', 'c', 'd')),
                                    ('OddsRatio', 'or', 'odds_ratio', ('a', 'b', 'c', 'd')),
                                    ('IncidenceRateRatio', 'irr', 'incidence_rate_ratio', ('a', 't1', 'c', 't2')),
                                    ('IncidenceRateDifference', 'ird', 'incidence_rate_difference', ('a', 't1', 'c', 't2'))):
        fn = find_function(tree, cls + '.fit')
        loops = [st for st in fn.body if isinstance(st, ast.For) and ast.unparse(st.iter) == 'vals' and ast.unparse(st.target) == 'i']
        if len(loops) != 1:
            raise TranslateError('%s.fit: loop over the exposure levels' % cls)
        vals = [st for st in fn.body if isinstance(st, ast.Assign) and ast.unparse(st.targets[0]) == 'vals']
        rem = [st for st in fn.body if isinstance(st, ast.Expr) and ast.unparse(st) == 'vals.remove(self.reference)']
        if len(vals) != 1 or ast.unparse(vals[0].value) != 'set(df[exposure].dropna().unique())' or len(rem) != 1:
            raise TranslateError('%s.fit: the levels are no longer the observed exposure values without the reference' % cls)
        cells = {}
        lv_ref = {'self.reference': 'ref'}
        for st in fn.body:
            if isinstance(st, ast.Assign) and ast.unparse(st.targets[0]) in ('self._c', 'self._d', 'self._c_time'):
                cells[ast.unparse(st.targets[0])] = cell(st.value, lv_ref)
        lv_i = {'i': 'lvl'}
        for st in loops[0].body:
            if isinstance(st, ast.Assign) and isinstance(st.targets[0], ast.Name) and st.targets[0].id in ('a', 'b', 'a_t'):
                if st.targets[0].id in cells:
                    raise TranslateError('%s.fit: %s assigned twice' % (cls, st.targets[0].id))
                cells[st.targets[0].id] = cell(st.value, lv_i)
        calls = [n for n in ast.walk(loops[0]) if isinstance(n, ast.Call) and ast.unparse(n.func) == fn_name]
        if len(calls) != 1 or calls[0].args:
            raise TranslateError('%s.fit: call of %s' % (cls, fn_name))
        kw = {k.arg: ast.unparse(k.value) for k in calls[0].keywords}
        if set(kw) != set(keys) | {'alpha'} or kw['alpha'] != 'self.alpha':
            raise TranslateError('%s.fit: arguments of %s are %s' % (cls, fn_name, kw))
        args = []
        for k in keys:
            if kw[k] not in cells:
                raise TranslateError('%s.fit: %s=%s is not a tabulated cell' % (cls, k, kw[k]))
            args.append(cells[kw[k]])
        miss = {}
        for st in fn.body:
            if isinstance(st, ast.Assign) and ast.unparse(st.targets[0]) in ('self._missing_ed', 'self._missing_e', 'self._missing_d'):
                miss[ast.unparse(st.targets[0])] = cell(st.value, {'__cells__': dict(miss)})
        if set(miss) != {'self._missing_ed', 'self._missing_e', 'self._missing_d'}:
            raise TranslateError('%s.fit: missing-data counts' % cls)
        txt = ('(* %s.fit: the cells handed to %s(%s), for exposure level lvl against the reference ref *)\n'
               'Definition base_%s_call_Q (rows : list frow) (ref lvl : Z) : Q * Q * Q * Q :=\n  (%s,\n   %s,\n   %s,\n   %s).\n'
               '(* _missing_e, _missing_d, _missing_ed *)\n'
               'Definition base_%s_missing_Q (rows : list frow) : list Q :=\n  [%s;\n   %s;\n   %s].'
               % (cls, fn_name, ', '.join(keys), tag, args[0], args[1], args[2], args[3], tag,
                  miss['self._missing_e'], miss['self._missing_d'], miss['self._missing_ed']))
        if cls == 'RiskDifference':
            ns = [st for st in fn.body if isinstance(st, ast.Assign) and ast.unparse(st.targets[0]) == 'n']
            if len(ns) != 1 or ast.unparse(ns[0].value) != 'df.dropna(subset=[exposure, outcome]).shape[0]':
                raise TranslateError('RiskDifference.fit: n')
            txt += ('\n(* n of the no-assumption bounds: rows with exposure and outcome observed *)\n'
                    'Definition base_rd_n_Q (rows : list frow) : Q :=\n  Qlen (filter (fun r => e_obs r && y_obs r) rows).')
        out.append(RawTarget('base_' + tag, txt, ['rows', 'ref', 'lvl'], ['cells', 'missing']))
    return out


def stmle_targets():
    """StochasticTMLE: the clever covariate (numerator under a marginal plan, the overwrite loop of a conditional plan, the
    denominator of exposure_model), the two variance estimators, and in fit the standard error, the critical value and the limits."""
    TM = os.path.join(REPO, 'zepid/causal/doublyrobust/TMLE.py')
    tree = ast.parse(open(TM).read())
    fit = find_function(tree, 'StochasticTMLE.fit')
    out = []

    def assign(fn, target, n=1):
        hits = [st for st in ast.walk(fn) if isinstance(st, ast.Assign) and ast.unparse(st.targets[0]) == target]
        if len(hits) != n:
            raise TranslateError('StochasticTMLE: expected %d assignment(s) to %s, found %d' % (n, target, len(hits)))
        return hits

    A = 'self.df[self.exposure] == 1'

    def arith(node, names, a_tests):
        u = ast.unparse(node)
        if u in names:
            return names[u]
        if isinstance(node, ast.Constant) and isinstance(node.value, int) and not isinstance(node.value, bool):
            return '(%d # 1)' % node.value
        if isinstance(node, ast.BinOp) and type(node.op) in (ast.Add, ast.Sub, ast.Mult, ast.Div):
            op = {ast.Add: '+', ast.Sub: '-', ast.Mult: '*', ast.Div: '/'}[type(node.op)]
            return '(%s %s %s)' % (arith(node.left, names, a_tests), op, arith(node.right, names, a_tests))
        if isinstance(node, ast.Call) and ast.unparse(node.func) == 'np.where' and len(node.args) == 3 and ast.unparse(node.args[0]) in a_tests:
            return '(if v_a then %s else %s)' % (arith(node.args[1], names, a_tests), arith(node.args[2], names, a_tests))
        raise TranslateError('expression `%s` in StochasticTMLE' % u[:70])

    # ---- clever covariate
    tops = [st for st in fit.body if isinstance(st, ast.If) and ast.unparse(st.test) == 'conditional is None'
            and any(isinstance(b, ast.Assign) and ast.unparse(b.targets[0]) == 'numerator' for b in st.body)]
    if len(tops) != 1 or len(tops[0].body) != 1:
        raise TranslateError('StochasticTMLE.fit: clever-covariate block')
    num_m = arith(tops[0].body[0].value, {'p': 'v_p'}, (A,))
    ob = tops[0].orelse
    kinds = [ast.unparse(x)[:60] for x in ob]
    loop = [x for x in ob if isinstance(x, ast.For)]
    starts = [x for x in ob if isinstance(x, ast.Assign) and ast.unparse(x.targets[0]) == 'numerator']
    if not (len(loop) == 1 and len(starts) == 1 and 'np.nan' in ast.unparse(starts[0].value)
            and ast.unparse(loop[0].iter) == 'zip(conditional, p)' and ast.unparse(loop[0].target) in ('c, prop', '(c, prop)')
            and len(loop[0].body) == 1 and ob.index(starts[0]) < ob.index(loop[0])):
        raise TranslateError('StochasticTMLE.fit: conditional clever-covariate block is %s' % kinds)
    st = loop[0].body[0]
    v = st.value
    if not (isinstance(st, ast.Assign) and ast.unparse(st.targets[0]) == 'numerator' and isinstance(v, ast.Call)
            and ast.unparse(v.func) == 'np.where' and len(v.args) == 3 and ast.unparse(v.args[0]) == 'eval(c)'
            and ast.unparse(v.args[2]) == 'numerator'):
        raise TranslateError('StochasticTMLE.fit: loop body `%s`' % ast.unparse(st)[:80])
    step = arith(v.args[1], {'prop': '(snd cp)'}, (A, 'df[self.exposure] == 1'))
    haw = assign(fit, 'haw')[0]
    if ast.unparse(haw.value) != 'np.array(numerator / self._denominator_).astype(float)':
        raise TranslateError('StochasticTMLE.fit: haw is `%s`' % ast.unparse(haw.value))
    em = find_function(tree, 'StochasticTMLE.exposure_model')
    den = assign(em, 'self._denominator_')[0]
    den_t = arith(den.value, {'pred': 'v_pd'}, (A,))
    out.append(RawTarget('stmle_haw', 'Definition stmle_numer_marginal_Q (v_a : bool) (v_p : Q) : Q :=\n  %s.\n'
                         '(* one pass of `for c, prop in zip(conditional, p)`; the array starts as NaN (None) *)\n'
                         'Definition stmle_numer_step_Q (v_a : bool) (cur : option Q) (cp : bool * Q) : option Q :=\n'
                         '  if fst cp then Some %s else cur.\n'
                         'Definition stmle_denominator_Q (v_a : bool) (v_pd : Q) : Q :=\n  %s.\n'
                         'Definition stmle_haw_Q (v_numerator v_denominator : Q) : Q :=\n  (v_numerator / v_denominator).'
                         % (num_m, step, den_t), ['a', 'p', 'pd'], ['haw']))
    # ---- variance estimators
    for fname, tag, params in (('est_marginal_variance', 'marginal', ['haw', 'y_obs', 'y_pred', 'y_pred_targeted', 'psi']),
                               ('est_conditional_variance', 'conditional', ['haw', 'y_obs', 'y_pred'])):
        fn = find_function(tree, 'StochasticTMLE.' + fname)
        if [a.arg for a in fn.args.args] != params:
            raise TranslateError('StochasticTMLE.%s: parameters %s' % (fname, [a.arg for a in fn.args.args]))
        body = [x for x in fn.body if not (isinstance(x, ast.Expr) and isinstance(x.value, ast.Constant))]
        if [ast.unparse(x)[:30] for x in body[1:]] != ['var_est = np.mean(doqg_psi_sq)', 'return var_est'] \
                or not (isinstance(body[0], ast.Assign) and ast.unparse(body[0].targets[0]) == 'doqg_psi_sq'):
            raise TranslateError('StochasticTMLE.%s: body' % fname)
        tr = FnTranslator('stmle_%s_term' % tag, params)
        term = emit(tr.expr(body[0].value), 'Q')
        for nm, fld in (('y_pred_targeted', 'z_qs r'), ('y_pred', 'z_q r'), ('y_obs', 'z_y r'), ('haw', 'z_h r')):
            term = term.replace('v_' + nm, '(%s)' % fld)
        out.append(RawTarget('stmle_var_' + tag, '(* rows: (haw, y, initial prediction, mean targeted prediction under the plan) *)\n'
                             'Definition stmle_%s_variance_Q (rows : list zrow) (v_psi : Q) : Q :=\n'
                             '  Qsum (fun r => %s) rows / Qlen rows.' % (tag, term), ['rows', 'psi'], ['variance']))
    # ---- fit: how the estimators are called, standard error, limits
    for fname, tag, want in (('est_marginal_variance', 'marginal', {'haw': 'haw', 'y_obs': 'y_', 'y_pred': 'yq0_',
                                                                     'y_pred_targeted': 'np.mean(yqstar_, axis=0)', 'psi': 'self.marginal_outcome'}),
                             ('est_conditional_variance', 'conditional', {'haw': 'haw', 'y_obs': 'y_', 'y_pred': 'yq0_'})):
        calls = [n for n in ast.walk(fit) if isinstance(n, ast.Call) and ast.unparse(n.func) == 'self.' + fname]
        if len(calls) != 1 or calls[0].args or {k.arg: ast.unparse(k.value) for k in calls[0].keywords} != want:
            raise TranslateError('StochasticTMLE.fit: call of %s' % fname)
        if ast.unparse(assign(fit, 'variance_' + tag)[0].value) != ast.unparse(calls[0]):
            raise TranslateError('StochasticTMLE.fit: variance_%s' % tag)
    if ast.unparse(assign(fit, 'self.marginal_outcome', 1)[0].value) != 'np.mean(self.marginals_vector)':
        raise TranslateError('StochasticTMLE.fit: marginal_outcome')

    class SelfAttr(ast.NodeTransformer):
        def visit_Attribute(self, n):
            if isinstance(n.value, ast.Name) and n.value.id == 'self':
                return ast.copy_location(ast.Name(id=n.attr.lstrip('_'), ctx=ast.Load()), n)
            return self.generic_visit(n)

    def subst(e, name, by):
        if e[0] == 'var' and e[1] == name:
            return by
        return tuple(subst(x, name, by) if isinstance(x, tuple) else x for x in e)
    rtxt = []
    z = assign(fit, 'zalpha')[0].value
    for tag in ('marginal', 'conditional'):
        tr = FnTranslator('stmle_ci_' + tag, ['alpha', 'est', 'variance', 'n'])
        tr.defined |= {'zalpha', 'marginal_outcome', tag + '_se', 'variance_' + tag}
        ze = tr.expr(SelfAttr().visit(ast.parse(ast.unparse(z), mode='eval').body))
        se_src = ast.unparse(assign(fit, 'self.%s_se' % tag)[0].value).replace('self.df.shape[0]', 'n')
        se = tr.expr(SelfAttr().visit(ast.parse(se_src, mode='eval').body))
        se = subst(se, 'variance_' + tag, ('var', 'variance'))
        ci = assign(fit, 'self.%s_ci' % tag)[0].value
        if not isinstance(ci, (ast.List, ast.Tuple)) or len(ci.elts) != 2:
            raise TranslateError('StochasticTMLE.fit: %s_ci' % tag)
        lims = []
        for e in ci.elts:
            x = tr.expr(SelfAttr().visit(ast.parse(ast.unparse(e), mode='eval').body))
            x = subst(subst(subst(x, 'zalpha', ze), tag + '_se', ('var', 'se')), 'marginal_outcome', ('var', 'est'))
            lims.append(emit(x, 'R'))
        rtxt.append('Definition stmle_%s_se_R (v_variance v_n : R) : R :=\n  %s.\n'
                    'Definition stmle_%s_ci_R (zq : R -> R) (v_alpha v_est v_se : R) : R * R :=\n  (%s, %s).'
                    % (tag, emit(se, 'R'), tag, lims[0], lims[1]))
    out.append(RawTargetR('stmle_ci', '\n'.join(rtxt)))
    return out


def drest_targets():
    """point estimates of the doubly robust estimators: the four estimate lines of aipw_calculator (difference / ratio x
    weights given or not: which aggregate of which pseudo-outcome over which rows) and the four plug-in lines of TMLE.fit."""
    out = []
    fn = find_function(ast.parse(open(CUTILS).read()), 'aipw_calculator')
    tops = [st for st in fn.body if isinstance(st, ast.If) and ast.unparse(st.test) == 'difference']
    if len(tops) != 1:
        raise TranslateError('aipw_calculator: expected one `if difference:`')

    def branch(stmts, weighted):
        ws = [st for st in stmts if isinstance(st, ast.If) and ast.unparse(st.test) == 'weights is None']
        if len(ws) != 1:
            raise TranslateError('aipw_calculator: expected one `if weights is None:` per measure')
        return ws[0].orelse if weighted else ws[0].body

    def est_of(stmts):
        env = {}
        for st in stmts:
            if isinstance(st, ast.Assign) and ast.unparse(st.targets[0]) in ('obs', 'obs1, obs0', '(obs1, obs0)', 'estimate'):
                if ast.unparse(st.targets[0]) in env:
                    raise TranslateError('aipw_calculator: %s assigned twice in a branch' % ast.unparse(st.targets[0]))
                env[ast.unparse(st.targets[0])] = ast.unparse(st.value)
        if 'estimate' not in env:
            raise TranslateError('aipw_calculator: no estimate in a branch')
        return env
    # rows: pseudo-outcomes y1, y0 (None = NaN: the row's outcome is missing and the row is in that arm) and the weight.
    # np.nanmean(X) averages the rows where X is not NaN; y1 - y0 is NaN as soon as one of them is
    B = 'filter (fun r => both r) rows'
    S1, S0 = 'filter (fun r => has1 r) rows', 'filter (fun r => has0 r) rows'
    umean = lambda col, sel: '(Qsum (fun r => %s r) (%s) / Qlen (%s))' % (col, sel, sel)
    wmean = lambda col, sel: '(Qsum (fun r => p_w r * %s r) (%s) / Qsum (fun r => p_w r) (%s))' % (col, sel, sel)
    for diff, tagd in ((True, 'diff'), (False, 'ratio')):
        for weighted, tagw in ((False, 'now'), (True, 'w')):
            env = est_of(branch(tops[0].body if diff else tops[0].orelse, weighted))
            e = env['estimate']
            if not weighted and diff:
                if e != 'np.nanmean(y1 - y0)':
                    raise TranslateError('aipw_calculator: unweighted difference estimate is `%s`' % e)
                txt = 'Qsum (fun r => v1 r - v0 r) (%s) / Qlen (%s)' % (B, B)
            elif not weighted:
                if e != 'np.nanmean(y1) / np.nanmean(y0)':
                    raise TranslateError('aipw_calculator: unweighted ratio estimate is `%s`' % e)
                txt = '%s / %s' % (umean('v1', S1), umean('v0', S0))
            elif diff:
                want = 'DescrStatsW(y1[obs], weights=np.asarray(weights)[obs]).mean - DescrStatsW(y0[obs], weights=np.asarray(weights)[obs]).mean'
                if e != want or env.get('obs') != '~np.isnan(y1 - y0)':
                    raise TranslateError('aipw_calculator: weighted difference estimate is `%s` with obs=`%s`' % (e, env.get('obs')))
                txt = '%s - %s' % (wmean('v1', B), wmean('v0', B))
            else:
                want = 'DescrStatsW(y1[obs1], weights=np.asarray(weights)[obs1]).mean / DescrStatsW(y0[obs0], weights=np.asarray(weights)[obs0]).mean'
                if e != want or env.get('obs1, obs0', env.get('(obs1, obs0)')) not in ('(~np.isnan(y1), ~np.isnan(y0))', '~np.isnan(y1), ~np.isnan(y0)'):
                    raise TranslateError('aipw_calculator: weighted ratio estimate is `%s` with %s' % (e, env))
                txt = '%s / %s' % (wmean('v1', S1), wmean('v0', S0))
            out.append(RawTarget('aipw_est_%s_%s' % (tagd, tagw), 'Definition aipw_est_%s_%s_Q (rows : list prow) : Q :=\n  %s.' % (tagd, tagw, txt),
                                 ['rows'], ['estimate']))
    # ---- TMLE.fit plug-ins
    TM = os.path.join(REPO, 'zepid/causal/doublyrobust/TMLE.py')
    fit = find_function(ast.parse(open(TM).read()), 'TMLE.fit')
    M1, M0 = '(Qsum (fun r => fst r) rows / Qlen rows)', '(Qsum (fun r => snd r) rows / Qlen rows)'
    for attr, tag in (('average_treatment_effect', 'ate'), ('risk_difference', 'rd'), ('risk_ratio', 'rr'), ('odds_ratio', 'or')):
        hits = [st for st in ast.walk(fit) if isinstance(st, ast.Assign) and ast.unparse(st.targets[0]) == 'self.' + attr]
        if len(hits) != 1:
            raise TranslateError('TMLE.fit: expected one assignment to self.%s, found %d' % (attr, len(hits)))
        u = ast.unparse(hits[0].value)
        if u == 'np.nanmean(Qstar1 - Qstar0)':
            txt = 'Qsum (fun r => fst r - snd r) rows / Qlen rows'
        else:
            v = _MeanRewrite().visit(ast.parse(u, mode='eval').body)
            if sorted(set(_free_names(v)) - {'np'}) != ['mean_Qstar0', 'mean_Qstar1']:
                raise TranslateError('TMLE.fit: self.%s is `%s`' % (attr, u))
            tr = FnTranslator('tmle_est_' + tag, ['mean_Qstar1', 'mean_Qstar0'])
            txt = emit(tr.expr(v), 'Q').replace('v_mean_Qstar1', M1).replace('v_mean_Qstar0', M0)
        out.append(RawTarget('tmle_est_' + tag, '(* rows: the targeted predictions (Qstar1, Qstar0) of every row *)\n'
                             'Definition tmle_est_%s_Q (rows : list (Q * Q)) : Q :=\n  %s.' % (tag, txt), ['rows'], ['estimate']))
    return out


class RawTargetR(RawTarget):
    """ready-made Coq text over R"""
    def __init__(self, name, r_text):
        RawTarget.__init__(self, name, '(* %s: over R only, see the _R file *)' % name, ['alpha', 'est', 'se'], ['lcl', 'ucl'])
        self.r_text = r_text

    def coq(self):
        return self.r_text


GROUPS = {
    'tmle': tmle_targets,
    'calc': calc_targets,
    'rdbounds': bounds_targets,
    'weights': weights_targets,
    'aipw': aipw_targets,
    'ic': ic_targets,
    'pool': pool_targets,
    'pbounds': bounds_clip_targets,
    'wprod': wprod_targets,
    'gfmarg': gfmarg_targets,
    'xfvar': xfvar_targets,
    'gate': gate_targets,
    'drci': drci_targets,
    'gener': gener_targets,
    'siptw': siptw_targets,
    'slcoef': slcoef_targets,
    'xftmle': xftmle_targets,
    'basefit': basefit_targets,
    'stmle': stmle_targets,
    'drest': drest_targets,
}


def generate(groups=None):
    """returns {group: {'ok': bool, 'error': str, 'changed': bool}}; always writes a compilable file pair
    (an empty one when translation fails, so that dependants fail to build rather than use stale text)."""
    res = {}
    side = {}
    for g, fn in GROUPS.items():
        if groups and g not in groups:
            continue
        try:
            ts = fn()
            r = HEADER_R + '\n' + '\n\n'.join(t.coq() for t in ts) + '\n'
            q = HEADER_Q + ('From Zepid Require Import Base.QSum Base.QAgg.\n' if g in ('pool', 'gfmarg', 'siptw', 'slcoef') else '') + ('From Zepid Require Import Base.QSum Base.QAgg Base.Rows Model.Estimators.\n' if g == 'xfvar' else '') + ('From Zepid Require Import Model.Gate.\n' if g == 'gate' else '') + ('From Zepid Require Import Base.QSum Base.QAgg Base.Rows Model.Estimators Model.Variance.\n' if g in ('stmle', 'drest') else '') + ('From Coq Require Import ZArith.\nFrom Zepid Require Import Base.QSum Model.Frames.\n' if g == 'basefit' else '') + ('From Zepid Require Import Base.QSum Base.QAgg Base.Rows Model.Estimators Model.Variance.\n' if g == 'xftmle' else '') + ('From Zepid Require Import Base.QSum Base.QAgg Model.Generalize.\n' if g == 'gener' else '') + '\n' + '\n\n'.join(t.coq_q() for t in ts) + '\n'
            side[g] = [t.sidecar() for t in ts]
            err = None
        except (TranslateError, SyntaxError, OSError) as e:
            r = HEADER_R + '\n(* translation failed: %s *)\n' % str(e).replace('*)', '* )')
            q = HEADER_Q + '\n(* translation failed: %s *)\n' % str(e).replace('*)', '* )')
            err = str(e)
        c1 = write_if_changed(os.path.join(GEN, 'Gen_%s_R.v' % g), r)
        c2 = write_if_changed(os.path.join(GEN, 'Gen_%s_Q.v' % g), q)
        res[g] = {'ok': err is None, 'error': err, 'changed': c1 or c2}
    write_if_changed(os.path.join(GEN, 'sidecar.json'), json.dumps(side, indent=1, sort_keys=True))
    return res


def load(group):
    """Translated objects for a group (for float cross-evaluation)"""
    return {t.name: t for t in GROUPS[group]()}


if __name__ == '__main__':
    print(json.dumps(generate(sys.argv[1:] or None), indent=1))
